"""Shared tie for muggle/c/base/atomic.h (anchor of C01, C02, C04, C05).

The drivers of the concurrent properties never compile the BODIES of the muggle_atomic_* macros:
harness/vsched/vs_hooks.h #undef's every macro and re-defines it (scheduling point; __atomic builtin with
the call-site memory order; event log; scheduling point).  This module reads, on every run, what the
macros of the repository's header really are AS THE COMPILER SEES THEM in the checked configuration
(gcc, -std=gnu11 -O1, same include path and generated config header as every driver):

  * `gcc -E -dM` of a translation unit that includes atomic.h lists the macros (name, parameters);
  * a probe translation unit has one function per macro whose parameters P0, P1, .. are passed to the
    macro's parameters in order:   T PRB_<macro>(T *P0, T P1, int P2) { return <macro>(P0, P1, P2); }
    and one function per muggle_memory_order_* / __ATOMIC_* constant, per type macro (sizeof, signedness);
  * the probe is compiled with `-fdump-tree-optimized`; in the GIMPLE of each function the call of the
    __atomic_* builtin shows the builtin and, for each of its arguments, which macro parameter (or which
    constant) it is; the returned value is classified against the builtin's result (identity / negation /
    something else) by interpreting the definitions between the call and the `return`.

GIMPLE is after macro expansion, parsing, constant folding and inlining: parentheses, casts, temporaries,
statement expressions, `__atomic_store` instead of `__atomic_store_n`, an always-inline helper .. do not
change it, a different builtin / argument placement / constant does.

The same probe compiled with `-include harness/vsched/vs_hooks.h` gives what the HOOKS do for each macro
(builtin, argument placement, the operation name and the memory order they log, whether a spurious failure
is simulated), so that header and hooks cannot drift apart silently.

`coq_tables(...)` renders both tables + constants as Gallina (types of coq/Lib/AtomicTie.v).  A macro that
cannot be analysed becomes an entry with builtin BOther (the obligation breaks; nothing is skipped).
"""
import os
import re
import subprocess

HEADER = "muggle/c/base/atomic.h"

# documented signatures of the macros (role and C type of each parameter).  T is chosen by the suffix.
_SIG = {
    "load": ("T", ["T *", "int"]),
    "store": ("void", ["T *", "T", "int"]),
    "exchange": ("T", ["T *", "T", "int"]),
    "cmp_exch_weak": ("int", ["T *", "T *", "T", "int"]),
    "cmp_exch_strong": ("int", ["T *", "T *", "T", "int"]),
    "fetch_add": ("T", ["T *", "T", "int"]),
    "fetch_sub": ("T", ["T *", "T", "int"]),
    "test_and_set": ("int", ["muggle_atomic_byte *", "int"]),
    "clear": ("void", ["muggle_atomic_byte *", "int"]),
    "thread_fence": ("void", ["int"]),
    "signal_fence": ("void", ["int"]),
}
ORDERS = ["relaxed", "consume", "acquire", "release", "acq_rel", "seq_cst"]
TYPES = ["muggle_atomic_byte", "muggle_atomic_int", "muggle_atomic_int32", "muggle_atomic_int64"]
EXTRA_TYPES = []        # plugins may add typedef names to be probed, e.g. ("muggle_ref_cnt_t", header)

BUILTINS = [  # (regex on the GIMPLE callee, kind)
    (r"__atomic_load(_\d+|_n)?$", "BLoad"), (r"__atomic_store(_\d+|_n)?$", "BStore"),
    (r"__atomic_exchange(_\d+|_n)?$", "BXchg"), (r"__atomic_compare_exchange(_\d+|_n)?$", "BCas"),
    (r"__atomic_fetch_add(_\d+)?$", "BFadd"), (r"__atomic_fetch_sub(_\d+)?$", "BFsub"),
    (r"__atomic_test_and_set$", "BTas"), (r"__atomic_clear$", "BClear"),
    (r"__atomic_thread_fence$", "BFence"), (r"__atomic_signal_fence$", "BSigFence"),
]
# position of the (success) memory-order argument of each builtin, and of the macro parameter that is the order
ORDER_POS = {"BLoad": 1, "BStore": 2, "BXchg": 2, "BCas": 4, "BFadd": 2, "BFsub": 2, "BTas": 1, "BClear": 1,
             "BFence": 0, "BSigFence": 0}

GTYPES = {  # GIMPLE type names -> (signed, bits)
    "_Bool": (False, 1), "char": (True, 8), "signed char": (True, 8), "unsigned char": (False, 8),
    "short int": (True, 16), "short unsigned int": (False, 16), "int": (True, 32), "unsigned int": (False, 32),
    "long int": (True, 64), "long unsigned int": (False, 64), "long long int": (True, 64),
    "long long unsigned int": (False, 64),
    "int8_t": (True, 8), "uint8_t": (False, 8), "int16_t": (True, 16), "uint16_t": (False, 16),
    "int32_t": (True, 32), "uint32_t": (False, 32), "int64_t": (True, 64), "uint64_t": (False, 64),
    "size_t": (False, 64), "ssize_t": (True, 64), "intptr_t": (True, 64), "uintptr_t": (False, 64),
}


class TieError(Exception):
    pass


def _run(cmd, inp=None, timeout=120):
    p = subprocess.run(cmd, input=inp, stdout=subprocess.PIPE, stderr=subprocess.PIPE, text=True, timeout=timeout)
    return p.returncode, p.stdout, p.stderr


def _sig_of(name):
    """muggle_atomic_<base>[32|64] -> (base, value type, ret type, [param types]) or None"""
    m = re.match(r"muggle_atomic_(\w+?)(32|64)?$", name)
    if not m or m.group(1) not in _SIG:
        return None
    base, suf = m.group(1), m.group(2)
    if suf and base in ("load", "store", "test_and_set", "clear", "thread_fence", "signal_fence"):
        return None
    T = {"32": "muggle_atomic_int32", "64": "muggle_atomic_int64", None: "muggle_atomic_int"}[suf]
    ret, ps = _SIG[base]
    return base, T, ret.replace("T", T) if ret == "T" else ret, [p.replace("T", T) if p.startswith("T") else p for p in ps]


def list_macros(cflags, extra_include=None):
    """-> ({function-like macro name: [param names]}, {object-like name: body}) for muggle_atomic_* / muggle_memory_order_*"""
    src = ""
    if extra_include:
        src += '#include "%s"\n' % extra_include
    src += '#include "%s"\n' % HEADER
    rc, out, err = _run(["gcc"] + list(cflags) + ["-E", "-dM", "-x", "c", "-"], inp=src)
    if rc != 0:
        raise TieError("gcc -E -dM failed: " + err[-400:])
    fl, ol = {}, {}
    for ln in out.split("\n"):
        m = re.match(r"#define (muggle_(?:atomic|memory_order)_\w+)\(([^)]*)\)\s*(.*)", ln)
        if m:
            fl[m.group(1)] = ([p.strip() for p in m.group(2).split(",") if p.strip()], m.group(3))
            continue
        m = re.match(r"#define (muggle_(?:atomic|memory_order)_\w+)\s+(.*)", ln)
        if m:
            ol[m.group(1)] = m.group(2)
    return fl, ol


def probe_source(fl, extra_types=()):
    lines = ["#include <stdint.h>", '#include "%s"' % HEADER]
    for hdr in sorted(set(h for _, h in extra_types if h)):
        lines.append('#include "%s"' % hdr)
    probed = []
    for name in sorted(fl):
        sig = _sig_of(name)
        params = fl[name][0]
        if sig is None or len(params) != len(sig[3]):
            continue
        base, T, ret, ptys = sig
        args = ", ".join("%s P%d" % (t, i) for i, t in enumerate(ptys))
        call = "%s(%s)" % (name, ", ".join("P%d" % i for i in range(len(ptys))))
        if ret == "void":
            lines.append("void PRB_%s(%s) { %s; }" % (name, args, call))
        else:
            lines.append("%s PRB_%s(%s) { return %s; }" % (ret, name, args, call))
        probed.append(name)
    for o in ORDERS:
        lines.append("#ifdef muggle_memory_order_%s" % o)
        lines.append("long long PRC_muggle_memory_order_%s(void) { return muggle_memory_order_%s; }" % (o, o))
        lines.append("#endif")
        lines.append("long long PRC_builtin_%s(void) { return __ATOMIC_%s; }" % (o, o.upper()))
    for t, _ in [(t, None) for t in TYPES] + list(extra_types):
        lines.append("long long PRC_sizeof_%s(void) { return (long long)sizeof(%s); }" % (t, t))
        lines.append("long long PRC_signed_%s(void) { return ((%s)-1) < 0; }" % (t, t))
    return "\n".join(lines) + "\n", probed


def gimple(src_text, cflags, workdir, tag, hook_header=None):
    os.makedirs(workdir, exist_ok=True)
    c = os.path.join(workdir, "atomic_probe_%s.c" % tag)
    dump = os.path.join(workdir, "atomic_probe_%s.gimple" % tag)
    with open(c, "w") as f:
        f.write(src_text)
    if os.path.exists(dump):
        os.unlink(dump)
    cmd = ["gcc"] + list(cflags)
    if hook_header:
        cmd += ["-include", hook_header]
    cmd += ["-fdump-tree-optimized=" + dump, "-c", c, "-o", os.path.join(workdir, "atomic_probe_%s.o" % tag)]
    rc, out, err = _run(cmd)
    if rc != 0 or not os.path.exists(dump):
        raise TieError("probe does not compile (%s): %s" % (tag, err[-600:]))
    txt = open(dump).read()
    funs = {}
    for m in re.finditer(r";; Function (\w+) \(.*?\n(.*?)(?=\n;; Function |\Z)", txt, re.S):
        funs[m.group(1)] = m.group(2)
    return funs


# ---------------------------------------------------------------------------
# a very small reader of one GIMPLE function body

def _split_args(s):
    out, depth, cur, instr = [], 0, "", False
    for ch in s:
        if ch == '"':
            instr = not instr
        if not instr:
            if ch in "([":
                depth += 1
            elif ch in ")]":
                depth -= 1
            elif ch == "," and depth == 0:
                out.append(cur.strip())
                cur = ""
                continue
        cur += ch
    if cur.strip():
        out.append(cur.strip())
    return out


class Body:
    def __init__(self, text):
        self.defs = {}      # ssa name -> rhs text
        self.calls = []     # (lhs or None, callee, [args])
        self.rets = []
        self.phis = {}
        for ln in text.split("\n"):
            ln = ln.strip()
            m = re.match(r"# (\S+) = PHI <(.*)>$", ln)
            if m:
                self.phis[m.group(1)] = m.group(2)
                continue
            m = re.match(r"(?:(\S+) = )?([A-Za-z_][\w.]*) \((.*)\);$", ln)
            if m and not ln.startswith("if ") and not ln.startswith("return"):
                self.calls.append((m.group(1), m.group(2), _split_args(m.group(3))))
                if m.group(1):
                    self.defs[m.group(1)] = ("call", len(self.calls) - 1)
                continue
            m = re.match(r"return(?: (.*))?;$", ln)
            if m:
                self.rets.append(m.group(1))
                continue
            m = re.match(r"(\S+) = (.*);$", ln)
            if m:
                self.defs[m.group(1)] = ("expr", m.group(2))

    def arg(self, x, depth=0):
        """classify an operand: ('param', k) | ('const', n) | ('other', text)"""
        x = x.strip()
        m = re.match(r"P(\d+)_\d+\(D\)$", x)
        if m:
            return ("param", int(m.group(1)))
        if re.match(r"-?\d+$", x):
            return ("const", int(x))
        if x == "0B":
            return ("const", 0)
        if depth < 12 and x in self.defs and self.defs[x][0] == "expr":
            rhs = self.defs[x][1]
            m = re.match(r"\(([\w ]+?)\) (\S+)$", rhs)      # a cast
            if m:
                return self.arg(m.group(2), depth + 1)
            if re.match(r"[\w.]+(\(D\))?$", rhs) or re.match(r"-?\d+$", rhs):   # a copy
                return self.arg(rhs, depth + 1)
        return ("other", x)

    def value(self, x, env, depth=0):
        """interpret an SSA value under env (dict: ssa name -> int); None when it cannot be interpreted"""
        x = x.strip()
        if x in env:
            return env[x]
        if re.match(r"-?\d+$", x):
            return int(x)
        if depth > 16 or x not in self.defs or self.defs[x][0] != "expr":
            return None
        rhs = self.defs[x][1]
        m = re.match(r"\(([\w ]+?)\) (\S+)$", rhs)
        if m:
            v = self.value(m.group(2), env, depth + 1)
            ty = GTYPES.get(m.group(1).strip())
            if v is None or ty is None:
                return None
            sg, bits = ty
            if bits == 1:
                return 1 if v != 0 else 0
            v &= (1 << bits) - 1
            return v - (1 << bits) if sg and v >= (1 << (bits - 1)) else v
        m = re.match(r"~(\S+)$", rhs)
        if m:
            v = self.value(m.group(1), env, depth + 1)
            return None if v is None else (1 - v if v in (0, 1) else -v - 1)
        m = re.match(r"-(\S+)$", rhs)
        if m:
            v = self.value(m.group(1), env, depth + 1)
            return None if v is None else -v
        m = re.match(r"(\S+) (==|!=|\^|&|\||\+|-|<|>|<=|>=) (\S+)$", rhs)
        if m:
            a, b = self.value(m.group(1), env, depth + 1), self.value(m.group(3), env, depth + 1)
            if a is None or b is None:
                return None
            op = m.group(2)
            return {"==": int(a == b), "!=": int(a != b), "^": a ^ b, "&": a & b, "|": a | b, "+": a + b,
                    "-": a - b, "<": int(a < b), ">": int(a > b), "<=": int(a <= b), ">=": int(a >= b)}[op]
        if re.match(r"[\w.]+(\(D\))?$", rhs):
            return self.value(rhs, env, depth + 1)
        return None


def _kind(callee):
    for rx, k in BUILTINS:
        if re.match(rx, callee):
            return k
    return None


def _ret_class(body, call_lhs, kind, nparams, void, wide=False):
    if void:
        return "RVoid"
    if len(body.rets) != 1 or body.rets[0] is None or call_lhs is None:
        return "ROther"
    if kind in ("BCas", "BTas"):
        samples = [0, 1]
    else:
        samples = [0, 1, 5, -7, 1000003, 2 ** 31 - 1, -2 ** 31] + ([2 ** 62 + 11, -2 ** 63] if wide else [])
    got = []
    for r in samples:
        env = {call_lhs: r}
        for k in range(nparams):
            # every default definition of a parameter gets a distinctive value
            env.update({nm: 1009 + 97 * k for nm in _param_names(body, k)})
        got.append(body.value(body.rets[0], env))
    if None in got:
        return "ROther"
    if kind in ("BCas", "BTas"):
        return {(0, 1): "RId", (1, 0): "RNot"}.get(tuple(got), "ROther")
    # the builtin returns the operand type and so does the probe function: identity on every sample of that width
    return "RId" if got == samples else "ROther"


def _param_names(body, k):
    names = set()
    pat = re.compile(r"P%d_\d+\(D\)" % k)
    for v in body.defs.values():
        if v[0] == "expr":
            names.update(pat.findall(v[1]))
    for _, _, args in body.calls:
        for a in args:
            names.update(pat.findall(a))
    for r in body.rets:
        if r:
            names.update(pat.findall(r))
    return names


def analyse_header(funs, probed, fl):
    """-> {macro: dict(builtin, args, ret)}"""
    table = {}
    for name in sorted(fl):
        if not name.startswith("muggle_atomic_"):
            continue
        if name not in probed or ("PRB_" + name) not in funs:
            table[name] = {"builtin": "BOther", "args": [], "ret": "ROther", "why": "unknown macro or arity"}
            continue
        b = Body(funs["PRB_" + name])
        at = [(lhs, callee, args) for lhs, callee, args in b.calls if _kind(callee)]
        other = [c for c in b.calls if not _kind(c[1])]
        sig = _sig_of(name)
        if len(at) != 1 or other:
            table[name] = {"builtin": "BOther", "args": [], "ret": "ROther",
                           "why": "%d atomic builtin calls, %d other calls" % (len(at), len(other))}
            continue
        lhs, callee, args = at[0]
        k = _kind(callee)
        table[name] = {"builtin": k, "args": [b.arg(a) for a in args],
                       "ret": _ret_class(b, lhs, k, len(sig[3]), sig[2] == "void", wide=callee.endswith("_8"))}
    return table


def analyse_hooks(funs, probed):
    """-> {macro: dict(builtin, args, aux, log, logptr, logmo, spurious)} for the probe compiled with vs_hooks.h"""
    table = {}
    for name in probed:
        if ("PRB_" + name) not in funs:
            continue
        b = Body(funs["PRB_" + name])
        at = [(lhs, callee, args) for lhs, callee, args in b.calls if _kind(callee)]
        logs = [c for c in b.calls if c[1] == "vs_log"]
        others = sorted(set(c[1] for c in b.calls if not _kind(c[1])))
        if not at or len(logs) != 1:
            table[name] = {"builtin": "BOther", "args": [], "aux": [], "log": "?", "logptr": ("other", "?"),
                           "logmo": ("other", "?"), "spurious": False, "points": others}
            continue
        lhs, callee, args = at[-1]
        la = logs[0][2]
        table[name] = {
            "builtin": _kind(callee), "args": [b.arg(a) for a in args],
            "aux": [(_kind(c), [b.arg(a) for a in ar]) for _, c, ar in at[:-1]],
            "log": la[0].strip('"'), "logptr": b.arg(la[1]), "logmo": b.arg(la[2]),
            "spurious": "vs_spurious" in others,
            "points": others,
        }
    return table


def analyse_consts(funs, extra_types=()):
    out = {"orders": [], "types": []}

    def const_of(fn):
        if fn not in funs:
            return None
        b = Body(funs[fn])
        if len(b.rets) == 1 and b.rets[0] is not None and re.match(r"-?\d+$", b.rets[0].strip()):
            return int(b.rets[0])
        return None
    for o in ORDERS:
        out["orders"].append((o, const_of("PRC_muggle_memory_order_" + o), const_of("PRC_builtin_" + o)))
    for t in TYPES + [t for t, _ in extra_types]:
        out["types"].append((t, const_of("PRC_sizeof_" + t), const_of("PRC_signed_" + t)))
    return out


def probe(repo, gen_inc, verif, workdir, extra_types=()):
    """Everything in one call.  -> dict(header=..., hooks=..., consts=..., hooked=[names], unhooked=[names])"""
    cflags = ["-std=gnu11", "-O1", "-w", "-DNDEBUG", "-DMUGGLEC_VERIF", "-DMUGGLE_C_EXPORTS",
              "-I" + repo, "-I" + gen_inc, "-I" + os.path.join(verif, "harness")]
    hook = os.path.join(verif, "harness/vsched/vs_hooks.h")
    fl, ol = list_macros(cflags)
    flh, _ = list_macros(cflags, extra_include=hook)
    src, probed = probe_source(fl, extra_types)
    plain = gimple(src, cflags, workdir, "plain")
    hooked = gimple(src, cflags, workdir, "hooked", hook_header=hook)
    redefined = sorted(n for n in fl if n.startswith("muggle_atomic_") and flh.get(n) != fl.get(n))
    res = {
        "header": analyse_header(plain, probed, fl),
        "hooks": analyse_hooks(hooked, [n for n in probed if n in redefined]),
        "consts": analyse_consts(plain, extra_types),
        "hooked": redefined,
        "unhooked": sorted(n for n in fl if n.startswith("muggle_atomic_") and n not in redefined),
    }
    return res


# ---------------------------------------------------------------------------
# derived: the memory order a call site really gets

MO_NAMES = {0: "rlx", 1: "con", 2: "acq", 3: "rel", 4: "acqrel", 5: "sc"}


def effective_order(res, macro, callsite_mo):
    """memory order (vsched spelling) the builtin receives when `macro` is called with order `callsite_mo`"""
    e = res["header"].get(macro)
    if not e or e["builtin"] not in ORDER_POS:
        return "none"
    sig = _sig_of(macro)
    pos = ORDER_POS[e["builtin"]]
    if pos >= len(e["args"]):
        return "none"
    a = e["args"][pos]
    if a == ("param", len(sig[3]) - 1):
        return callsite_mo
    if a[0] == "const":
        by_builtin = {b: o for o, _, b in res["consts"]["orders"] if b is not None}
        names = {"relaxed": "rlx", "consume": "con", "acquire": "acq", "release": "rel", "acq_rel": "acqrel", "seq_cst": "sc"}
        return names.get(by_builtin.get(a[1]), "none")
    return "none"


def disagreements(res):
    """human-readable differences between what a macro of atomic.h is and what its hook performs (diagnostics
    only; the decision is the Coq obligation)"""
    out = []
    for n in sorted(res["header"]):
        h, k = res["header"][n], res["hooks"].get(n)
        if h["builtin"] == "BOther":
            out.append("%s: not a single __atomic builtin call (%s)" % (n, h.get("why", "?")))
            continue
        if k is None:
            continue
        hargs = list(h["args"])
        if h["builtin"] == "BCas" and len(hargs) > 3 and hargs[3] == ("const", 1) and k["spurious"]:
            hargs[3] = ("const", 0)       # the hook performs a weak compare-exchange strong + a simulated spurious failure
        if h["builtin"] != k["builtin"] or hargs != list(k["args"]):
            out.append("%s: header %s%s, hook %s%s" % (n, h["builtin"], [_garg(a) for a in h["args"]],
                                                      k["builtin"], [_garg(a) for a in k["args"]]))
    for o, a, b in res["consts"]["orders"]:
        if a != b:
            out.append("muggle_memory_order_%s = %s but __ATOMIC_%s = %s" % (o, a, o.upper(), b))
    return out


# ---------------------------------------------------------------------------
# Gallina rendering (types: coq/Lib/AtomicTie.v)

def _garg(a):
    if a[0] == "param":
        return "AParam %d" % a[1]
    if a[0] == "const":
        return "AConst (%d)" % a[1]
    return "AOther"


def _glist(xs):
    return "[" + "; ".join(xs) + "]"


def coq_tables(res, prefix=""):
    out = ["(* atomic.h as gcc sees it in the checked configuration (lib/atomic_tie.py): for every macro the builtin it",
           "   expands to, where each macro parameter lands among the builtin's arguments, how the result is returned *)",
           "Definition %sheader_atomic_table : list (string * amacro) :=" % prefix]
    rows = []
    for n in sorted(res["header"]):
        e = res["header"][n]
        if e.get("why"):
            out.insert(0, "(* %s: %s *)" % (n, e["why"]))
        rows.append('   ("%s", {| am_builtin := %s; am_args := %s; am_ret := %s |})' % (
            n, e["builtin"], _glist(_garg(a) for a in e["args"]), e["ret"]))
    out.append("  [\n" + ";\n".join(rows) + "\n  ].")
    out.append("")
    out.append("(* what harness/vsched/vs_hooks.h re-defines each macro to (same probe, compiled with the forced include) *)")
    out.append("Definition %shook_atomic_table : list (string * hmacro) :=" % prefix)
    rows = []
    for n in sorted(res["hooks"]):
        e = res["hooks"][n]
        aux = _glist("(%s, %s)" % (k, _glist(_garg(a) for a in ar)) for k, ar in e["aux"])
        rows.append('   ("%s", {| hm_builtin := %s; hm_args := %s; hm_aux := %s; hm_log := "%s"; hm_logptr := %s; '
                    'hm_logmo := %s; hm_spurious := %s |})' % (
                        n, e["builtin"], _glist(_garg(a) for a in e["args"]), aux, e["log"], _garg(e["logptr"]),
                        _garg(e["logmo"]), "true" if e["spurious"] else "false"))
    out.append("  [\n" + ";\n".join(rows) + "\n  ].")
    out.append("")
    out.append("Definition %sunhooked_atomic_macros : list string := %s." % (
        prefix, _glist('"%s"' % n for n in res["unhooked"])))
    out.append("")
    out.append("(* (name, value of muggle_memory_order_<name>, value of __ATOMIC_<NAME>); -1 = not a constant *)")
    out.append("Definition %smemory_order_consts : list (string * Z * Z) := %s." % (prefix, _glist(
        '("%s", %d, %d)' % (o, -1 if a is None else a, -1 if b is None else b) for o, a, b in res["consts"]["orders"])))
    out.append("(* (type, sizeof, signed) *)")
    out.append("Definition %satomic_types : list (string * Z * bool) := %s." % (prefix, _glist(
        '("%s", %d, %s)' % (t, -1 if s is None else s, "true" if sg == 1 else "false") for t, s, sg in res["consts"]["types"])))
    return "\n".join(out) + "\n"


if __name__ == "__main__":
    import sys
    import pprint
    repo = sys.argv[1] if len(sys.argv) > 1 else "/repo"
    here = os.path.dirname(os.path.dirname(os.path.abspath(__file__)))
    r = probe(repo, os.path.join(here, "build", "gen"), here, os.path.join(here, "build", "atomic_tie"),
              extra_types=[("muggle_ref_cnt_t", "muggle/c/sync/ref_cnt.h")])
    pprint.pprint(r)
    print(coq_tables(r))
