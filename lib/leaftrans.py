"""Small translator for LEAF integer functions: clang JSON AST -> Gallina over Z
(DESIGN.md section 4.4).  Supported: integer/bool locals, struct-pointer
parameters (field reads/writes, one-level array fields indexed by an
expression), if/else, return, assignment, compound assignment, ++/--, the
binary operators + - * / % & | ^ << >> < <= > >= == != && ||, unary - ! ~,
casts between integer types, conditional operator.  No loops, no calls, no
address-of.  Anything else raises LeafError (reported as a broken obligation).

The generated definition takes one argument per struct field it touches
(scalars: Z, arrays: list Z) followed by the scalar parameters, and returns the
return value (if non-void) and the final value of every field it writes, as a
right-nested tuple in order of first write.
"""
import json
import re
import subprocess


class LeafError(Exception):
    pass


INT_TYPES = {
    "char": (True, 8), "signed char": (True, 8), "unsigned char": (False, 8),
    "short": (True, 16), "unsigned short": (False, 16), "int": (True, 32), "unsigned int": (False, 32),
    "long": (True, 64), "unsigned long": (False, 64), "long long": (True, 64), "unsigned long long": (False, 64),
    "int8_t": (True, 8), "uint8_t": (False, 8), "int16_t": (True, 16), "uint16_t": (False, 16),
    "int32_t": (True, 32), "uint32_t": (False, 32), "int64_t": (True, 64), "uint64_t": (False, 64),
    "size_t": (False, 64), "_Bool": (False, 1), "bool": (False, 1), "muggle_atomic_int": (True, 32),
    "muggle_sync_t": (False, 32),
}


def ctype(node):
    t = node.get("type", {})
    q = t.get("desugaredQualType") or t.get("qualType", "")
    q = q.replace("const ", "").replace("volatile ", "").strip()
    if q in INT_TYPES:
        return INT_TYPES[q]
    q2 = t.get("qualType", "").replace("const ", "").strip()
    if q2 in INT_TYPES:
        return INT_TYPES[q2]
    return None


def load_function(src, name, cflags):
    cmd = ["clang", "-fsyntax-only", "-w"] + list(cflags) + ["-Xclang", "-ast-dump=json", "-Xclang",
                                                           "-ast-dump-filter=" + name, src]
    p = subprocess.run(cmd, stdout=subprocess.PIPE, stderr=subprocess.PIPE, text=True, timeout=120)
    txt = p.stdout
    dec, i, found = json.JSONDecoder(), 0, None
    while i < len(txt):
        while i < len(txt) and txt[i].isspace():
            i += 1
        if i >= len(txt):
            break
        obj, i = dec.raw_decode(txt, i)
        if obj.get("kind") == "FunctionDecl" and obj.get("name") == name and \
                any(c.get("kind") == "CompoundStmt" for c in obj.get("inner", [])):
            found = obj
    if not found:
        raise LeafError("function %s with a body not found in %s (%s)" % (name, src, p.stderr[-300:]))
    return found


class Tr:
    def __init__(self, fn, src=None, cflags=()):
        self.fn = fn
        self.src, self.cflags = src, cflags
        self.depth = 0
        self.fields = []        # (param, field, is_array) in order of first use
        self.written = []       # field keys written, order of first write
        self.cnt = 0
        self.params = []        # scalar params
        self.ptrs = set()
        for c in fn.get("inner", []):
            if c.get("kind") == "ParmVarDecl":
                if ctype(c) is not None:
                    self.params.append(c["name"])
                elif c["type"]["qualType"].endswith("*"):
                    self.ptrs.add(c["name"])
                else:
                    raise LeafError("unsupported parameter type " + c["type"]["qualType"])

    def fresh(self, base):
        self.cnt += 1
        return "%s_%d" % (re.sub(r"\W", "_", base), self.cnt)

    def fkey(self, node):
        """MemberExpr p->f  -> key 'p__f'"""
        base = strip(node["inner"][0])
        if base.get("kind") != "DeclRefExpr" or base["referencedDecl"]["name"] not in self.ptrs:
            raise LeafError("unsupported member base")
        key = "f_%s" % node["name"]
        is_arr = node["type"]["qualType"].endswith("*") or "[" in node["type"]["qualType"]
        if (key, is_arr) not in [(k, a) for k, a in self.fields]:
            self.fields.append((key, is_arr))
        return key

    # pointer-valued expression into an array field -> (field key, index text)
    def ptr(self, n, env):
        n = strip_ptr(n)
        k = n.get("kind")
        if k == "MemberExpr":
            return (self.fkey(n), "0")
        if k == "DeclRefExpr":
            v = env.get(n["referencedDecl"]["name"])
            if isinstance(v, tuple):
                return v
            raise LeafError("unsupported pointer variable " + n["referencedDecl"]["name"])
        if k == "BinaryOperator" and n["opcode"] in ("+", "-"):
            a, b = n["inner"]
            if is_ptr(a):
                key, i = self.ptr(a, env)
                off = self.z(b, env)
            elif n["opcode"] == "+" and is_ptr(b):
                key, i = self.ptr(b, env)
                off = self.z(a, env)
            else:
                raise LeafError("unsupported pointer arithmetic")
            if n["opcode"] == "-":
                return (key, "(%s - %s)" % (i, off))
            return (key, off if i == "0" else "(%s + %s)" % (i, off))
        if k == "UnaryOperator" and n["opcode"] == "&":
            return self.lval(strip(n["inner"][0]), env)
        if k == "CallExpr":
            return self.inline(n, env, want_ptr=True)
        raise LeafError("unsupported pointer expression " + str(k))

    # lvalue denoting an array element -> (field key, index text)
    def lval(self, n, env):
        k = n.get("kind")
        if k == "ArraySubscriptExpr":
            key, i = self.ptr(n["inner"][0], env)
            idx = self.z(n["inner"][1], env)
            return (key, idx if i == "0" else "(%s + %s)" % (i, idx))
        if k == "UnaryOperator" and n["opcode"] == "*":
            return self.ptr(n["inner"][0], env)
        raise LeafError("unsupported element lvalue " + str(k))

    # call of a helper whose body is a single `return e;` : inlined by substitution
    def inline(self, n, env, want_ptr=False):
        callee = strip_ptr(n["inner"][0])
        if callee.get("kind") != "DeclRefExpr" or self.src is None:
            raise LeafError("unsupported call")
        name = callee["referencedDecl"]["name"]
        if self.depth > 8:
            raise LeafError("call nesting too deep at " + name)
        fn = load_function(self.src, name, self.cflags)
        parms = [c for c in fn.get("inner", []) if c.get("kind") == "ParmVarDecl"]
        body = [c for c in fn["inner"] if c.get("kind") == "CompoundStmt"][0]
        ss = [x for x in body.get("inner", []) if x.get("kind") != "NullStmt"]
        if len(ss) != 1 or ss[0].get("kind") != "ReturnStmt" or not ss[0].get("inner"):
            raise LeafError("helper %s is not a single return expression" % name)
        args = n["inner"][1:]
        if len(args) != len(parms):
            raise LeafError("argument count mismatch calling " + name)
        cenv = {kk: vv for kk, vv in env.items() if kk.startswith("f_")}
        added = []
        for p_, a in zip(parms, args):
            if ctype(p_) is not None:
                cenv[p_["name"]] = self.z(a, env)
            elif p_["type"]["qualType"].endswith("*"):
                a0 = strip_ptr(a)
                if a0.get("kind") == "DeclRefExpr" and a0["referencedDecl"]["name"] in self.ptrs:
                    if p_["name"] not in self.ptrs:
                        self.ptrs.add(p_["name"]); added.append(p_["name"])
                else:
                    cenv[p_["name"]] = self.ptr(a, env)
            else:
                raise LeafError("unsupported parameter type in helper " + name)
        self.depth += 1
        try:
            if want_ptr:
                return self.ptr(ss[0]["inner"][0], cenv)
            return self.ex(ss[0]["inner"][0], cenv)
        finally:
            self.depth -= 1
            for a in added:
                self.ptrs.discard(a)

    # expression -> (gallina text, 'Z'|'B')
    def ex(self, n, env):
        k = n.get("kind")
        if k == "CallExpr":
            return self.inline(n, env)
        if k == "UnaryOperator" and n.get("opcode") == "*":
            key, i = self.ptr(n["inner"][0], env)
            return ("(lget %s %s)" % (env.get(key, key), i), "Z")
        if k in ("ParenExpr", "ConstantExpr"):
            return self.ex(n["inner"][0], env)
        if k == "ImplicitCastExpr" or k == "CStyleCastExpr":
            ck = n.get("castKind")
            inner = n["inner"][-1]
            if ck in ("LValueToRValue", "NoOp", "ArrayToPointerDecay"):
                return self.ex(inner, env)
            if ck in ("IntegralCast", "IntegralToBoolean", "BooleanToSignedIntegral"):
                e = self.z(inner, env)
                ty = ctype(n)
                if ty is None:
                    raise LeafError("cast to non-integer")
                if ck == "IntegralToBoolean" or ty[1] == 1:
                    return ("(z2b %s)" % e, "B")
                src = ctype(inner)
                if not ty[0]:
                    if src and not src[0] and src[1] <= ty[1]:
                        return (e, "Z")
                    return ("(wrapu %d %s)" % (ty[1], e), "Z")
                return (e, "Z")      # to signed: value-preserving where representable (UB/impl-defined otherwise)
            raise LeafError("unsupported cast " + str(ck))
        if k == "IntegerLiteral":
            v = int(n["value"])
            return ("(%d)" % v, "Z")
        if k == "CharacterLiteral":
            return ("(%d)" % int(n["value"]), "Z")
        if k == "DeclRefExpr":
            nm = n["referencedDecl"]["name"]
            if n["referencedDecl"].get("kind") == "EnumConstantDecl":
                raise LeafError("enum constant needs a value table: " + nm)
            if nm not in env:
                raise LeafError("unknown variable " + nm)
            if isinstance(env[nm], tuple):
                raise LeafError("pointer variable used as an integer: " + nm)
            return (env[nm], "Z")
        if k == "MemberExpr":
            key = self.fkey(n)
            return (env.get(key, key), "Z")
        if k == "ArraySubscriptExpr":
            key, i = self.lval(n, env)
            return ("(lget %s %s)" % (env.get(key, key), i), "Z")
        if k == "UnaryOperator":
            op = n["opcode"]
            if op == "-":
                return self.wrap(n, "(- %s)" % self.z(n["inner"][0], env))
            if op == "!":
                return ("(negb %s)" % self.b(n["inner"][0], env), "B")
            if op == "~":
                ty = ctype(n)
                if ty and not ty[0]:
                    return ("(2 ^ %d - 1 - %s)" % (ty[1], self.z(n["inner"][0], env)), "Z")
                return ("(- %s - 1)" % self.z(n["inner"][0], env), "Z")
            if op == "+":
                return self.ex(n["inner"][0], env)
            raise LeafError("unsupported unary " + op)
        if k == "ConditionalOperator":
            c = self.b(n["inner"][0], env)
            return ("(if %s then %s else %s)" % (c, self.z(n["inner"][1], env), self.z(n["inner"][2], env)), "Z")
        if k == "BinaryOperator":
            op = n["opcode"]
            a, b = n["inner"]
            if op in ("&&", "||"):
                return ("(%s %s %s)" % (self.b(a, env), "&&" if op == "&&" else "||", self.b(b, env)), "B")
            if op in ("<", "<=", ">", ">=", "==", "!="):
                m = {"<": "<?", "<=": "<=?", ">": ">?", ">=": ">=?", "==": "=?"}
                if op == "!=":
                    return ("(negb (%s =? %s))" % (self.z(a, env), self.z(b, env)), "B")
                return ("(%s %s %s)" % (self.z(a, env), m[op], self.z(b, env)), "B")
            x, y = self.z(a, env), self.z(b, env)
            if op in ("+", "-", "*"):
                return self.wrap(n, "(%s %s %s)" % (x, op, y))
            if op == "/":
                return ("(cdiv %s %s)" % (x, y), "Z")
            if op == "%":
                return ("(crem %s %s)" % (x, y), "Z")
            if op == "&":
                return ("(Z.land %s %s)" % (x, y), "Z")
            if op == "|":
                return ("(Z.lor %s %s)" % (x, y), "Z")
            if op == "^":
                return ("(Z.lxor %s %s)" % (x, y), "Z")
            if op == "<<":
                return self.wrap(n, "(Z.shiftl %s %s)" % (x, y))
            if op == ">>":
                return ("(Z.shiftr %s %s)" % (x, y), "Z")
            raise LeafError("unsupported binary " + op)
        raise LeafError("unsupported expression kind " + str(k))

    def wrap(self, n, e):
        ty = ctype(n)
        if ty is None:
            raise LeafError("non-integer arithmetic")
        if not ty[0]:
            return ("(wrapu %d %s)" % (ty[1], e), "Z")
        return (e, "Z")

    def z(self, n, env):
        e, k = self.ex(n, env)
        return e if k == "Z" else "(b2z %s)" % e

    def b(self, n, env):
        e, k = self.ex(n, env)
        return e if k == "B" else "(z2b %s)" % e

    # statements: returns gallina text of the continuation result
    def stmts(self, ss, env, ret_kind):
        if not ss:
            return self.result(None, env, ret_kind)
        s, rest = ss[0], ss[1:]
        k = s.get("kind")
        if k == "CompoundStmt":
            return self.stmts(list(s.get("inner", [])) + rest, env, ret_kind)
        if k == "NullStmt":
            return self.stmts(rest, env, ret_kind)
        if k == "DeclStmt":
            env = dict(env)
            out = ""
            for d in s.get("inner", []):
                if d.get("kind") == "VarDecl" and ctype(d) is None and d["type"]["qualType"].endswith("*") \
                        and d.get("inner"):
                    env[d["name"]] = self.ptr(d["inner"][-1], env)
                    continue
                if d.get("kind") != "VarDecl" or ctype(d) is None:
                    raise LeafError("unsupported declaration")
                nm = self.fresh(d["name"])
                init = d.get("inner", [])
                val = self.z(init[-1], env) if init else "0"
                ty = ctype(d)
                if ty[1] == 1:
                    val = self.z(init[-1], env) if init else "0"
                out += "let %s := %s in\n  " % (nm, val)
                env[d["name"]] = nm
            return out + self.stmts(rest, env, ret_kind)
        if k == "ReturnStmt":
            inner = s.get("inner", [])
            return self.result(inner[0] if inner else None, env, ret_kind)
        if k == "IfStmt":
            inner = s["inner"]
            c = self.b(inner[0], env)
            then = [inner[1]]
            els = [inner[2]] if len(inner) > 2 else []
            # both branches continue with the rest (duplicated; leaf functions are tiny)
            return "(if %s\n  then %s\n  else %s)" % (c, self.stmts(then + rest, env, ret_kind),
                                                      self.stmts(els + rest, env, ret_kind))
        if k in ("BinaryOperator", "CompoundAssignOperator") and (s["opcode"] == "=" or s["opcode"].endswith("=")):
            env = dict(env)
            lhs, rhs = s["inner"]
            if s["opcode"] == "=":
                val = self.z(rhs, env)
            else:
                fake = {"kind": "BinaryOperator", "opcode": s["opcode"][:-1], "inner": [lhs, rhs],
                        "type": s.get("computeResultType", s["type"])}
                val = self.z(fake, env)
                ty = ctype(s)
                if ty and not ty[0]:
                    val = "(wrapu %d %s)" % (ty[1], val)
            return self.assign(strip(lhs), val, env) + self.stmts(rest, env, ret_kind)
        if k == "UnaryOperator" and s["opcode"] in ("++", "--"):
            env = dict(env)
            lhs = strip(s["inner"][0])
            one = {"kind": "IntegerLiteral", "value": "1", "type": s["type"]}
            fake = {"kind": "BinaryOperator", "opcode": "+" if s["opcode"] == "++" else "-", "inner": [lhs, one],
                    "type": s["type"]}
            return self.assign(lhs, self.z(fake, env), env) + self.stmts(rest, env, ret_kind)
        raise LeafError("unsupported statement kind " + str(k))

    def assign(self, lhs, val, env):
        k = lhs.get("kind")
        if k == "DeclRefExpr":
            nm = lhs["referencedDecl"]["name"]
            new = self.fresh(nm)
            env[nm] = new
            return "let %s := %s in\n  " % (new, val)
        if k == "MemberExpr":
            key = self.fkey(lhs)
            new = self.fresh(key)
            env[key] = new
            if key not in self.written:
                self.written.append(key)
            return "let %s := %s in\n  " % (new, val)
        if k == "ArraySubscriptExpr" or (k == "UnaryOperator" and lhs.get("opcode") == "*"):
            key, idx = self.lval(lhs, env)
            new = self.fresh(key)
            cur = env.get(key, key)
            env[key] = new
            if key not in self.written:
                self.written.append(key)
            return "let %s := lset %s %s %s in\n  " % (new, cur, idx, val)
        raise LeafError("unsupported assignment target " + str(k))

    def result(self, retexpr, env, ret_kind):
        parts = []
        if ret_kind == "B":
            parts.append(self.b(retexpr, env) if retexpr is not None else "false")
        elif ret_kind == "Z":
            parts.append(self.z(retexpr, env) if retexpr is not None else "0")
        parts += ["@FIELD:%s@" % k if k not in env else env[k] for k in self.all_written]
        if not parts:
            return "tt"
        return "(" + ", ".join(parts) + ")" if len(parts) > 1 else parts[0]


def strip(n):
    while n.get("kind") in ("ParenExpr", "ImplicitCastExpr") and n.get("castKind", "NoOp") in ("NoOp", "LValueToRValue"):
        n = n["inner"][0]
    return n


def strip_ptr(n):
    while n.get("kind") in ("ParenExpr", "ImplicitCastExpr") and \
            n.get("castKind", "NoOp") in ("NoOp", "LValueToRValue", "ArrayToPointerDecay", "FunctionToPointerDecay"):
        n = n["inner"][0]
    return n


def is_ptr(n):
    q = n.get("type", {}).get("qualType", "")
    return q.endswith("*") or "[" in q


def collect_written(node, acc):
    k = node.get("kind")
    if k in ("BinaryOperator", "CompoundAssignOperator") and node.get("opcode", "").endswith("=") and \
            node.get("opcode") not in ("==", "!=", "<=", ">="):
        l = strip(node["inner"][0])
        if l.get("kind") == "ArraySubscriptExpr":
            l = strip(l["inner"][0])
        if l.get("kind") == "MemberExpr" and ("f_" + l["name"]) not in acc:
            acc.append("f_" + l["name"])
    if k == "UnaryOperator" and node.get("opcode") in ("++", "--"):
        l = strip(node["inner"][0])
        if l.get("kind") == "MemberExpr" and ("f_" + l["name"]) not in acc:
            acc.append("f_" + l["name"])
    for c in node.get("inner", []):
        collect_written(c, acc)


def translate(src, name, cflags, gname=None):
    """-> (gallina definition text, [field args], [scalar params], [written fields], ret_kind)"""
    fn = load_function(src, name, cflags)
    t = Tr(fn, src, cflags)
    body = [c for c in fn["inner"] if c.get("kind") == "CompoundStmt"][0]
    rt = fn["type"]["qualType"].split("(")[0].strip()
    if rt == "void":
        ret_kind = None
    elif rt in ("bool", "_Bool"):
        ret_kind = "B"
    elif rt in INT_TYPES:
        ret_kind = "Z"
    else:
        raise LeafError("unsupported return type " + rt)
    t.all_written = []
    collect_written(body, t.all_written)
    # canonical result order (by field name); stores made through helpers / pointers are only seen while
    # translating, so translate again when the syntactic scan missed one
    for _ in range(3):
        t.all_written = sorted(set(t.all_written) | set(t.written))
        t.cnt = 0
        env = {p: p for p in t.params}
        code = t.stmts([body], env, ret_kind)
        if set(t.written) <= set(t.all_written):
            break
    code = re.sub(r"@FIELD:(\w+)@", r"\1", code)
    # canonical argument order (by field name), independent of the order of first use in the C text
    t.fields = sorted(t.fields)
    args = ["(%s : %s)" % (k, "list Z" if a else "Z") for k, a in t.fields] + ["(%s : Z)" % p for p in t.params]
    gname = gname or ("gen_" + name)
    text = "Definition %s %s :=\n  %s.\n" % (gname, " ".join(args), code)
    return text, t.fields, t.params, t.all_written, ret_kind
