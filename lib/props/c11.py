"""C11 — sequence containers (array list, linked list, queue, stack) and pointer slot: plugin for bin/check.

Case text (see harness/drivers/c11_driver.c):
  header  al|st|ll|qu <cap> [F]   |   ps <requested> <preset|-> [F]
  ops     al: ins i d [F] | app i d [F] | rem i [B] | find i key | clear [B] | ens c [F] | destroy [B]
          st: push d [F] | pop [B] | clear [B] | ens c [F] | destroy [B]
          ll: ins p d [F] | app p d [F] | rem p [B] | find p key | clear [B] | destroy [B]   (p = N for NULL or a position)
          qu: enq d [F] | deq [B] | clear [B] | destroy [B]
          ps: ins d | rem i | get i
  F = every malloc of that operation fails; B = the operation is called WITHOUT free-data callback (NULL: borrowed
  data); destroy (last line only) destroys the container explicitly, otherwise it is destroyed with the callback at
  the end of the case.  The drivers refuse every malloc above 16 MiB.
Every op yields one line  r=<result> | <dump of the whole container> | freed=[..]
The monitor below is a reference written directly on Python lists / dicts; it
does not use the Coq model.
"""
import itertools
import vcommon as V

ID = "C11"
COQ_DIRS = ["C11"]
MODEL_BASE = "c11_model"
OCAML_DRIVER = "ocaml/c11_driver.ml"
C_DRIVER = "harness/drivers/c11_driver.c"
REPO_SOURCES = ["muggle/c/dsaa/array_list.c", "muggle/c/dsaa/stack.c", "muggle/c/dsaa/linked_list.c",
                "muggle/c/dsaa/queue.c", "muggle/c/memory/pointer_slot.c", "muggle/c/memory/memory_pool.c",
                "muggle/c/base/utils.c"]
LINK_FLAGS = ["-Wl,--wrap=malloc"]
HEADER_LINES = 1
CASE_TIMEOUT = 10.0
MODEL_CASE_TIMEOUT = 10.0
SHRINK_BUDGET = 150

RULE = ("every operation that takes a free-data callback (remove, clear, pop, dequeue, destroy) is driven with the callback and "
        "without it (NULL: about one third of them; exhaustive stack / queue families of length 3 / 4 over push, pop, pop-without, "
        "clear, clear-without ending in destroy with / without callback); array list indices include INT_MIN, INT_MIN+1, INT_MAX; "
        "pointer slot additionally: requested capacities 1000, 4097, 65535, 65536, 70000, 131072 x 5 cursor presets (slot numbers "
        ">= 65536 handed out, 2^32 wrap) and requests 2^24 .. 2^31 (refused by the drivers' 16 MiB malloc limit) and 2^31+1 .. "
        "UINT32_MAX (must be refused by init); "
        "array list: every history of insert/append/remove up to length 4 (quick) / 5 (thorough) from capacity 1 and 2 with "
        "every index in [-size-1,size] at every step, each followed by find/clear; stack, queue: every op sequence up to "
        "length 6/7; linked list: every history up to length 4/5 over every node position and NULL, with and without node "
        "pool; pointer slot: every requested capacity 0..33 x counter presets {0, UINT_MAX, UINT_MAX-1, UINT_MAX-cap+1, 2^31} "
        "with fill/refuse/remove/refill/double-remove scripts, every ins/rem history up to length 5/6 for requested 1..4, "
        "plus seeded random long histories (100-400 ops, several growths, malloc failures, NULL data, far indices); after "
        "every op the whole container is dumped (contents, size, capacity, every index in [-size-2,size+1], both walk "
        "directions, every slot index 0..capacity+1) and compared; distinct = distinct script text with at least one "
        "accepted and one refused operation or probe")
TRUSTED_BASE = [
    "modelled, not verified: malloc (oracle; failure injected with -Wl,--wrap=malloc); memory_pool.c as node pool is "
    "represented by its capacity only; node identity (a freed node's address may be reused by the allocator; the models and "
    "both drivers number nodes by creation order)",
    "the heap-level models of linked list / queue / pointer-slot live list (coq/C11/ModelHeap.v: next/prev/data maps, one "
    "set_next/set_prev per C pointer assignment) are what the extracted model driver runs for these three containers; since "
    "the slicer tie they are also proved equal to the C text of every run for insert / append / remove, enqueue / dequeue and "
    "pointer-slot insert / remove (gen_ll_* / gen_qu_* / gen_ps_* obligations); clear / find / init / destroy and the array "
    "list's / stack's clear, find, index, top remain tied by the differential run only",
    "lib/props/c11_slice.py (clang 14 JSON AST -> Gallina, with lib/leaftrans.load_function and the vocabulary of "
    "coq/Lib/Leaf.v, coq/C11/ModelHeap.v (upd, HEAD, TAIL, NULLP) and coq/C11/GenLib.v): node pointers are ids (&c->head = "
    "HEAD, &c->tail = TAIL, NULL = NULLP, &c->slots[k] = k), node fields are maps, void * data are integers; the allocator "
    "is one oracle value per call path (newp / the fresh array m1), free / pool_free of a node and calls through the "
    "free-data callback are recorded as output lists; `if (callback)` is taken (the drivers always supply it); a counting "
    "loop whose body is one cell-to-cell copy is summarised by its trip count, start, step and the two index offsets "
    "(index arithmetic of the loop variable taken as mathematical: sizes are < 2^31 by MUGGLE_DS_CAP_IS_VALID), memmove / "
    "memcpy by (destination, source, bytes / 8); a cast to a signed integer type is value-preserving; sizeof and the err.h "
    "constants are read from `gcc -S` of the file itself (nothing is linked or run); ensure_capacity is opaque inside insert / "
    "append / push (argument recorded, result and the fields it writes replaced by fresh arguments) and sliced on its own",
    "next_pow_of_2 is modelled as the 5-step smear of utils.c and proved to round up to a power of two for arguments <= 2^31",
    "lib/leaftrans.py (clang JSON AST -> Gallina) for the second tie of muggle_array_list_get_index; it renders the final "
    "(int) cast as value-preserving",
]
ASSUMPTIONS = [
    "array list index is any int (INT_MIN included since fixes/C11-array-list-int-min-index.patch); sizes stay below 2^31 (enforced by MUGGLE_DS_CAP_IS_VALID)",
    "linked list node arguments are nodes of that list (C cannot check a pointer); the free-data callback is supplied or NULL (flag cb of every operation that takes one)",
    "pointer slot: every requested capacity of type unsigned int (init refuses above 2^31 since fixes/C11-pointer-slot-capacity-overflow.patch); cursor presets are applied to a fresh (empty) slot only",
    "slicer tie: the number of nodes of a list / queue is below 2^64 - 1 (size + 1 does not wrap)",
]
EVIDENCE_NOTES = [
    "proved in Coq, unbounded (Properties_C11.v, 44 theorems, all closed under the global context): "
    "al_refines_seq (every op incl. ensure_capacity/clear, every int index INT_MIN included, with and without free-data "
    "callback - without one nothing is released and contents / size change exactly as with one -, every state satisfying the "
    "representation invariant: equals the reference list operation, or - when storage cannot be obtained - is rejected with "
    "contents, size and capacity unchanged; the two shift loops are modelled as loops and proved), al_history_refines_seq "
    "(all histories from init, any capacity, growth and malloc failures), al_get_index_is_norm_index, al_index_refines_seq, "
    "al_find_refines_seq; stack_refines_seq, stack_history_refines_seq; list_refines_seq, queue_refines_seq (functional "
    "models refine the reference sequence, node ids unique, size = length, node-pool capacity respected); pointer slot: "
    "ps_inv_reachable (ring segment [alloc_index, alloc_index+free) = the free slots without duplicates, free+live=capacity, "
    "free_index = alloc_index - live mod 2^32, for every requested capacity <= 2^31 and every cursor preset, i.e. across the "
    "2^32 wrap), ps_init_every_requested_capacity (every unsigned int request: accepted up to 2^31 in a state satisfying the "
    "invariant with capacity >= request, refused above), ps_capacity_overflow_refuted_before_repair (witness 2^31+1 on the code "
    "before the patch: capacity 0, first insert out of bounds), ps_reachable_states_invariant, ps_unique_live, ps_get_until_removed, ps_full_refuses (both directions), "
    "ps_double_remove_refused, ps_iter_insertion_order, ps_step_refines_spec, ps_all_capacities (no access outside slots[]/"
    "pp_slots[]), ps_all_capacities_refuted_before_repair (witness: requested 3 on the code before the patch), "
    "next_pow_of_2_rounds_up",
    "proved in Coq at HEAP level (coq/C11/ModelHeap.v + ProofsHeap.v): nodes are ids, next/prev/data are explicit maps, head and "
    "tail are sentinels, every pointer assignment of linked_list.c insert/append/remove/clear/find, queue.c enqueue/dequeue/"
    "clear/front and pointer_slot.c insert/remove is one set_next/set_prev in the order of the C text; "
    "list_heap_step_refines / list_heap_find_refines / list_heap_refines_seq, queue_heap_refines_seq, "
    "ps_heap_refines_live_list: the heap-level models refine the functional sequence models (same results, the chain "
    "head->...->tail is well formed: a->next=b and b->prev=a for consecutive nodes, all nodes distinct hence acyclic, forward "
    "walk = the abstract node sequence, backward walk = its reverse, the clear loop terminates within size iterations); "
    "heap_chain_next_prev_inverse, heap_chain_walks.  Dropping one prev/next assignment from ModelHeap.v makes ProofsHeap.v fail "
    "(checked for node->prev = new_node in hl_insert)",
    "second tie (leaf translator): gen_get_index_eq - the C text of muggle_array_list_get_index re-translated on every run "
    "(coq/gen/Params_C11.v) equals al_get_index for every list state and int index; the proof is a shape-independent decision "
    "procedure (unfold, split every conditional, lia over the euclidean-division equations), so structure-only rewrites "
    "(guard clauses, ternaries, hoisted locals, negated conditions with swapped branches, narrower unsigned arithmetic) still "
    "prove, while a change of an accepted range or of the selected value breaks the obligation directly",
    "DESIGN.md A.3 stated free_index = alloc_index + F (mod 2^32); that is false at init (all free, both cursors equal); the "
    "proved relation is free_index = alloc_index - |live| (mod 2^32), which gives the A.3 relation modulo the capacity",
    "second tie, slicer kind (lib/props/c11_slice.py, 14 obligations gen_*_eq): on every run the C text of "
    "muggle_linked_list_insert / _append / _remove, muggle_queue_enqueue / _dequeue, muggle_pointer_slot_insert / _remove, "
    "muggle_array_list_insert / _append / _remove / _ensure_capacity and muggle_stack_push / _pop / _ensure_capacity (with "
    "every file-local helper they call inlined, whatever their number and shape) is symbolically executed from the clang AST "
    "into one Gallina term per function in coq/gen/Params_C11.v: node->next / ->prev / ->data / ->in_used stores become "
    "updates of maps Z -> Z read back through the newest version (so a read placed after the store it should precede shows "
    "up as a different term), pp_slots[] / nodes[] are lists, cursors and sizes wrap explicitly, loops and memmove / memcpy "
    "become lshift / lcopy / lmove / lblit with their trip count and index offsets.  coq/C11/ProofsGenHeap.v proves, for "
    "every pair of states related by the refinement invariants (ll_inv + hl_R, qu_inv + hq_R, ps_inv: any capacity, cursors "
    "anywhere in [0, 2^32)), every position / NULL, allocation success and failure, that the generated term yields the "
    "return value, the next / prev / data / in_used maps (pointwise), pp_slots, cursors, size, callback data and released "
    "node of ModelHeap.hl_insert / hl_append / hl_remove / hq_enqueue / hq_dequeue / hps_insert / hps_remove, and the err.h "
    "codes of this run; coq/C11/ProofsGenArr.v proves that the array terms yield the storage cell by cell, capacity, size, "
    "returned offset, the capacity asked from ensure_capacity (exactly twice the capacity exactly when size = capacity), "
    "the size asked from malloc and the callback data of Model.al_insert / al_append / al_remove / al_ensure / st_push / "
    "st_pop / st_ensure.  The gen side of each proof is a shape-independent decision tactic (heap_decide / ps_decide / "
    "arr_decide: unfold, decide every conditional innermost first, compare tuples component by component, maps pointwise by "
    "congruence, integers by time-limited lia, arrays cell by cell through the laws of coq/C11/GenLib.v); hoisted reads, "
    "re-ordered independent stores, helpers, while / for / memmove forms keep proving, a stale read, a forgotten store, a "
    "changed loop bound, growth factor or cursor step does not.  A construct the slicer does not know is written as a "
    "comment into Params_C11.v and breaks the obligation (never a silent skip)",
    "covered by the differential run + monitor only (not proved): that the hand-written models are faithful transcriptions "
    "of the C text for the functions the two translator ties do not reach (init / destroy / clear / find / index / top / "
    "is_empty / size of the five containers, pointer-slot get / iteration); memory_pool.c as node pool beyond its capacity "
    "counter; free()/use-after-free of nodes (ASan); exactly-once freeing at destroy",
    "defect confirmed on the unchanged tree and repaired by fixes/C11-pointer-slot-alloc-rounded.patch (applied to /repo): "
    "pointer_slot_init sized slots[]/pp_slots[] by the requested capacity but used the rounded capacity as ring modulus and "
    "bound (1518 of 3210 quick-tier pointer-slot cases ended in an ASan heap-buffer-overflow: every requested capacity that "
    "is not a power of two)",
    "two more genuine defects of the unchanged code under the property text, found by review (audit D3, D4), first made to fail "
    "in the check with concrete replays and then repaired: pointer_slot_init(0x80000001) returned 0 with capacity 0 and the "
    "first insert read outside pp_slots[] ('for every requested capacity'; replay `ps 2147483649 - / get 0`: init answered ok "
    "with capacity 0; fixes/C11-pointer-slot-capacity-overflow.patch refuses requests above 2^31 with MUGGLE_ERR_INVALID_PARAM); "
    "muggle_array_list_get_index negated INT_MIN in int ('invalid positions are rejected without effect'; replay `al 2 / ins "
    "-2147483648 49`: UBSan negation of -2147483648; fixes/C11-array-list-int-min-index.patch negates in 64 bits).  The theorems "
    "no longer exclude INT_MIN (int_ok) or requests above 2^31 (0 <= req < 2^32)",
    "free-data callback presence is a per-operation choice in driver, model and monitor since the audit (E1: a guard `if "
    "(func_free == NULL) return;` ahead of `size = 0` in muggle_array_list_clear went unreported because the callback was always "
    "supplied): the models' remove / clear / pop / dequeue take the flag cb (theorems hold for both values; the reference "
    "releases nothing when cb = false), the slicer passes the callback as the argument p_func_free, the monitor requires that "
    "what a container lets go of is handed to the callback exactly once iff one was given and goes back to the caller otherwise",
    "observation outside the property: array list insert/append double the capacity before validating the index (a refused "
    "position on a full list still grows the storage; contents and size are unaffected)",
]

TWO31 = 1 << 31
UMAX = (1 << 32) - 1


# --------------------------------------------------------------------------
# generator

def _case(name, header, ops):
    return V.Case(name, [header] + list(ops), {})


class _Ids:
    """unique data ids whose low 3 bits are a chosen key (find compares keys)"""

    def __init__(self):
        self.k = 0

    def new(self, key=None):
        self.k += 1
        return self.k * 8 + (self.k % 3 + 1 if key is None else key)


def _al_exhaustive(L, cap):
    """every history of ins/app/rem of length L with every index in [-n-1, n]"""
    out = []

    def rec(prefix, n, depth, ids):
        if depth == L:
            tail = []
            for i in (-n - 1, -n, -1, 0, n - 1, n):
                tail.append("find %d %d" % (i, 1))
            tail += ["find 0 2", "clear B" if len(out) % 3 == 1 else "clear"]
            if len(out) % 5 == 2:
                tail.append("destroy B" if len(out) % 2 else "destroy")
            out.append(prefix + tail)
            return
        for i in range(-n - 1, n + 1):
            valid_ins = (n == 0 and i in (0, -1)) or (-n <= i < n)
            for op in ("ins", "app"):
                d = (depth + 1) * 8 + (depth % 3 + 1)
                rec(prefix + ["%s %d %d" % (op, i, d)], n + (1 if valid_ins else 0), depth + 1, ids)
            rec(prefix + ["rem %d%s" % (i, " B" if (i + depth) % 3 == 0 else "")], n - (1 if -n <= i < n else 0), depth + 1, ids)
    rec([], 0, 0, None)
    return [_case("al-ex-c%d-L%d-%d" % (cap, L, k), "al %d" % cap, ops) for k, ops in enumerate(out)]


def _st_exhaustive(L, cap, borrow=False):
    """every op sequence of length L; borrow: the alphabet has the callback-less pop / clear as well and the
    case ends with an explicit destroy (alternately with and without callback)"""
    out = []
    alpha = ("push", "pop", "pop B", "clear", "clear B") if borrow else ("push", "pop", "clear", "pushF")
    for combo in itertools.product(alpha, repeat=L):
        ops = []
        for k, o in enumerate(combo):
            d = (k + 1) * 8 + 1
            ops.append("push %d" % d if o == "push" else ("push %d F" % d if o == "pushF" else o))
        if borrow:
            ops.append("destroy B" if len(out) % 2 else "destroy")
        out.append(_case("st-ex%s-c%d-L%d-%d" % ("b" if borrow else "", cap, L, len(out)), "st %d" % cap, ops))
    return out


def _qu_exhaustive(L, cap, borrow=False):
    out = []
    alpha = ("enq", "deq", "deq B", "clear", "clear B") if borrow else ("enq", "deq", "clear", "enqF")
    for combo in itertools.product(alpha, repeat=L):
        ops = []
        for k, o in enumerate(combo):
            d = (k + 1) * 8 + 1
            ops.append("enq %d" % d if o == "enq" else ("enq %d F" % d if o == "enqF" else o))
        if borrow:
            ops.append("destroy B" if len(out) % 2 else "destroy")
        out.append(_case("qu-ex%s-c%d-L%d-%d" % ("b" if borrow else "", cap, L, len(out)), "qu %d" % cap, ops))
    return out


def _ll_exhaustive(L, cap):
    out = []

    def rec(prefix, n, depth):
        if depth == L:
            k = len(out)
            out.append(prefix + ["find N 1", "find N 2"] + (["find %d 1" % (n - 1)] if n else []) +
                       (["destroy B" if k % 2 else "destroy"] if k % 4 == 3 else ["clear B" if k % 3 == 1 else "clear"]))
            return
        d = (depth + 1) * 8 + (depth % 2 + 1)
        for p in ["N"] + list(range(n)):
            rec(prefix + ["ins %s %d" % (p, d)], n + 1, depth + 1)
            rec(prefix + ["app %s %d" % (p, d)], n + 1, depth + 1)
        for p in range(n):
            rec(prefix + ["rem %d%s" % (p, " B" if (p + depth) % 3 == 0 else "")], n - 1, depth + 1)
    rec([], 0, 0)
    return [_case("ll-ex-c%d-L%d-%d" % (cap, L, k), "ll %d" % cap, ops) for k, ops in enumerate(out)]


def _pow2_ceil(x):
    x = max(x, 1)
    p = 1
    while p < x:
        p *= 2
    return p


def _ps_scripts(rng):
    """every requested capacity 0..33, cursor presets around the 2^32 wrap"""
    out = []
    for req in range(0, 34):
        cap = _pow2_ceil(req)
        presets = ["-", "0", str(UMAX), str(UMAX - 1), str((UMAX - cap + 1) & UMAX), str(UMAX - cap // 2), str(TWO31 - 1)]
        for pi, pre in enumerate(presets):
            ops, d = [], 0
            live = []
            # fill completely, one insert too many
            for _ in range(cap + 1):
                d += 1
                ops.append("ins %d" % d)
            ops.append("get %d" % cap)
            ops.append("get %d" % UMAX)
            ops.append("rem %d" % cap)
            ops.append("rem %d" % (cap + 1))
            # remove in a permuted order, each twice
            order = rng.shuffle(list(range(cap)))
            half = order[:max(1, cap // 2)]
            for i in half:
                ops.append("rem %d" % i)
                ops.append("rem %d" % i)
                ops.append("get %d" % i)
            # refill past full again (crosses the counter wrap for the presets near UINT_MAX)
            for _ in range(len(half) + 1):
                d += 1
                ops.append("ins %d" % d)
            for i in rng.shuffle(list(range(cap))):
                ops.append("rem %d" % i)
            for _ in range(min(cap, 3) + (1 if cap <= 4 else 0)):
                d += 1
                ops.append("ins %d" % d)
            out.append(_case("ps-cap%d-pre%d" % (req, pi), "ps %d %s" % (req, pre), ops))
    return out


def _ps_exhaustive(L, req, pre):
    cap = _pow2_ceil(req)
    out = []
    alphabet = ["ins"] + ["rem %d" % i for i in range(cap + 1)]
    for combo in itertools.product(alphabet, repeat=L):
        ops, d = [], 0
        for o in combo:
            if o == "ins":
                d += 1
                ops.append("ins %d" % d)
            else:
                ops.append(o)
        out.append(_case("ps-ex-r%d-L%d-%d" % (req, L, len(out)), "ps %d %s" % (req, pre), ops))
    return out


def _far_index(rng, n):
    return rng.choice([n + 1, -n - 2, 1000, -1000, TWO31 - 1, -(TWO31 - 1), -TWO31, n + 7, -n - 9])


def _borrow(rng):
    """every third callback-taking operation is called without callback"""
    return " B" if rng.chance(1, 3) else ""


def _destroy(rng):
    return rng.choice([[], ["destroy"], ["destroy B"]])


def _rand_al(rng, name, nops):
    cap = rng.choice([1, 1, 2, 3, 4, 0, 7])
    ids = _Ids()
    ops, n = [], 0
    grow_bias = rng.choice([55, 65, 75])
    for _ in range(nops):
        r = rng.below(100)
        i = rng.range(-n - 1, n)
        if rng.chance(1, 12):
            i = _far_index(rng, n)
        valid = -n <= i < n
        fail = " F" if rng.chance(1, 25) else ""
        if r < grow_bias:
            d = 0 if rng.chance(1, 30) else ids.new(rng.range(1, 4))
            op = rng.choice(["ins", "app"])
            ops.append("%s %d %d%s" % (op, i, d, fail))
            # (the generator's size estimate may drift after a refused malloc; harmless)
            if (valid or (n == 0 and i in (0, -1))) and not fail:
                n += 1
        elif r < grow_bias + 22:
            ops.append("rem %d%s" % (i, _borrow(rng)))
            if valid:
                n -= 1
        elif r < grow_bias + 30:
            ops.append("find %d %d" % (i, rng.range(0, 5)))
        elif r < grow_bias + 32:
            ops.append("clear" + _borrow(rng))
            n = 0
        else:
            ops.append("ens %d%s" % (rng.choice([0, 1, n, n + 1, 2 * n + 3, 40, TWO31, TWO31 + 5]), fail))
    return _case(name, "al %d" % cap, ops + _destroy(rng))


def _rand_st(rng, name, nops):
    cap = rng.choice([1, 1, 2, 3, 0, 5])
    ids = _Ids()
    ops = []
    bias = rng.choice([55, 70])
    for _ in range(nops):
        r = rng.below(100)
        fail = " F" if rng.chance(1, 25) else ""
        if r < bias:
            ops.append("push %d%s" % (0 if rng.chance(1, 30) else ids.new(), fail))
        elif r < bias + 33:
            ops.append("pop" + _borrow(rng))
        elif r < bias + 36:
            ops.append("clear" + _borrow(rng))
        else:
            ops.append("ens %d%s" % (rng.choice([0, 1, 9, 33, 100, TWO31]), fail))
    return _case(name, "st %d" % cap, ops + _destroy(rng))


def _rand_ll(rng, name, nops):
    cap = rng.choice([0, 0, 1, 2, 3, 8])
    ids = _Ids()
    ops, n = [], 0
    bias = rng.choice([50, 62, 72])
    for _ in range(nops):
        r = rng.below(100)
        p = "N" if (n == 0 or rng.chance(1, 5)) else str(rng.below(n))
        fail = " F" if rng.chance(1, 25) else ""
        if r < bias:
            d = 0 if rng.chance(1, 30) else ids.new(rng.range(1, 4))
            ops.append("%s %s %d%s" % (rng.choice(["ins", "app"]), p, d, fail))
            if not fail or cap > 0:
                n += 1 if not fail else 0
        elif r < bias + 25:
            if n > 0:
                ops.append("rem %d%s" % (rng.below(n), _borrow(rng)))
                n -= 1
        elif r < bias + 33:
            ops.append("find %s %d" % (p, rng.range(0, 5)))
        elif r < bias + 35:
            ops.append("clear" + _borrow(rng))
            n = 0
        else:
            ops.append("rem %d" % (n + rng.below(2)))     # invalid position: both drivers answer badpos
    return _case(name, "ll %d" % cap, ops + _destroy(rng))


def _rand_qu(rng, name, nops):
    cap = rng.choice([0, 0, 1, 2, 3, 8])
    ids = _Ids()
    ops = []
    bias = rng.choice([52, 65])
    for _ in range(nops):
        r = rng.below(100)
        fail = " F" if rng.chance(1, 25) else ""
        if r < bias:
            ops.append("enq %d%s" % (0 if rng.chance(1, 30) else ids.new(), fail))
        elif r < bias + 40:
            ops.append("deq" + _borrow(rng))
        else:
            ops.append("clear" + _borrow(rng))
    return _case(name, "qu %d" % cap, ops + _destroy(rng))


def _rand_ps(rng, name, nops):
    req = rng.choice(list(range(0, 34)) + [64, 100, 255])
    cap = _pow2_ceil(req)
    pre = rng.choice(["-", str(UMAX), str(UMAX - rng.below(cap + 3)), str(rng.below(1 << 32)), "0"])
    ops, d, live = [], 0, []
    bias = rng.choice([50, 60, 75])
    for _ in range(nops):
        r = rng.below(100)
        if r < bias:
            d += 1
            ops.append("ins %d" % d)
        elif r < bias + 35:
            ops.append("rem %d" % rng.below(cap + 2))
        else:
            ops.append("get %d" % rng.choice([rng.below(cap + 2), UMAX, cap, TWO31]))
    return _case(name, "ps %d %s" % (req, pre), ops)


PS_MALLOC_OK = 524288      # the drivers refuse mallocs above 16 MiB: 32 + 8 bytes per (rounded) entry
PS_BIG = [1000, 4097, 65535, 65536, 70000, 131072]


def _ps_big(rng):
    """one family of capacities far above what the unit tests use: slot numbers >= 65536 are handed out
    (cursor presets put the first allocation there), the ring is crossed at the 2^32 wrap of the cursors"""
    out = []
    for req in PS_BIG:
        cap = _pow2_ceil(req)
        for pi, pre in enumerate(["-", str(UMAX), str(cap - 1), str((UMAX - 2) & UMAX), str(cap + cap // 2 + 7)]):
            ops, d = [], 0
            for _ in range(5):
                d += 1
                ops.append("ins %d" % d)
            first = 0 if pre == "-" else int(pre) % cap
            got = [(first + k) % cap for k in range(5)]
            ops += ["get %d" % got[0], "get %d" % got[4], "rem %d" % got[1], "rem %d" % got[1], "get %d" % got[1],
                    "rem %d" % cap, "rem %d" % (cap - 1 if (cap - 1) not in got else cap + 1), "get %d" % (cap - 1), "get %d" % cap,
                    "get %d" % UMAX]
            for _ in range(3):
                d += 1
                ops.append("ins %d" % d)
            ops += ["rem %d" % got[0], "rem %d" % got[4], "ins %d" % (d + 1)]
            out.append(_case("ps-big%d-pre%d" % (req, pi), "ps %d %s" % (req, pre), ops))
    return out


def _ps_limits():
    """requested capacities around 2^31 and up to UINT32_MAX: above 2^31 the next power of two does not fit an
    unsigned int and init must refuse; the valid ones here are too big for the drivers' malloc limit and must fail
    cleanly; nothing may be touched afterwards"""
    out = []
    for req in (1 << 24, (1 << 24) + 1, (1 << 30) - 1, 1 << 30, TWO31 - 1, TWO31, TWO31 + 1, TWO31 + 2, 3 << 30, UMAX - 1, UMAX):
        out.append(_case("ps-limit-%d" % req, "ps %d -" % req, ["ins 1", "get 0", "rem 0"]))
    return out


LEAVES = [("muggle/c/dsaa/array_list.c", "muggle_array_list_get_index")]


def gen_params(ctx):
    """Second tie (DESIGN.md 4.4): muggle_array_list_get_index is re-translated from the C text (clang JSON
    AST) into Gallina on every run; Properties_C11.v (gen_get_index_eq) proves it equal to the model's
    al_get_index, so an edit of the index normalisation breaks a proof obligation directly."""
    import os
    import leaftrans as L
    from props import c11_slice as S
    V.gen_config_header()
    flags = ["-std=gnu11", "-I" + V.REPO, "-I" + V.GEN_INC, "-DNDEBUG"]
    out = ["(* generated by lib/props/c11.py + lib/leaftrans.py + lib/props/c11_slice.py from the C text of "
           "muggle/c/dsaa/{array_list,stack,linked_list,queue}.c and muggle/c/memory/pointer_slot.c on this run; do not edit *)",
           "From MV Require Import Lib.Leaf C11.ModelHeap C11.GenLib.", "Local Open Scope Z_scope.", ""]
    for src, name in LEAVES:
        try:
            out.append(L.translate(os.path.join(V.REPO, src), name, flags)[0])
        except L.LeafError as e:
            out.append("(* translator error for %s: %s *)\n" % (name, e))
    # the pointer-splicing / cursor / index-range code (DESIGN.md 4.4, second tie of the slicer kind): a function that
    # cannot be translated is written as a comment, which breaks its gen_*_matches_model obligation
    try:
        out.append(S.translate_all(V.REPO, flags))
    except Exception as e:      # a broken AST must break the obligations, not the machinery
        out.append("(* slicer failure: %s: %s *)\n" % (type(e).__name__, str(e)[:300].replace("*)", "* )")))
    return "\n".join(out) + "\n"


def _corpus_files():
    import glob
    import os
    out = []
    for f in sorted(glob.glob(os.path.join(V.VERIF, "corpus", "C11", "*.case"))):
        c = V.Case.load(f)
        out.append(V.Case("file-" + c.name, c.lines, {}))
    return out


def corpus_cases(ctx):
    return _corpus_files() + [
        _case("corpus-al-boundaries", "al 1", ["ins 0 9", "ins -1 17", "ins -3 25", "ins 2 33", "app -2 41", "app 1 49", "rem -3",
                                               "rem 3", "rem 2", "find -2 1", "ins -2 57", "clear", "app -1 65", "rem -1", "rem 0"]),
        _case("corpus-al-capinvalid", "al %d" % TWO31, ["ins 0 9"]),
        # every int is an index: INT_MIN (its negation does not exist in int), INT_MIN + 1, INT_MAX are invalid positions
        _case("corpus-al-int-limits", "al 2", ["ins 0 9", "ins -1 17", "ins %d 25" % -TWO31, "app %d 33" % -TWO31, "rem %d" % -TWO31,
                                               "find %d 1" % -TWO31, "rem %d B" % (-TWO31 + 1), "ins %d 41" % (TWO31 - 1),
                                               "find %d 1" % (TWO31 - 1), "rem %d" % (TWO31 - 1), "clear B", "ins %d 49" % -TWO31]),
        # callback-less operations: nothing is released, the effect on the container is the same
        _case("corpus-al-borrowed", "al 1", ["ins 0 9", "ins 0 17", "rem 0 B", "clear B", "ins 0 25", "rem 0", "ins 0 33", "destroy B"]),
        _case("corpus-st-borrowed", "st 1", ["push 9", "push 17", "pop B", "push 25", "clear B", "push 33", "pop", "push 41", "destroy B"]),
        _case("corpus-ll-borrowed", "ll 0", ["ins N 9", "app N 17", "rem 0 B", "app N 25", "clear B", "ins N 33", "rem 0", "app N 41", "destroy B"]),
        _case("corpus-qu-borrowed", "qu 0", ["enq 9", "enq 17", "deq B", "enq 25", "clear B", "enq 33", "deq", "enq 41", "destroy B"]),
        # a request above 2^31: the next power of two (2^32) does not fit the unsigned int capacity
        _case("corpus-ps-cap-overflow", "ps %d -" % (TWO31 + 1), ["ins 1", "get 0"]),
        _case("corpus-ps-cap-65536-slot", "ps 70000 70000", ["ins 1", "ins 2", "get 70000", "rem 70000", "rem 70000", "get 70001"]),
        _case("corpus-st-grow", "st 1", ["push 9", "push 17", "push 25 F", "push 33", "pop", "pop", "pop", "pop", "push 0", "pop"]),
        _case("corpus-ll-pool", "ll 1", ["ins N 9", "app N 17", "ins 1 25", "app 0 33", "rem 0", "rem 2", "find N 1", "clear", "app N 41"]),
        _case("corpus-qu-pool", "qu 1", ["enq 9", "enq 17", "enq 25 F", "deq", "enq 33", "deq", "deq", "deq"]),
        # requested capacity 3 (rounded 4): the 4th insert indexes pp_slots[3]
        _case("corpus-ps-cap3", "ps 3 -", ["ins 1", "ins 2", "ins 3", "ins 4", "ins 5", "rem 3", "rem 3", "get 3"]),
        _case("corpus-ps-wrap", "ps 4 %d" % UMAX, ["ins 1", "ins 2", "rem 0", "ins 3", "ins 4", "ins 5", "ins 6", "rem 1", "rem 1", "ins 7"]),
    ]


def generate(rng, tier):
    quick = tier == "quick"
    cases = []
    for cap in (1, 2):
        for L in ((1, 2, 3) if quick else (1, 2, 3, 4)):
            cases += _al_exhaustive(L, cap)
    cases += _al_exhaustive(4 if quick else 5, 1)
    for cap in (1, 0):
        cases += _st_exhaustive(5 if quick else 7, cap)
        cases += _qu_exhaustive(5 if quick else 7, cap)
    for cap in (0, 1):
        for L in ((1, 2, 3) if quick else (1, 2, 3, 4)):
            cases += _ll_exhaustive(L, cap)
    cases += _ll_exhaustive(4 if quick else 5, 1)
    for cap in (1, 0):
        cases += _st_exhaustive(3 if quick else 4, cap, borrow=True)
        cases += _qu_exhaustive(3 if quick else 4, cap, borrow=True)
    cases += _ps_scripts(rng.fork("ps-scripts"))
    cases += _ps_big(rng.fork("ps-big"))
    cases += _ps_limits()
    for req, pre in ((1, "-"), (2, str(UMAX)), (3, str(UMAX - 1)), (4, str(UMAX))):
        cases += _ps_exhaustive(4 if quick else (6 if req <= 2 else 5), req, pre)
    nrand = 40 if quick else 500
    for i in range(nrand):
        r = rng.fork("rand-%d" % i)
        nops = r.range(100, 220 if quick else 400)
        cases.append(_rand_al(r, "al-rnd-%d" % i, nops))
        cases.append(_rand_st(r, "st-rnd-%d" % i, nops))
        cases.append(_rand_ll(r, "ll-rnd-%d" % i, nops))
        cases.append(_rand_qu(r, "qu-rnd-%d" % i, nops))
        cases.append(_rand_ps(r, "ps-rnd-%d" % i, nops))
    # rejected inits
    for k in ("al", "st", "ll", "qu"):
        cases.append(_case("%s-init-2^31" % k, "%s %d" % (k, TWO31), ["clear"]))
        cases.append(_case("%s-init-F" % k, "%s 3 F" % k, ["clear"]))
    cases.append(_case("ps-init-F", "ps 5 - F", ["ins 1"]))
    return cases


def search(rng, diverging, tier):
    """short random histories of every kind, used when a proof or the correspondence broke"""
    out = []
    for i in range(1500):
        r = rng.fork("s-%d" % i)
        nops = r.range(3, 24)
        f = [_rand_al, _rand_st, _rand_ll, _rand_qu, _rand_ps][i % 5]
        out.append(f(r, "search-%d" % i, nops))
    return out


# --------------------------------------------------------------------------
# independent monitor

def _plist(s):
    """'[a,b,c]' -> list of strings"""
    s = s.strip()
    if not (s.startswith("[") and s.endswith("]")):
        raise ValueError("bad list %r" % s)
    s = s[1:-1]
    return s.split(",") if s else []


def _fields(dump):
    d = {}
    for tok in dump.split():
        if "=" in tok:
            k, v = tok.split("=", 1)
            d[k] = v
    return d


def _split_line(ln):
    parts = [p.strip() for p in ln.split(" | ")]
    return parts


def _strip_fail(ws):
    if ws and ws[-1] == "F":
        return ws[:-1], True
    return ws, False


def _strip_flags(ws):
    """-> (words, malloc fails, callback supplied)"""
    if ws and ws[-1] == "F":
        return ws[:-1], True, True
    if ws and ws[-1] == "B":
        return ws[:-1], False, False
    return ws, False, True


def _x(v):
    return "X" if v is None else str(v)


class _Fail(Exception):
    pass


def _expect(cond, msg):
    if not cond:
        raise _Fail(msg)


def monitor(case, lines):
    try:
        return _monitor(case, lines)
    except _Fail as e:
        return str(e)
    except (ValueError, IndexError, KeyError) as e:
        return "unparsable implementation output (%s: %s)" % (type(e).__name__, e)


def _monitor(case, lines):
    if not case.lines:
        return None
    hw, hfail = _strip_fail(case.lines[0].split())
    kind = hw[0]
    ops = case.lines[1:]
    if not lines:
        return "no output"
    if kind in ("al", "st", "ll", "qu"):
        cap = int(hw[1])
        if kind in ("al", "st"):
            c0 = 8 if cap == 0 else cap
            ok = c0 < TWO31 and not hfail
        else:
            ok = cap < TWO31 and not (hfail and cap > 0)
        if not ok:
            _expect(lines[0] == "init fail", "init with capacity %d%s answered %r, expected failure" % (cap, " under malloc failure" if hfail else "", lines[0]))
            return None
        _expect(lines[0].startswith("init ok | "), "init answered %r, expected success" % lines[0])
        explicit = bool(ops) and ops[-1].split()[0] == "destroy"
        nlines = len(ops) + (1 if explicit else 2)
        _expect(len(lines) == nlines, "expected %d output lines, got %d" % (nlines, len(lines)))
        mon = {"al": _MonAL, "st": _MonST, "ll": _MonLL, "qu": _MonQU}[kind](cap)
        mon.check_dump(lines[0].split(" | ", 1)[1], "init")
        for k, (ol, rl) in enumerate(zip(ops, lines[1:len(ops) + 1]), 1):
            parts = _split_line(rl)
            _expect(len(parts) == 3, "op %d (%s): malformed output %r" % (k, ol, rl))
            _expect("BADPOOL" not in parts[2], "op %d (%s): free callback got a wrong pool argument" % (k, ol))
            freed = [int(x) for x in _plist(parts[2].split("=", 1)[1])]
            ws, fail, cb = _strip_flags(ol.split())
            where = "op %d (%s)" % (k, ol)
            if ws[0] == "destroy":
                _expect(k == len(ops), "%s: destroy is not the last operation" % where)
                _expect(parts[0] == "r=-" and parts[1] == "destroyed", "%s: %r" % (where, rl))
                rest = sorted(d for d in mon.remaining() if d != 0)
                mon.released(freed, rest, cb, where, exact_order=False)
                break
            mon.cb = cb
            mon.op(ws, fail, parts[0], freed, where)
            mon.check_dump(parts[1], where)
        if not explicit:
            endl = lines[-1]
            _expect(endl.startswith("end freed="), "missing end line: %r" % endl)
            _expect("BADPOOL" not in endl, "destroy: free callback got a wrong pool argument")
            freed = [int(x) for x in _plist(endl.split("=", 1)[1])]
            mon.released(freed, sorted(d for d in mon.remaining() if d != 0), True, "destroy", exact_order=False)
        _expect(not mon.owned, "data neither handed to the free callback nor given back to the caller: %s" % sorted(mon.owned)[:8])
        return None
    if kind == "ps":
        return _monitor_ps(hw, hfail, ops, lines)
    return "unknown container kind %r" % kind


class _Own:
    """ownership map: every accepted non-NULL datum is owned by the container until freed exactly once"""

    def __init__(self):
        self.owned = set()
        self.dups = False     # generator reused a datum: ownership by value is then not checked

    def take(self, d):
        if d == 0:
            return
        if d in self.owned:
            self.dups = True
        self.owned.add(d)

    cb = True      # the operation being checked was given a free-data callback

    def released(self, got, expected, cb, where, exact_order=True):
        """what the container lets go of: with a callback it is handed to it exactly once, in order; without
        one (borrowed data) the callback log must stay empty and the data go back to the caller"""
        if cb:
            return self.freed_now(got, expected, where, exact_order)
        _expect(got == [], "%s: called without free-data callback, yet a callback received %s" % (where, got))
        for d in expected:
            self.owned.discard(d)

    def freed_now(self, got, expected, where, exact_order=True):
        if exact_order:
            _expect(got == expected, "%s: free callback received %s, reference says %s" % (where, got, expected))
        else:
            _expect(sorted(got) == sorted(expected), "%s: free callback received %s, reference says %s" % (where, sorted(got), sorted(expected)))
        for d in got:
            if d == 0 or self.dups:
                continue
            _expect(d in self.owned, "%s: datum %d freed but not owned by the container (double free?)" % (where, d))
            self.owned.discard(d)


class _MonAL(_Own):
    def __init__(self, cap):
        _Own.__init__(self)
        self.L = []
        self.cap = None          # observed capacity (public struct field)
        self.cap0 = 8 if cap == 0 else cap

    def remaining(self):
        return list(self.L)

    def _pos(self, i):
        n = len(self.L)
        if -n <= i < n:
            return i if i >= 0 else n + i
        return None

    def op(self, ws, fail, res, freed, where):
        L, n = self.L, len(self.L)
        full = (n == self.cap)
        exp_freed = []
        self.may_grow = None
        if ws[0] in ("ins", "app"):
            i, d = int(ws[1]), int(ws[2])
            p = self._pos(i)
            if p is None and n == 0 and i in (0, -1):
                p = 0
            elif p is not None and ws[0] == "app":
                p += 1
            if full:
                self.may_grow = 2 * self.cap
            if full and (fail or 2 * self.cap >= TWO31):
                exp = "r=X"
                self.may_grow = None
            elif p is None:
                exp = "r=X"
            else:
                L.insert(p, d)
                self.take(d)
                exp = "r=%d" % p
        elif ws[0] == "rem":
            p = self._pos(int(ws[1]))
            if p is None:
                exp = "r=0"
            else:
                exp_freed = [L[p]]
                del L[p]
                exp = "r=1"
        elif ws[0] == "find":
            p = self._pos(int(ws[1]))
            key = int(ws[2]) % 8
            r = -1
            if p is not None:
                for j in range(p, n):
                    if L[j] % 8 == key:
                        r = j
                        break
            exp = "r=%d" % r
        elif ws[0] == "clear":
            exp_freed = [d for d in L if d != 0]
            self.L = []
            exp = "r=-"
        elif ws[0] == "ens":
            c = int(ws[1])
            if c <= self.cap:
                exp = "r=1"
            elif c >= TWO31 or fail:
                exp = "r=0"
            else:
                exp = "r=1"
                self.may_grow = c
        else:
            exp = "r=?"
        _expect(res == exp, "%s: returned %s, reference sequence says %s (size %d)" % (where, res, exp, n))
        self.released(freed, exp_freed, self.cb, where)

    def check_dump(self, dump, where):
        f = _fields(dump)
        L, n = self.L, len(self.L)
        _expect(int(f["sz"]) == n, "%s: size %s, reference %d" % (where, f["sz"], n))
        _expect(f["empty"] == ("1" if n == 0 else "0"), "%s: is_empty=%s with %d elements" % (where, f["empty"], n))
        _expect([int(x) for x in _plist(f["c"])] == L, "%s: contents %s, reference %s" % (where, f["c"], L))
        ix = _plist(f["ix"])
        exp = []
        for i in range(-n - 2, n + 2):
            exp.append(str(L[i]) if -n <= i < n else "X")
        _expect(ix == exp, "%s: index probes over [-size-2,size+1] gave %s, reference %s" % (where, ",".join(ix), ",".join(exp)))
        cap = int(f["cap"])
        _expect(cap >= n, "%s: capacity %d below size %d" % (where, cap, n))
        if self.cap is None:
            _expect(cap == self.cap0, "%s: initial capacity %d, requested %d" % (where, cap, self.cap0))
        else:
            allowed = {self.cap} | ({self.may_grow} if getattr(self, "may_grow", None) else set())
            _expect(cap in allowed, "%s: capacity went %d -> %d, allowed %s" % (where, self.cap, cap, sorted(allowed)))
        self.cap = cap


class _MonST(_Own):
    def __init__(self, cap):
        _Own.__init__(self)
        self.L = []
        self.cap = None
        self.cap0 = 8 if cap == 0 else cap
        self.may_grow = None

    def remaining(self):
        return list(self.L)

    def op(self, ws, fail, res, freed, where):
        L, n = self.L, len(self.L)
        exp_freed = []
        self.may_grow = None
        if ws[0] == "push":
            d = int(ws[1])
            if n == self.cap and (fail or 2 * self.cap >= TWO31):
                exp = "r=X"
            else:
                if n == self.cap:
                    self.may_grow = 2 * self.cap
                L.append(d)
                self.take(d)
                exp = "r=%d" % n
        elif ws[0] == "pop":
            if L:
                d = L.pop()
                exp_freed = [d] if d != 0 else []
            exp = "r=-"
        elif ws[0] == "clear":
            exp_freed = [d for d in L if d != 0]
            self.L = []
            exp = "r=-"
        elif ws[0] == "ens":
            c = int(ws[1])
            if c <= self.cap:
                exp = "r=1"
            elif c >= TWO31 or fail:
                exp = "r=0"
            else:
                exp = "r=1"
                self.may_grow = c
        else:
            exp = "r=?"
        _expect(res == exp, "%s: returned %s, reference stack says %s (size %d)" % (where, res, exp, n))
        self.released(freed, exp_freed, self.cb, where)

    def check_dump(self, dump, where):
        f = _fields(dump)
        L, n = self.L, len(self.L)
        _expect(int(f["sz"]) == n, "%s: size %s, reference %d" % (where, f["sz"], n))
        _expect(f["empty"] == ("1" if n == 0 else "0"), "%s: is_empty=%s with %d elements" % (where, f["empty"], n))
        _expect([int(x) for x in _plist(f["c"])] == L, "%s: contents %s, reference %s" % (where, f["c"], L))
        _expect(f["top"] == (str(L[-1]) if L else "X"), "%s: top %s, reference %s" % (where, f["top"], L[-1] if L else "X"))
        cap = int(f["cap"])
        _expect(cap >= n, "%s: capacity %d below size %d" % (where, cap, n))
        if self.cap is None:
            _expect(cap == self.cap0, "%s: initial capacity %d, requested %d" % (where, cap, self.cap0))
        else:
            allowed = {self.cap} | ({self.may_grow} if self.may_grow else set())
            _expect(cap in allowed, "%s: capacity went %d -> %d, allowed %s" % (where, self.cap, cap, sorted(allowed)))
        self.cap = cap


class _MonLL(_Own):
    """reference: Python list of (node id, data); node ids are the driver's creation counter"""

    def __init__(self, cap):
        _Own.__init__(self)
        self.L = []
        self.next_id = 1
        self.pool = cap > 0

    def remaining(self):
        return [d for _, d in self.L]

    def _alloc(self, fail, res, where):
        """-> True when the node was created.  Under malloc failure a pooled container may still
        succeed (free block in the pool); without a pool it must refuse."""
        if fail and (not self.pool or res == "r=X"):
            _expect(res == "r=X", "%s: returned %s although malloc failed" % (where, res))
            return False
        _expect(res == "r=%d" % self.next_id, "%s: returned %s, expected new node %d" % (where, res, self.next_id))
        return True

    def op(self, ws, fail, res, freed, where):
        L, n = self.L, len(self.L)
        exp_freed = []
        if ws[0] in ("ins", "app", "rem", "find") and ws[1] != "N" and not (0 <= int(ws[1]) < n):
            _expect(res == "badpos", "%s: driver did not refuse an invalid node position" % where)
            self.freed_now(freed, [], where)
            return
        if ws[0] in ("ins", "app"):
            d = int(ws[2])
            if ws[1] == "N":
                p = 0 if ws[0] == "ins" else n
            else:
                p = int(ws[1]) + (1 if ws[0] == "app" else 0)
            if self._alloc(fail, res, where):
                L.insert(p, (self.next_id, d))
                self.next_id += 1
                self.take(d)
        elif ws[0] == "rem":
            _expect(ws[1] != "N" or res == "badpos", "%s: remove of NULL" % where)
            if ws[1] == "N":
                return
            p = int(ws[1])
            exp = "r=%s" % (L[p + 1][0] if p + 1 < n else "X")
            _expect(res == exp, "%s: returned %s, reference next node %s" % (where, res, exp))
            if L[p][1] != 0:
                exp_freed = [L[p][1]]
            del L[p]
        elif ws[0] == "find":
            p = 0 if ws[1] == "N" else int(ws[1])
            key = int(ws[2]) % 8
            r = "X"
            for j in range(p, n):
                if L[j][1] % 8 == key:
                    r = str(L[j][0])
                    break
            _expect(res == "r=" + r, "%s: returned %s, reference %s" % (where, res, r))
        elif ws[0] == "clear":
            exp_freed = [d for _, d in L if d != 0]
            self.L = []
            _expect(res == "r=-", "%s: %s" % (where, res))
        self.released(freed, exp_freed, self.cb, where)

    def check_dump(self, dump, where):
        f = _fields(dump)
        L, n = self.L, len(self.L)
        _expect(int(f["sz"]) == n, "%s: size %s, reference %d" % (where, f["sz"], n))
        _expect(f["empty"] == ("1" if n == 0 else "0"), "%s: is_empty=%s with %d elements" % (where, f["empty"], n))
        exp = ["%d:%d" % x for x in L]
        _expect(_plist(f["fw"]) == exp, "%s: forward walk %s, reference %s" % (where, f["fw"], ",".join(exp)))
        _expect(f["bw"] == "ok", "%s: backward walk / prev-next links inconsistent with the forward walk" % where)
        if "first" in f:
            _expect(f["first"] == (str(L[0][0]) if L else "X"), "%s: first=%s" % (where, f["first"]))
            _expect(f["last"] == (str(L[-1][0]) if L else "X"), "%s: last=%s" % (where, f["last"]))
        if "front" in f:
            _expect(f["front"] == ("%d:%d" % L[0] if L else "X"), "%s: front=%s, reference %s" % (where, f["front"], L[0] if L else "X"))


class _MonQU(_MonLL):
    def op(self, ws, fail, res, freed, where):
        L = self.L
        exp_freed = []
        if ws[0] == "enq":
            d = int(ws[1])
            if self._alloc(fail, res, where):
                L.append((self.next_id, d))
                self.next_id += 1
                self.take(d)
        elif ws[0] == "deq":
            _expect(res == "r=-", "%s: %s" % (where, res))
            if L:
                if L[0][1] != 0:
                    exp_freed = [L[0][1]]
                del L[0]
        elif ws[0] == "clear":
            exp_freed = [d for _, d in L if d != 0]
            self.L = []
            _expect(res == "r=-", "%s: %s" % (where, res))
        self.released(freed, exp_freed, self.cb, where)


def _monitor_ps(hw, hfail, ops, lines):
    req = int(hw[1])
    if hfail or req > TWO31 or req > PS_MALLOC_OK:
        why = "under malloc failure" if hfail else ("for a request above 2^31 (its power of two does not fit an unsigned int)"
                                                    if req > TWO31 else "with more than the drivers' malloc limit")
        _expect(lines[0] == "init fail", "init %s answered %r, expected refusal" % (why, lines[0][:60]))
        _expect(all(ln == "nocontainer" for ln in lines[1:]), "operations after a refused init: %r" % lines[1:3])
        return None
    _expect(lines[0].startswith("init ok | "), "init answered %r, expected success" % lines[0])
    _expect(len(lines) == len(ops) + 1, "expected %d output lines, got %d" % (len(ops) + 1, len(lines)))
    live = {}          # idx -> data ; dict order = insertion order
    want = max(req, 1)
    state = {"cap": None}

    def check_dump(dump, where):
        f = _fields(dump)
        cap = int(f["cap"])
        if state["cap"] is None:
            _expect(cap >= want and cap & (cap - 1) == 0 and cap < 2 * want,
                    "%s: capacity %d for requested %d is not the next power of two" % (where, cap, req))
            state["cap"] = cap
        _expect(cap == state["cap"], "%s: capacity changed to %d" % (where, cap))
        exp = ["%d:%d" % kv for kv in live.items()]
        _expect(_plist(f["it"]) == exp, "%s: iteration gave %s, insertion order of live entries is %s" % (where, f["it"], ",".join(exp)))
        _expect(f["bw"] == "ok", "%s: backward walk / prev-next links inconsistent" % where)
        g = _plist(f["get"])
        if cap <= 4096:
            eg = [str(live[i]) if i in live else "X" for i in range(cap + 2)]
        else:       # big slot: probes 0..15, every live index, capacity-2..capacity+1, printed as i=value
            probes = list(range(16)) + list(live.keys()) + [cap - 2, cap - 1, cap, cap + 1]
            eg = ["%d=%s" % (i, live[i] if i in live else "X") for i in probes]
        _expect(g == eg, "%s: get probes gave %s, reference %s" % (where, ",".join(g[:40]), ",".join(eg[:40])))

    check_dump(lines[0].split(" | ", 1)[1], "init")
    for k, (ol, rl) in enumerate(zip(ops, lines[1:]), 1):
        parts = _split_line(rl)
        where = "op %d (%s)" % (k, ol)
        _expect(len(parts) == 2, "%s: malformed output %r" % (where, rl))
        res = parts[0]
        ws = ol.split()
        cap = state["cap"]
        if ws[0] == "ins":
            d = int(ws[1])
            if len(live) >= cap:
                _expect(res == "r=full", "%s: slot is full (%d live) but insert answered %s" % (where, len(live), res))
            else:
                _expect(res.startswith("r=ok:"), "%s: insert refused with %d of %d in use (%s)" % (where, len(live), cap, res))
                idx = int(res[5:])
                _expect(0 <= idx < cap, "%s: index %d outside 0..%d" % (where, idx, cap - 1))
                _expect(idx not in live, "%s: index %d handed out while still live" % (where, idx))
                live[idx] = d
        elif ws[0] == "rem":
            i = int(ws[1]) & UMAX
            if i >= cap:
                _expect(res == "r=range", "%s: %s, expected range error" % (where, res))
            elif i in live:
                _expect(res == "r=ok", "%s: removal of live index answered %s" % (where, res))
                del live[i]
            else:
                _expect(res == "r=dup", "%s: removal of a free index answered %s, expected refusal" % (where, res))
        elif ws[0] == "get":
            i = int(ws[1]) & UMAX
            exp = "r=%s" % (live[i] if i in live else "X")
            _expect(res == exp, "%s: get answered %s, reference %s" % (where, res, exp))
        check_dump(parts[1], where)
    return None


# --------------------------------------------------------------------------
# evidence helpers

def nontrivial_key(case, lines):
    txt = "\n".join(lines)
    acc = ("r=ok" in txt) or any(ln.startswith("r=") and not ln.startswith(("r=X", "r=0", "r=-1", "r=full", "r=dup", "r=range", "r=- "))
                                 for ln in lines)
    rej = any(ln.startswith(("r=X", "r=0 ", "r=full", "r=dup", "r=range", "badpos")) for ln in lines) or ",X" in txt or "[X" in txt
    if acc and rej:
        return "\n".join(case.lines)
    return None


def tally(dist, case, lines):
    if not case.lines:
        return
    kind = case.lines[0].split()[0]
    dist["kind=" + kind] = dist.get("kind=" + kind, 0) + 1
    dist["ops"] = dist.get("ops", 0) + len(case.lines) - 1
    if len(lines) < len(case.lines) and not (lines and lines[0] == "init fail"):
        dist["incomplete_output(crash/sanitizer)"] = dist.get("incomplete_output(crash/sanitizer)", 0) + 1
    rej = sum(1 for ln in lines if ln.startswith(("r=X", "r=0 ", "r=full", "r=dup", "r=range")))
    dist["refused_ops"] = dist.get("refused_ops", 0) + rej
    dist["malloc_failures_injected"] = dist.get("malloc_failures_injected", 0) + sum(1 for ln in case.lines if ln.endswith(" F"))
    dist["ops_without_callback"] = dist.get("ops_without_callback", 0) + sum(1 for ln in case.lines if ln.endswith(" B"))
    dist["explicit_destroy"] = dist.get("explicit_destroy", 0) + sum(1 for ln in case.lines if ln.startswith("destroy"))
    if kind in ("al", "st") and len(lines) > 1:
        caps = set()
        mx = 0
        for ln in lines:
            f = _fields(ln)
            if "cap" in f and "sz" in f:
                try:
                    caps.add(int(f["cap"]))
                    mx = max(mx, int(f["sz"]))
                except ValueError:
                    pass
        g = max(0, len(caps) - 1)
        key = "%s_growths=%s" % (kind, g if g < 4 else "4+")
        dist[key] = dist.get(key, 0) + 1
        b = "%s_maxsize=%s" % (kind, "0-3" if mx < 4 else ("4-15" if mx < 16 else ("16-63" if mx < 64 else "64+")))
        dist[b] = dist.get(b, 0) + 1
    if kind == "ps":
        w = case.lines[0].split()
        rq = int(w[1])
        key = "ps_requested=%s" % (w[1] if rq <= 33 else ("34-255" if rq <= 255 else ("256-131072" if rq <= 131072 else
                                                                                     ("2^24..2^31" if rq <= TWO31 else ">2^31"))))
        dist[key] = dist.get(key, 0) + 1
        if len(w) > 2 and w[2] not in ("-", "0", "F"):
            dist["ps_preset_cursors"] = dist.get("ps_preset_cursors", 0) + 1


MANIFEST = {
    "level_text": ("Unbounded Coq theorems over executable models that transcribe the C code: array list and stack (nodes/size/"
                   "capacity, int/uint64 index normalisation, shift loops, doubling growth with malloc oracle) refine the "
                   "reference sequence for every op, every index and every history, rejected ops have no effect; linked list "
                   "and queue models refine the reference sequence with unique node ids; pointer slot: inductive invariant "
                   "(ring segment [alloc_index, alloc_index+free) lists exactly the free slots, counters mod 2^32) for every "
                   "requested capacity and cursor preset, giving unique live indices, get-until-removed, refusal when full, "
                   "refusal of double removal, iteration in insertion order and in-bounds array accesses; heap-level models "
                   "(explicit prev/next maps, sentinels, the C pointer assignments in order) of linked list, queue and the "
                   "pointer-slot live list refine the sequence models (well-formed acyclic chain, forward walk = reverse of "
                   "backward walk = abstract sequence); muggle_array_list_get_index (leaf translator) and the pointer-splicing, "
                   "cursor, growth and index-range code of insert / append / remove / enqueue / dequeue / push / pop / "
                   "ensure_capacity / pointer-slot insert and remove (slicer, 14 functions) are re-translated from the C text on "
                   "every run and proved equal to the models.  Models tied to the "
                   "C code by a differential run (extracted OCaml model vs. ASan/UBSan build of the working tree, whole-"
                   "container dump after every op) plus an independent Python list/dict monitor with an ownership map."),
    "design_ref": "DESIGN.md section 6 / C11, Appendix A.3",
    "level_note": ("Trusted: Coq kernel, extraction (ExtrOcamlBasic), the differential harness, the leaf translator and the C11 slicer.  Pointer "
                   "splicing of linked list / queue / pointer-slot live list is modelled at heap level (prev/next maps, assignment "
                   "by assignment) and proved to refine the sequence models; malloc is an oracle."),
    "technique": "Coq refinement proofs (induction over op lists, ring invariant) + extracted-model differential run under ASan + independent monitor",
}
