"""C17 — log rotation never loses, splits or misfiles a line: plugin for bin/check."""
import calendar
import datetime
import os
import re
import shutil
import vcommon as V

ID = "C17"
COQ_DIRS = ["C17"]
MODEL_BASE = "c17_model"
OCAML_DRIVER = "ocaml/c17_driver.ml"
C_DRIVER = "harness/drivers/c17_driver.c"
# os.c reports through the log module, which pulls in most of the library: compile everything
REPO_SOURCES = V.all_repo_sources()
LINK_FLAGS = ["-Wl,--wrap=time"]
HEADER_LINES = 1
CASE_TIMEOUT = 10.0
SHRINK_BUDGET = 160

SCRATCH = os.path.join(V.BUILD, "C17", "scratch")
SIMPLE_PREFIX = "INFO|c.c:1 - "
MAXLINE = 4095          # formatted lines stay below MUGGLE_LOG_MSG_MAX_LEN (longer ones are property C16's subject)

RULE = ("size rotation: seeded random histories of writes / restarts over max_bytes 1..4096, backup_count 0..5, both "
        "formatters, line lengths drawn at the case-split boundary of the current offset (remaining-1, remaining, "
        "remaining+1, max_bytes-1/+0/+1, minimal, 4095), contiguous pre-existing backups and live file (below and above "
        "max_bytes) and restarts (same or changed max_bytes) at random points; time rotation: timelines that start "
        "shortly before a second/minute/hour/day/month/year end (leap day included) in the configured zone mode and step "
        "across it by 0/1/unit-1/unit/unit+1/mod*unit, units s/m/h/d, rotate_mod 1..30, UTC and fixed-offset zones "
        "(whole, half and quarter hours, +14h, -12h), stamped and unstamped messages (time() wrapped), init clock equal "
        "to / before the first message, restarts, a few timelines with the clock stepping back (model comparison only, "
        "outside the property); calendar lines compare gmtime_r/localtime_r with the model.  "
        "Non-trivial = at least two files hold lines at the end; distinct = distinct script text")
TRUSTED_BASE = [
    "modelled, not verified: the OS file system (rename replaces / fails on a missing source, remove, fopen \"ab+\" creates, ftell = bytes in file), success of every file operation, fwrite writing the whole buffer",
    "modelled, not verified: gmtime_r / localtime_r = proleptic Gregorian calendar of the model (civil_from_days); compared on every run by the civil/lcivil lines and through every file name; DST is not modelled (fixed-offset zones only)",
    "the formatter is abstracted to 'a message yields m_len bytes ending in a newline' (library default formatter and a raw formatter are both driven); lines of 4096 bytes and more are excluded here (C16)",
]
ASSUMPTIONS = [
    "size rotation: backup_count is the same across the restarts of one history (a restart with another backup_count starts a new history whose pre-existing files are the current ones); pre-existing files are made of whole lines.  The theorems allow any set of pre-existing files (a missing <path>.i counts as an empty segment); the dump-only monitor additionally needs them to be <path>.1..<path>.j without gaps, j <= max(backup_count,1), which is what the generator produces",
    "time rotation: within one handler lifetime line times (own timestamp, or the clock for messages without one) are non-decreasing and not before the clock at init (well_timed); rotate_mod >= 1 (0 divides by zero in the C code); unit in s/m/h/d",
    "message ids are distinct (the 'no duplicates' clause is about distinct lines)",
]
EVIDENCE_NOTES = [
    "model and theorems are for the REPAIRED time-rotating handler (fixes/C17-time-rot-detect-before-write.patch, fixes/C17-time-rot-init-zone.patch); on the unpatched tree the monitor reports both defects (corpus/C17/first-line-of-period.case, corpus/C17/local-init-name.case); the unrepaired behaviour is recorded as Examples unrepaired_write_misfiles / unrepaired_init_wrong_zone in coq/C17/ProofsTrot.v",
    "the size-rotating handler needed no repair",
    "proved (unbounded: every max_bytes, backup_count, pre-existing file set, history): rot_concat_is_suffix, rot_discards_only_beyond_backups (refinement of the segment specification sp_*: <path>.i = i-th newest closed segment, lost = exactly the older segments), rot_backup_count_zero; (every unit, rotate_mod, zone mode/offset, well-timed history) trot_line_in_own_period, trot_every_line_stored, trot_name_injective_per_period.  Nothing is left _partial with respect to the model",
    "not proved, only compared on every run: the model's calendar (civil_from_days) against gmtime_r/localtime_r; the rendering of a file name's numbers as %d%02d%02dT%02d%02d%02d (done by the OCaml driver; fixed-width fields, hence injective for in-range values); agreement of the hand-written model with the C text",
    "mutations that change WHEN a rotation happens without breaking the property as stated (rotation test > for >=, offset not reset, initial rotation dropped, rotate_mod ignored) are reported through the correspondence (VIOLATION ... no-failing-input-found with the first diverging case); mutations that lose, reorder or misfile lines are reported by the monitor with a failing input",
    "observations outside the property: rotate_mod = 0 is not rejected by muggle_log_file_time_rot_handler_init and divides by zero at the first detection; with backup_count = 0 a rotation deletes a file named <path>.0 if one exists; timestamps running backwards into an earlier period are appended to the current file",
]


# --------------------------------------------------------------------------
# helpers shared by generator and monitor (text conventions of the driver)

def head_of(kind, ident, ts):
    return "%d:" % ident if kind == "rot" else "%d:%d:" % (ident, ts)


def min_len(kind, fmt, ident, ts=0):
    return len(head_of(kind, ident, ts)) + 1 + (len(SIMPLE_PREFIX) if fmt == "simple" else 0)


def _cleanup_scratch():
    try:
        for d in os.listdir(SCRATCH):
            m = re.match(r"p(\d+)$", d)
            if m and not os.path.exists("/proc/%s" % m.group(1)):
                shutil.rmtree(os.path.join(SCRATCH, d), ignore_errors=True)
    except OSError:
        pass


# --------------------------------------------------------------------------
# generator: size rotation

def _pick_len(rng, mb, off, lo):
    rem = mb - off
    c = rng.choice([lo, lo, rem - 1, rem, rem + 1, mb - 1, mb, mb + 1, rng.range(lo, lo + 40),
                    rng.range(lo, max(lo, min(MAXLINE, 2 * mb))), rng.range(lo, MAXLINE), MAXLINE,
                    max(lo, rem // 2), max(lo, mb // 3)])
    return max(lo, min(MAXLINE, c))


def gen_rot(rng, name, nops, small=False):
    fmt = rng.choice(["raw", "raw", "simple"])
    bc = rng.choice([0, 1, 2, 3, 4, 5])
    mb = rng.choice([1, 2, 7, 16, 17, 40, 64, 100, 128, 500, 1000, 4095, 4096,
                     rng.range(1, 64), rng.range(1, 400), rng.range(1, 4096)])
    if small:
        mb = rng.choice([1, 5, 20, 40, 60, rng.range(1, 80)])
    K = max(bc, 1)
    lines = ["rot %s %d" % (fmt, bc)]
    nid = 1
    # pre-existing files: backups 1..j without gaps, optionally the live file
    if rng.chance(1, 2):
        j = rng.range(0, K)
        for i in range(j, 0, -1):
            items = []
            for _ in range(rng.range(1, 4)):
                ln = _pick_len(rng, mb, 0, min_len("rot", fmt, nid))
                items.append("%d:%d" % (nid, ln))
                nid += 1
            lines.append("pre %d %s" % (i, " ".join(items)))
        if rng.chance(2, 3):
            items, off = [], 0
            for _ in range(rng.range(0, 4)):
                ln = _pick_len(rng, mb, off, min_len("rot", fmt, nid))
                items.append("%d:%d" % (nid, ln))
                off += ln
                nid += 1
            lines.append(("pre - " + " ".join(items)).rstrip())
    lines.append("open %d" % mb)
    off = 0
    for _ in range(nops):
        if rng.chance(1, 12):
            if rng.chance(1, 4):
                mb = rng.choice([1, mb, max(1, mb // 2), min(4096, mb * 2), rng.range(1, 4096)])
            lines.append("restart %d" % mb)
            continue
        ln = _pick_len(rng, mb, off, min_len("rot", fmt, nid))
        lines.append("w %d %d" % (nid, ln))
        off = 0 if off + ln >= mb else off + ln
        nid += 1
    return V.Case(name, lines, {"kind": "rot"})


# --------------------------------------------------------------------------
# generator: time rotation

UNIT_SECS = {"s": 1, "m": 60, "h": 3600, "d": 86400}
ZONES = [0, 0, 8 * 3600, -5 * 3600, 19800, 20700, -34200, 14 * 3600, -12 * 3600, 3600, -3600, 45296, -1]
BOUNDARIES = [  # local civil instants that START a new second/minute/hour/day/month/year
    (2024, 1, 1, 0, 0, 0), (2023, 12, 31, 0, 0, 0), (2024, 2, 29, 0, 0, 0), (2024, 3, 1, 0, 0, 0),
    (2023, 3, 1, 0, 0, 0), (2100, 3, 1, 0, 0, 0), (2000, 3, 1, 0, 0, 0), (2024, 7, 31, 0, 0, 0),
    (2024, 8, 1, 0, 0, 0), (2024, 5, 10, 21, 0, 0), (2024, 5, 10, 12, 0, 0), (2024, 5, 10, 9, 30, 0),
    (2024, 5, 15, 0, 0, 0), (2024, 5, 30, 0, 0, 0), (2024, 5, 7, 0, 0, 0), (2024, 5, 10, 9, 59, 30),
    (2038, 1, 19, 3, 14, 8), (1970, 1, 2, 0, 0, 0), (2024, 11, 14, 23, 0, 0), (2024, 6, 1, 0, 0, 0),
]


def gen_trot(rng, name, nops):
    fmt = rng.choice(["raw", "simple"])
    unit = rng.choice(["s", "m", "h", "d"])
    mod = rng.choice([1, 1, 1, 2, 3, 5, 7, 10, 12, 15, 24, 30, rng.range(1, 30)])
    local = rng.choice([0, 1, 1])
    tz = rng.choice(ZONES + [900 * rng.range(-48, 56)])
    us = UNIT_SECS[unit]
    b = rng.choice(BOUNDARIES)
    if rng.chance(1, 4):   # random instant rounded to the unit
        b = (rng.range(1971, 2105), rng.range(1, 12), rng.range(1, 28), rng.range(0, 23), rng.range(0, 59), 0)
    bsec = calendar.timegm(b + (0, 0, 0)) - (tz if local else 0)
    t = bsec - rng.choice([0, 1, 2, us - 1, us, us + 1, 2 * us, mod * us, rng.range(0, 3 * us)])
    t = max(t, 1)
    lines = ["trot %s %s %d %d %d" % (fmt, unit, mod, local, tz)]
    # init clock: equal to the first message time, or earlier (possibly an earlier period)
    clock0 = t - rng.choice([0, 0, 0, 1, us, mod * us, rng.range(0, 2 * us)])
    lines.append("open %d" % max(clock0, 1))
    nid = 1
    backwards = rng.chance(1, 12)
    for _ in range(nops):
        r = rng.below(16)
        if r == 0:
            c = t + rng.choice([0, 0, 1, us])
            lines.append("restart %d" % c)
            t = c + rng.choice([0, 0, 1, us - 1, us])
            continue
        if r == 1:
            lines.append("%s %d" % (rng.choice(["civil", "lcivil"]), t + rng.range(-100000, 100000)))
            continue
        stamped = not rng.chance(1, 5)
        ln = rng.choice([0, 0, 0, rng.range(0, 60), rng.range(0, 400)])
        ln = min(MAXLINE, max(ln, min_len("trot", fmt, nid, t)))
        if stamped:
            lines.append("w %d %d %d %d" % (nid, ln, t, t + rng.choice([0, -5, 7, 100000])))
        else:
            lines.append("w %d %d 0 %d" % (nid, ln, t))
        nid += 1
        t += rng.choice([0, 0, 1, 1, 2, us - 1, us, us + 1, mod * us, mod * us - 1, rng.range(0, 2 * us),
                         rng.range(0, max(1, us // 4))])
        if backwards and rng.chance(1, 6):
            # clock stepping back: outside the property (the monitor abstains), still compared with the model
            t = max(1, t - rng.choice([1, us, 2 * us, mod * us]))
    return V.Case(name, lines, {"kind": "trot"})


def gen_civil(rng, name, n):
    tz = rng.choice(ZONES)
    lines = ["trot raw d 1 1 %d" % tz]
    for _ in range(n):
        s = rng.choice([rng.range(0, 4400000000), rng.range(0, 2000000000),
                        calendar.timegm(rng.choice(BOUNDARIES) + (0, 0, 0)) + rng.range(-2, 2) - tz,
                        86400 * rng.range(0, 50000) + rng.choice([-1, 0, 1])])
        lines.append("%s %d" % (rng.choice(["civil", "lcivil"]), max(0, s)))
    return V.Case(name, lines, {"kind": "trot"})


def corpus_cases(ctx):
    d = os.path.join(V.VERIF, "corpus", ID)
    out = []
    if os.path.isdir(d):
        for f in sorted(os.listdir(d)):
            if f.endswith(".case"):
                out.append(V.Case.load(os.path.join(d, f)))
    return out


def generate(rng, tier):
    _cleanup_scratch()
    cases = []
    nrot, ntrot, nciv = (500, 600, 12) if tier == "quick" else (4000, 5000, 60)
    for i in range(nrot):
        n = rng.range(1, 40) if i % 3 else rng.range(20, 120 if tier == "quick" else 400)
        cases.append(gen_rot(rng, "rot-%d" % i, n, small=(i % 4 == 0)))
    for i in range(ntrot):
        n = rng.range(1, 25) if i % 3 else rng.range(10, 80 if tier == "quick" else 250)
        cases.append(gen_trot(rng, "trot-%d" % i, n))
    for i in range(nciv):
        cases.append(gen_civil(rng, "civil-%d" % i, 200))
    return cases


def search(rng, diverging, tier):
    out = []
    for i in range(400):
        out.append(gen_rot(rng, "search-rot-%d" % i, rng.range(1, 30), small=True))
        out.append(gen_trot(rng, "search-trot-%d" % i, rng.range(1, 30)))
    return out


# --------------------------------------------------------------------------
# INDEPENDENT monitor: judges the dump of the scratch directory

def parse_dump(lines):
    """-> (op output lines, [(file name, [(nbytes, text, nonl)])]) or error text"""
    k = next((i for i, l in enumerate(lines) if l.startswith("F ")), len(lines))
    files = []
    for l in lines[k:]:
        if l.startswith("F "):
            files.append((l[2:], []))
        elif l.startswith("L ") and files:
            m = re.match(r"L (\d+) (.*)$", l)
            if not m:
                return None, "unparsable dump line %r" % l
            txt = m.group(2)
            nonl = txt.endswith(" NONL")
            if nonl:
                txt = txt[:-5]
            files[-1][1].append((int(m.group(1)), txt, nonl))
        else:
            return None, "unexpected dump line %r" % l
    return lines[:k], files


def _civil(sec):
    d = datetime.datetime(1970, 1, 1) + datetime.timedelta(seconds=sec)
    return (d.year, d.month, d.day, d.hour, d.minute, d.second)


def monitor(case, lines):
    if not case.lines:
        return None
    hw = case.lines[0].split()
    if not hw or hw[0] not in ("rot", "trot"):
        return None
    outs, files = parse_dump(lines)
    if outs is None:
        return files
    if hw[0] == "rot":
        return monitor_rot(case, hw, outs, files)
    return monitor_trot(case, hw, outs, files)


def monitor_rot(case, hw, outs, files):
    if len(hw) != 3:
        return None
    fmt, bc = hw[1], int(hw[2])
    K = max(bc, 1)
    prefix = SIMPLE_PREFIX if fmt == "simple" else ""
    pre, written, explen = {}, [], {}
    opened = False
    for ln in case.lines[1:]:
        w = ln.split()
        if not w:
            continue
        if w[0] == "pre" and not opened and len(w) >= 2:
            items = []
            for it in w[2:]:
                a, b = it.split(":")
                items.append(int(a))
                explen[int(a)] = int(b)
            pre[w[1]] = items
        elif w[0] == "open" and not opened:
            opened = True
        elif w[0] == "w" and opened and len(w) == 3:
            ident, n = int(w[1]), int(w[2])
            if n < min_len("rot", fmt, ident) or n > MAXLINE or ident in explen:
                return None            # outside the harness conventions
            written.append(ident)
            explen[ident] = n
    # precondition: pre-existing backups are .1 .. .j without gaps, j <= K
    idx = sorted(int(s) for s in pre if s != "-")
    if idx != list(range(1, len(idx) + 1)) or (idx and idx[-1] > K):
        return None
    if any(len(pre[s]) == 0 for s in pre if s != "-"):
        return None
    initial = []
    for i in sorted(idx, reverse=True):
        initial += pre[str(i)]
    initial += pre.get("-", [])
    allw = initial + written
    if len(set(allw)) != len(allw):
        return None
    # the dump
    byname = {}
    for name, ls in files:
        m = re.match(r"log\.txt(?:\.(\d+))?$", name)
        if not m:
            return "unexpected file %r in the log directory" % name
        i = int(m.group(1)) if m.group(1) else 0
        if i > K or (m.group(1) and i == 0):
            return "unexpected backup file %r (backup_count=%d)" % (name, bc)
        ids = []
        for nbytes, txt, nonl in ls:
            if nonl:
                return "file %s holds a line without its end: %r" % (name, txt[:60])
            if not txt.startswith(prefix):
                return "file %s holds a damaged line %r" % (name, txt[:60])
            m2 = re.match(r"(\d+):$", txt[len(prefix):])
            if not m2:
                return "file %s holds a damaged line %r" % (name, txt[:60])
            ident = int(m2.group(1))
            if ident not in explen:
                return "file %s holds a line that was never written: %r" % (name, txt[:60])
            if nbytes != explen[ident]:
                return "line %d in %s has %d bytes, %d were written (line split or truncated)" % (
                    ident, name, nbytes, explen[ident])
            ids.append(ident)
        byname[i] = ids
    if opened and 0 not in byname:
        return "the live file does not exist"
    bidx = sorted(i for i in byname if i > 0)
    if bidx != list(range(1, len(bidx) + 1)):
        return "backup files are not numbered 1..j without gap: %s" % bidx
    concat = []
    for i in sorted(bidx, reverse=True):
        concat += byname[i]
    concat += byname.get(0, [])
    if len(set(concat)) != len(concat):
        dup = sorted(x for x in set(concat) if concat.count(x) > 1)
        return "duplicated lines in the files: ids %s" % dup[:8]
    lost = len(allw) - len(concat)
    if lost < 0 or allw[lost:] != concat:
        return ("backups oldest..newest + live = %s is not a contiguous suffix of the lines written %s" %
                (_short(concat), _short(allw)))
    if lost > 0:
        if len(bidx) < K:
            return ("%d line(s) were discarded (ids %s) although only %d of %d backups exist" %
                    (lost, _short(allw[:lost]), len(bidx), K))
        empty = [i for i in bidx if not byname[i]]
        if empty:
            return "%d line(s) were discarded while backup(s) %s are empty" % (lost, empty)
    # return values: every accepted write reports the whole line
    k = 0
    for ln, o in zip(case.lines[1:], outs):
        w = ln.split()
        if w and w[0] == "w" and o.startswith("w ") and o != "w ignored" and len(w) == 3:
            if o != "w %s" % w[2]:
                return "write of line %s returned %r, %s bytes expected" % (w[1], o, w[2])
    return None


def _short(xs):
    return str(xs) if len(xs) <= 24 else "[%s, ... %s] (%d)" % (
        ", ".join(map(str, xs[:10])), ", ".join(map(str, xs[-10:])), len(xs))


def _period(unit, mod, f):
    """period key of civil fields (Y,M,D,h,m,s) for the configured unit / rotate_mod"""
    n = {"d": 3, "h": 4, "m": 5, "s": 6}[unit]
    return tuple(f[:n - 1]) + (f[n - 1] // mod,)


def monitor_trot(case, hw, outs, files):
    if len(hw) != 6 or hw[2] not in UNIT_SECS:
        return None
    fmt, unit, mod, local, tz = hw[1], hw[2], int(hw[3]), int(hw[4]) != 0, int(hw[5])
    if mod < 1:
        return None
    off = tz if local else 0
    prefix = SIMPLE_PREFIX if fmt == "simple" else ""
    written, explen, eff = [], {}, {}
    opened, lo = False, None
    for ln, o in zip(case.lines[1:], outs + [None] * len(case.lines)):
        w = ln.split()
        if not w:
            continue
        if w[0] in ("civil", "lcivil") and len(w) == 2:
            s = int(w[1])
            exp = "%s %d %d %d %d %d %d" % ((w[0],) + _civil(s + (tz if w[0] == "lcivil" else 0)))
            if o != exp:
                return "%s: C library says %r, calendar says %r" % (ln, o, exp)
        elif w[0] == "open" and not opened and len(w) == 2:
            opened, lo = True, int(w[1])
        elif w[0] == "restart" and opened and len(w) == 2:
            lo = int(w[1])
        elif w[0] == "w" and opened and len(w) == 5:
            ident, n, ts, clock = int(w[1]), int(w[2]), int(w[3]), int(w[4])
            e = ts if ts != 0 else clock
            if e < lo:
                return None            # time runs backwards: outside the property's histories
            lo = e
            if n < min_len("trot", fmt, ident, e) or n > MAXLINE or ident in explen:
                return None
            written.append(ident)
            explen[ident], eff[ident] = n, e
            if o is not None and o != "w %d" % n:
                return "write of line %d returned %r, %d bytes expected" % (ident, o, n)
    seen = {}
    for name, ls in files:
        m = re.match(r"log\.txt\.(\d+)(\d\d)(\d\d)(?:T(\d\d)(\d\d)?(\d\d)?)?$", name)
        if not m:
            return "unexpected file %r in the log directory" % name
        fields = [int(x) for x in m.groups() if x is not None]
        if len(fields) != {"d": 3, "h": 4, "m": 5, "s": 6}[unit]:
            return "file name %r does not have the shape of unit '%s'" % (name, unit)
        pname = _period(unit, mod, fields)
        last = -1
        for nbytes, txt, nonl in ls:
            if nonl:
                return "file %s holds a line without its end: %r" % (name, txt[:60])
            m2 = re.match(r"(\d+):(\d+):$", txt[len(prefix):]) if txt.startswith(prefix) else None
            if not m2:
                return "file %s holds a damaged line %r" % (name, txt[:60])
            ident, ts = int(m2.group(1)), int(m2.group(2))
            if ident not in explen or eff[ident] != ts:
                return "file %s holds a line that was never written: %r" % (name, txt[:60])
            if nbytes != explen[ident]:
                return "line %d in %s has %d bytes, %d were written (line split or truncated)" % (
                    ident, name, nbytes, explen[ident])
            if ident in seen:
                return "line %d is stored twice (%s and %s)" % (ident, seen[ident], name)
            seen[ident] = name
            pos = written.index(ident)
            if pos < last:
                return "file %s holds its lines out of order" % name
            last = pos
            pline = _period(unit, mod, _civil(ts + off))
            if pline != pname:
                c = _civil(ts + off)
                return ("line %d with time stamp %d (%04d-%02d-%02d %02d:%02d:%02d %s) is in file %s, whose name denotes "
                        "period %s; the line belongs to period %s (unit %s, rotate_mod %d)" % (
                            ident, ts, c[0], c[1], c[2], c[3], c[4], c[5],
                            ("local, UTC%+d s" % tz) if local else "UTC", name, pname, pline, unit, mod))
    missing = [i for i in written if i not in seen]
    if missing:
        return "lines %s were written but are in no file" % _short(missing)
    return None


# --------------------------------------------------------------------------

def nontrivial_key(case, lines):
    outs, files = parse_dump(lines)
    if outs is None:
        return None
    if sum(1 for _, ls in files if ls) >= 2:
        return "\n".join(case.lines)
    return None


def tally(dist, case, lines):
    hw = case.lines[0].split() if case.lines else ["?"]
    outs, files = parse_dump(lines)
    if outs is None:
        return
    def inc(k, n=1):
        dist[k] = dist.get(k, 0) + n
    inc("kind=%s" % hw[0])
    inc("files", len(files))
    inc("lines_in_files", sum(len(ls) for _, ls in files))
    inc("ops", len(case.lines) - 1)
    if hw[0] == "rot" and len(hw) == 3:
        inc("rot.backup_count=%s" % hw[2])
        inc("rot.restarts", sum(1 for l in case.lines if l.startswith("restart")))
        inc("rot.preexisting", sum(1 for l in case.lines if l.startswith("pre")))
        nb = sum(1 for n, _ in files if n != "log.txt")
        inc("rot.backups_at_end=%d" % nb)
        nw = sum(1 for l in case.lines if l.startswith("w "))
        if nw + sum(len(l.split()) - 2 for l in case.lines if l.startswith("pre")) > sum(len(ls) for _, ls in files):
            inc("rot.cases_with_discarded_lines")
    elif hw[0] == "trot" and len(hw) == 6:
        inc("trot.unit=%s" % hw[2])
        inc("trot.local=%s" % hw[4])
        inc("trot.mod>1" if hw[3] != "1" else "trot.mod=1")
        inc("trot.restarts", sum(1 for l in case.lines if l.startswith("restart")))
        inc("trot.calendar_lines", sum(1 for l in case.lines if "civil" in l))


MANIFEST = {
    "level_text": ("Unbounded Coq theorems over an executable model of both rotating handlers and a finite-map file "
                   "system: for every max_bytes, backup_count, set of pre-existing files and every history of writes and "
                   "restarts the backups oldest..newest followed by the live file are a contiguous suffix of all lines "
                   "(whole lines, order kept, no duplicates) and exactly the segments older than max(backup_count,1) "
                   "rotations are discarded; for the (repaired) time-rotating handler every stored line lies in the file "
                   "whose name denotes the period of its time stamp, and names of different periods differ.  Model tied to "
                   "the C code by a differential run: the real handlers write into a scratch directory with wrapped time(), "
                   "the directory dump is compared with the model's file map, plus an independent dump-only monitor; the "
                   "model's calendar is compared with gmtime_r/localtime_r."),
    "design_ref": "DESIGN.md section 6 / C17",
    "level_note": ("Trusted: Coq kernel, extraction, differential harness; file system, libc calendar and formatter are "
                   "modelled, not verified; DST not modelled; two defects of the time-rotating handler repaired by "
                   "fixes/C17-*.patch and the theorems are about the repaired code."),
    "technique": "Coq refinement proof (segment specification) + invariant proof over histories + extracted-model differential run on a real directory",
}
