"""C14 — cross-thread wake-up, hand-over and exit of the event loop: plugin for bin/check."""
import os
import re
import vcommon as V

ID = "C14"
COQ_DIRS = ["C14"]
MODEL_BASE = "c14_model"
OCAML_DRIVER = "ocaml/c14_driver.ml"
C_DRIVER = "harness/drivers/c14_driver.c"
VS_IO_WRAPS = ["poll", "select", "epoll_wait", "read", "write"]
HEADER_LINES = 2
SHRINK = False          # a case is (scenario, schedule); schedules are not line-shrinkable
CASE_TIMEOUT = 10.0
MODEL_CASE_TIMEOUT = 10.0
RULE = ("loop configuration (socket handle attached or bare loop; every optional callback - wake, add_ctx, release, "
        "read/msg, close, clear, exit, timer - installed or NULL: all, none, each NULL alone, each installed alone, random "
        "subsets; bare loops with 0..2 registered contexts) x "
        "scenarios = back-end (select/poll/epoll) x loop thread (the creating thread or another one) x 1..3 further "
        "threads with scripts over {wake-up, hand-over of a socketpair-backed context, exit} (at least one exit; "
        "exit placed before / around / after the start of run(); poll back-end also with 1..2 context slots so that "
        "registration fails) x seeded random schedules (context-switch density 20/50/80 %) and hand-written window "
        "schedules, run on the real loop + real eventfd + real back-end under the deterministic scheduler "
        "(poll/select/epoll_wait re-polled with timeout 0); every trace replayed on the extracted model; "
        "non-trivial = another thread's operation falls between a poll return and the loop's next poll/exit test, "
        "or an exit is issued before run() has recorded its thread id, or a registration fails, or a hand-over "
        "arrives after the exit callback, or a registered context becomes ready (script ops s = muggle_socket_ctx_shutdown, "
        "d = peer data, c = peer close), or an operation is issued from inside the user's wake / timer callback "
        "(cbw / cbt scripts), or the timer callback runs (tmo 1 = timer interval 0); families: io-* (contexts ready "
        "while wake-ups, hand-overs and the exit race with the back-end's passes; shutdown and exit in the same "
        "iteration) and del-* (the owner deletes the loop right after run() returns while the exiting thread is still "
        "inside muggle_evloop_exit); distinct = distinct trace text")
TRUSTED_BASE = [
    "modelled, not verified: kernel semantics of eventfd (counter; read resets, write adds), select/poll (level-"
    "triggered) and epoll with EPOLLET (ready-list entry set by EPOLL_CTL_ADD-when-readable and by every write, "
    "dropped when reported) - the REAL kernel calls are executed (timeout 0) and every result is compared with the "
    "model's prediction by trace acceptance; pthread mutex = exclusive ownership as interposed by harness/vsched",
    "vsched extension harness/vsched/vs_io.c: blocking poll/select/epoll_wait replaced by re-polling (one "
    "scheduling point per attempt; a sleep nothing ends = LIVELOCK event); eventfd read/write are scheduling points",
    "plain shared fields to_exit and tid are modelled sequentially consistent at the granularity of the scheduler "
    "(between two scheduling points a thread's plain code is atomic); in C they are unsynchronised plain ints "
    "(formally a data race) - flagged, not verified",
    "exit status constants re-extracted from event_loop.h into coq/gen/Params_C14.v on every run",
]
ASSUMPTIONS = [
    "loop configurations: the callback-presence flags and bare/handle mode are part of the model's configuration and every "
    "theorem quantifies over them; on a bare loop (no handle) the script operation 'hand-over' is executed as a plain "
    "wake-up by both drivers; with no wake callback installed on a bare loop 'the wake callback runs' is vacuous and the "
    "clear-up of the signal counts as the service point; read/close/timer callbacks are never invoked in the scenarios "
    "(silent peers, no timeout) whatever their flag",
    "muggle_evloop_add_ctx only from the loop thread; callbacks do not block (DESIGN.md Appendix B)",
    "the evloop object outlives every muggle_evloop_exit / wakeup / hand-over call (callers join before delete)",
    "contexts handed over after the exit callback has drained the queue stay queued (owner's responsibility): "
    "handover_once covers every context enqueued before the exit callback takes the handle's mutex",
    "peers of handed-over sockets are silent unless a script operation d / c makes them send one byte / close; a context "
    "becomes ready only through s / d / c; delivery of the bytes themselves belongs to C13/C15",
    "del 1 (loop deleted by its owner as soon as run() has returned) is generated only for the usage under which that is "
    "safe in the code as written: the exit request is the only operation that writes the signal, issued by a thread other "
    "than the creating thread unless the creating thread runs the loop; with any other wake-up / hand-over pending the "
    "loop may return - and be deleted - before the requester's own wake-up write (inherent to the WAKE/EXIT two-step; the "
    "general rule stays: the loop object outlives every call on it)",
    "API hazard (observed by the C15 driver, consistent with the model: callbacks run inside on_wake's locked segment): "
    "calling muggle_socket_evloop_add_ctx from inside cb_add_ctx (or any callback invoked by on_wake's queue loop) "
    "self-deadlocks, because on_wake holds handle->mtx around the callback; callbacks must not hand contexts over - "
    "usage restriction, not patched",
    "fairness theorems assume a well-formed configuration (the loop thread is one of the threads: c_loop < c_n) and both "
    "repairs applied",
]
EVIDENCE_NOTES = [
    "round 5: seeded change C14-9 (on_clear skips contexts flagged CLOSED) was missed because no context was ever flagged: "
    "the model, both drivers and the generator now have contexts that are shut down / receive data / lose their peer from "
    "script operations of any thread and from the user's wake and timer callbacks (which may also wake, hand over and ask "
    "for the exit from inside the loop), the back-ends' dispatch of ready contexts (select walk, poll slots with the n "
    "counter and the swap removal, epoll batch with the signal at any position), timer interval 0 and deletion of the loop "
    "right after run() returns; theorems clear_pass_releases_flagged_contexts and "
    "shutdown_then_exit_before_dispatch_is_cleared; all invariants re-proved over the extended step function",
    "round 7: liveness restored in part over the extended model: exit_returns_solo (C14/ProofsSolo.v) - from any reachable "
    "state with an exit pending, the loop thread ranked and the handle's mutex free or its own, the loop thread's own steps "
    "alone reach the return of run() and the end of the thread within rank steps (with exit_returns_variant: a foreign step "
    "raises the rank by at most 2, so finitely many foreign steps delay the return by a bounded number of loop steps); "
    "witness exit_returns_solo_witness (rank 79, 14 steps)",
    "exit_returns_bounded_interference (C14/ProofsSolo2.v): along ANY continuation schedule from a reachable state with an exit "
    "pending and the loop thread ranked, rank + (enabled loop steps taken) <= initial rank + 2 * (enabled foreign steps), so "
    "run() takes at most rank + 2m of its own steps against m foreign steps; hypothesis keeps_ranked (computed along the "
    "schedule; sufficient: no foreign step rewrites to_exit, lemma foreign_keeps_ranked) - forced by the proof: a SECOND "
    "muggle_evloop_exit from a foreign thread overwrites a pending EXIT with WAKE (the C code does the same: "
    "to_exit = MUGGLE_EVLOOP_STATUS_WAKE unconditionally before the wake-up write), which un-ranks the pcs whose rank clause "
    "reads to_exit = EXIT; the wake-up write that follows re-promotes it, so this is a gap of the variant, not a defect "
    "(traces of double-exit scenarios are accepted by the model and the monitor); witness with 2 foreign and 12 loop steps",
    "NOT re-proved over the extended model (left unfinished in round 5): the two liveness theorems under fair schedules "
    "(exit_returns_fair, wake_served_fair) that earlier rounds had; the safety invariants, the accounting theorems and the "
    "variant (rank strictly decreasing on the way out, incl. callback scripts, close dispatches, timer callback) hold in "
    "full; a theorem 'no library call on the loop after its deletion' is mechanised only as a characterisation "
    "(round 7, C14/ProofsUaf.v): uaf_only_by_step_after_delete - g_uaf never decreases and grows by one only at a step taken "
    "while the loop is already freed - no_call_after_delete_without_deletion (c_del = false: lfreed = false and g_uaf = 0 always) and the hazard witness loop_deleted_while_exit_in_flight_witness (requester between its "
    "store to to_exit and its wake-up write when another requester's exit lets run() return and the owner deletes the loop: "
    "outside the documented usage 'the loop object outlives every call on it'); the model counts such calls (g_uaf) and the "
    "monitor checks the traces of the del-* family",
    "round 3: seeded change C14-5 (poll back-end: WAKE->EXIT promotion skipped when cb_wake is NULL) was missed because "
    "every scenario installed every callback; the configuration space now covers each optional callback NULL/installed "
    "and bare loops (corpus matrix cbm-* of 336 cases + generator), the model's promotion step is independent of the "
    "flags (exit_test_promotes_without_callbacks) and trace acceptance rejects a trace that polls again where the model "
    "leaves the loop, whether or not a callback line was emitted",
    "exit_returns is mechanised in full: safety (invariant 'EXIT/WAKE pending => a writer is about to signal, or the loop "
    "is past a poll return, or the signal is readable'; poll never finds nothing with an exit pending; the exit test "
    "leaves; never stuck except on a mutex whose holder is enabled; local variant) and liveness exit_returns_fair: under "
    "every fair schedule (rounds scheduling each thread at least once) more than G rounds after an exit request run() "
    "has returned after the clear and exit callbacks; wake_served_fair is the analogous liveness statement for "
    "wake_not_lost.  G is an explicit measure that no step increases and every enabled step except the loop's re-poll "
    "on an unready signal strictly decreases (C14/ProofsFair.v); scripts are finite lists",
    "to_exit / tid are plain ints accessed by several threads (C11 data race); modelled SC and flagged",
    "API hazard: muggle_socket_evloop_add_ctx called from inside cb_add_ctx self-deadlocks (on_wake holds handle->mtx "
    "around the callback); listed as a usage restriction in the assumptions, not patched",
    "a wake-up request that completes after the loop's last signal clear-up but before its exit test is not "
    "followed by a wake callback (the loop is leaving): wake_not_lost is stated for a loop that is still in its body",
    "ref-count of a handed-over context is modelled as the single CAS 1 -> 0 of its release (justified by handover_once: "
    "every context is released at most once); retains by worker threads belong to C15",
    "two defects confirmed on the unchanged tree and repaired: fixes/C14-exit-before-run.patch (witness theorem "
    "exit_returns_refuted_on_unrepaired_code, corpus-exit-before-run-*) and fixes/C14-add-ctx-failure.patch "
    "(handover_once_refuted_on_unrepaired_code, corpus-add-ctx-failure); the model follows the repaired code",
]


def build_impl(ctx):
    return V.build_vsched_driver(ID, C_DRIVER, V.all_repo_sources(), extra_c=["harness/vsched/vs_io.c"],
                                 extra_wraps=VS_IO_WRAPS)


def gen_params(ctx):
    """exit status constants of event_loop.h as the code defines them."""
    V.gen_config_header()
    d = os.path.join(V.BUILD, ID)
    os.makedirs(d, exist_ok=True)
    src = os.path.join(d, "params.c")
    open(src, "w").write('#include <stdio.h>\n#include "muggle/c/event/event_loop.h"\n'
                         'int main(void){printf("%d %d\\n", MUGGLE_EV_LOOP_EXIT_STATUS_EXIT, MUGGLE_EV_LOOP_EXIT_STATUS_WAKE);return 0;}\n')
    exe = os.path.join(d, "params")
    rc, out, err = V.sh([V.CC, "-std=gnu11", "-w", "-I" + V.REPO, "-I" + V.GEN_INC, src, "-o", exe], timeout=120)
    vals = None
    if rc == 0:
        rc, out, err = V.sh([exe], timeout=10)
        w = out.split()
        if rc == 0 and len(w) == 2 and all(x.lstrip("-").isdigit() for x in w):
            vals = (int(w[0]), int(w[1]))
    note = ""
    if vals is None or vals[0] < 0 or vals[1] < 0:
        note = "(* constants could not be extracted: %s *)\n" % (err.strip()[-200:].replace("*)", "* )"))
        vals = (0, 0)     # an unextractable constant is a failed obligation, not a default
    return ("(* generated by lib/props/c14.py from muggle/c/event/event_loop.h on this run; do not edit *)\n" + note +
            "Definition code_st_exit : nat := %d.\nDefinition code_st_wake : nat := %d.\n" % vals)


# ---------------------------------------------------------------------------
# cases

HANDLE_FLAGS = "warcmt"    # cb_wake cb_add_ctx cb_release cb_close cb_msg cb_timer of the socket handle
BARE_FLAGS = "wrclxt"      # cb_wake cb_read cb_close cb_clear cb_exit cb_timer of a bare loop


def _cb_variants(all_flags):
    """all installed, none installed, each one NULL alone, each one installed alone"""
    v = [all_flags, ""]
    v += [all_flags.replace(ch, "") for ch in all_flags]
    v += [ch for ch in all_flags]
    return v


def _mk(name, be, loopthr, hints, scripts, sched, budget=None, cb=None, cbw=None, cbt=None, tmo=False, dele=False):
    """cb = None (handle attached, every callback installed: the default of both drivers) or
    (mode, flags, nctx); cbw / cbt = scripts of the successive invocations of the user's wake / timer
    callback; tmo = timer interval 0; dele = the owner deletes the loop right after run() returns"""
    lines = ["loop %s %d %d" % (be, loopthr, hints)] + ["thr %s" % (s or "-") for s in scripts]
    if cb:
        mode, flags, nctx = cb
        if mode == "bare":
            tr = str.maketrans("hsdc", "wwww")
            lines = ["thr " + ln[4:].translate(tr) if ln.startswith("thr ") else ln for ln in lines]
            cbw = cbt = None
        lines.append("cb %s %s %d" % (mode, flags or "-", nctx))
    if cbw:
        lines.append("cbw " + " ".join(x or "-" for x in cbw))
    if cbt:
        lines.append("cbt " + " ".join(x or "-" for x in cbt))
    if tmo:
        lines.append("tmo 1")
    if dele:
        lines.append("del 1")
    if budget:
        lines.append("budget %d" % budget)
    lines.append("sched " + sched)
    return V.Case(name, lines, {"be": be})


def corpus_cases(ctx):
    """regression cases: corpus/C14/*.case (written from the list below; files win when present)."""
    d = os.path.join(V.VERIF, "corpus", ID)
    if os.path.isdir(d):
        files = sorted(f for f in os.listdir(d) if f.endswith(".case"))
        if files:
            return [V.Case.load(os.path.join(d, f)) for f in files] + _callback_matrix()
    return _builtin_corpus() + _callback_matrix()


def _callback_matrix():
    """every optional callback NULL alone / installed alone / all NULL / all installed, handle attached
    or bare loop, x three back-ends x exit from the loop thread before run() / from the creating
    thread (racing the start of run()) / from another thread while the loop runs"""
    cs = []
    k = 0
    for be in ("select", "poll", "epoll"):
        for mode, allf in (("handle", HANDLE_FLAGS), ("bare", BARE_FLAGS)):
            for fl in _cb_variants(allf):
                tag = "%s-%s-%s" % (be, mode, fl or "none")
                nctx = 1 if mode == "bare" else 0
                k += 1
                cs.append(_mk("cbm-own-%s" % tag, be, 0, 8, ["wx"], "rand %d 50 0 0" % k, cb=(mode, fl, nctx)))
                cs.append(_mk("cbm-creator-%s" % tag, be, 1, 8, ["hx", ""], "rand %d 30 0 0" % (k + 7), cb=(mode, fl, nctx)))
                cs.append(_mk("cbm-other-%s" % tag, be, 0, 8, ["", "wx", "h"], "rand %d 50 0 0" % (k + 13), cb=(mode, fl, nctx)))
                # the loop is asleep in its poll when another thread asks it to exit
                cs.append(_mk("cbm-asleep-%s" % tag, be, 1, 8, ["x", ""],
                              "list - 0 0 1 1 1 1 1 1 1 1 0 0 0 0 0 0 0 0 0 0", cb=(mode, fl, nctx)))
    return cs


def _builtin_corpus():
    cs = []
    for be in ("select", "poll", "epoll"):
        # exit issued by the creating thread before the loop thread's run() has recorded its id
        cs.append(_mk("corpus-exit-before-run-%s" % be, be, 1, 8, ["x", ""], "list - 0 0 0 0 0 0 0 0 0 0"))
        # ... and in the window just before: creator decides its branch first, loop thread starts in between
        cs.append(_mk("corpus-exit-window-%s" % be, be, 1, 8, ["x", ""], "list - 0 0 0 1 1 1 1 0 0 0 0 1 1"))
        # exit by the loop thread itself before it calls run()
        cs.append(_mk("corpus-exit-own-before-run-%s" % be, be, 0, 8, ["x"], "rand 1 50 0 0"))
        cs.append(_mk("corpus-exit-own-before-run2-%s" % be, be, 1, 8, ["w", "x"], "rand 2 50 0 0"))
        # wake-up between the loop's clear-up and its next poll; hand-over racing exit
        cs.append(_mk("corpus-wake-window-%s" % be, be, 1, 8, ["wwx", "", "ww"], "rand 7 30 0 0"))
        cs.append(_mk("corpus-handover-exit-%s" % be, be, 1, 8, ["hx", "", "hh"], "rand 11 30 0 0"))
        # a second exit request from a foreign thread stores WAKE over a pending EXIT (the hypothesis keeps_ranked of
        # exit_returns_bounded_interference excludes exactly this; the wake-up write that follows re-promotes it)
        for k in (3, 5, 9, 14):
            cs.append(_mk("corpus-double-exit-%s-%d" % (be, k), be, 1, 8, ["x", "", "wx"], "rand %d 40 0 0" % k))
            cs.append(_mk("corpus-double-exit-cb-%s-%d" % (be, k), be, 1, 8, ["wx", "", "wwx"], "rand %d 40 0 0" % (k + 20),
                          cbw=["x", "x"]))
        cs.append(_mk("corpus-late-handover-%s" % be, be, 1, 8, ["x", "", "h"],
                      "list - 0 0 0 0 0 0 0 0 1 1 1 1 1 1 1 1 1 1 1 1 1 1 1 1 2 2 2 2 2 2 2 2 2 2 2 2"))
    # registration failure in on_wake (poll back-end at capacity)
    cs.append(_mk("corpus-add-ctx-failure", "poll", 1, 1, ["hhx", ""], "rand 5 50 0 0"))
    cs.append(_mk("corpus-add-ctx-failure-2", "poll", 0, 1, ["hh", "h", "wx"], "rand 9 30 0 0"))
    return cs


def _rand_script(rng, maxlen, with_x, allow_h=True, alphabet=None):
    n = rng.range(0, maxlen)
    ops = [rng.choice(alphabet or ("wh" if allow_h else "w")) for _ in range(n)]
    if with_x:
        ops.insert(rng.range(0, len(ops)), "x")
    return "".join(ops)


def _gen_one(rng, name, be):
    k = rng.range(1, 3)                       # further threads besides T0
    loopthr = rng.choice([0, 1, 1])
    n = 1 + k if loopthr == 0 else max(2, 1 + k)
    xthr = rng.below(n)                       # the thread that exits
    if rng.chance(1, 4):
        xthr = 0                              # the creating thread: the window before run() records its id
    x2 = rng.below(n) if rng.chance(1, 6) else None
    scripts = []
    for t in range(n):
        mx = 1 if t == loopthr else 3
        scripts.append(_rand_script(rng, mx, t == xthr or t == x2))
    hints = 8
    if be == "poll" and rng.chance(1, 3):
        hints = rng.range(1, 2)
    sched = "rand %d %d 0 0" % (rng.below(1 << 30), rng.choice([20, 50, 80]))
    # loop configuration: which optional callbacks are installed, handle attached or bare loop
    mode = "bare" if rng.chance(2, 5) else "handle"
    allf = BARE_FLAGS if mode == "bare" else HANDLE_FLAGS
    r = rng.below(6)
    if r < 2:
        fl = allf
    elif r == 2:
        fl = ""
    elif r < 5:
        fl = rng.choice(_cb_variants(allf)[2:])
    else:
        fl = "".join(ch for ch in allf if rng.chance(1, 2))
    nctx = rng.range(0, min(2, hints)) if mode == "bare" else 0
    return _mk(name, be, loopthr, hints, scripts, sched, cb=(mode, fl, nctx))


def _gen_shut(rng, name, be):
    """I/O family: contexts are handed over, registered by the wake callback and then become ready -
    shut down (s: flag CLOSED set outside their own dispatch + hang-up), data from the peer (d), peer
    closed (c) - by a script operation of any thread or by the user's wake / timer callback on the
    loop thread, which may also wake, hand over and exit from inside the loop; optionally with timer
    interval 0 (every iteration, ready or not, ends with the timer callback and the exit test).
    Wake-ups, hand-overs and the exit request race with the back-end's passes: the flag may be seen
    by the back-end (close dispatch: cb_msg / cb_close / release) or only by the clear pass after the
    exit test (shutdown and exit in the same iteration)"""
    k = rng.range(1, 3)
    loopthr = rng.choice([0, 1, 1])
    n = 1 + k if loopthr == 0 else max(2, 1 + k)
    xthr = rng.below(n)
    shape = rng.below(8)
    io = rng.choice(["s", "s", "sd", "sdc", "dc", "d"])
    scripts = []
    for t in range(n):
        if shape == 0:
            # hand-overs first, then I/O / wake-ups, exit somewhere
            body = "h" * rng.range(1, 2) + "".join(rng.choice(io + "w" + io + "h") for _ in range(rng.range(0, 3)))
            if t == loopthr and rng.chance(1, 2):
                body = rng.choice(["", "h", "hh"])
            if t == xthr:
                pos = rng.range(0, len(body))
                body = body[:pos] + "x" + body[pos:]
        elif shape == 1:
            # the exiting thread makes a context ready right before it asks for the exit
            body = _rand_script(rng, 3, False, alphabet="hh" + io + "w")
            if t == xthr:
                e = rng.choice(io)
                body = "h" * rng.range(0, 2) + rng.choice([e + "x", e + e + "x", e + "wx", e + "x", "x" + e])
        elif shape in (6, 7):
            # I/O storm while the exit request is between its store and its wake-up write: passes
            # that were not caused by the exit's wake-up run their exit test with WAKE pending
            if t == xthr:
                body = rng.choice(["x", "x", "hx", "dx"])
            else:
                body = "h" + "".join(rng.choice(io + "d") for _ in range(rng.range(2, 5)))
        elif shape in (2, 3):
            # I/O and exit from the callbacks: scripts only hand over, wake and (maybe) exit
            body = _rand_script(rng, 3, t == xthr and shape == 2, alphabet="hhw")
            if "h" not in body and t != loopthr and rng.chance(1, 2):
                body = "h" + body
        else:
            body = _rand_script(rng, 4, t == xthr, alphabet="hh" + io + io + "w")
        scripts.append(body[:8])
    tmo = rng.chance(1, 3)
    cbw = cbt = None

    def cbscript(with_x):
        ops = [rng.choice(io + io + "wh") for _ in range(rng.range(0, 2))]
        if with_x:
            ops.insert(rng.range(0, len(ops)), "x")
        return "".join(ops)
    if shape in (2, 3) or rng.chance(1, 3):
        if tmo and rng.chance(1, 2):
            cbt = [cbscript(False) for _ in range(rng.range(1, 4))]
            if shape == 3:
                cbt.append(cbscript(True))      # the timer callback asks for the exit
            else:
                cbw = [cbscript(False) for _ in range(rng.range(0, 2))]
        else:
            cbw = [cbscript(False) for _ in range(rng.range(1, 3))]
            if shape == 3:
                cbw[rng.below(len(cbw))] = cbscript(True)       # the wake callback asks for the exit
    if shape == 3:
        # the exit comes from a callback; make sure some thread wakes the loop and keep a script
        # exit as a back-stop so that the scenario terminates whatever the callback count
        scripts[xthr] = (scripts[xthr] + "wx")[:8]
    hints = 8
    if be == "poll" and rng.chance(1, 4):
        hints = rng.range(1, 3)
    sched = "rand %d %d 0 0" % (rng.below(1 << 30), rng.choice([20, 50, 80]))
    r = rng.below(6)
    if r < 3:
        fl = HANDLE_FLAGS
    elif r == 3:
        fl = rng.choice(_cb_variants(HANDLE_FLAGS)[2:2 + len(HANDLE_FLAGS)])     # one callback NULL
    elif r == 4:
        fl = "".join(ch for ch in HANDLE_FLAGS if rng.chance(2, 3))
    else:
        fl = "wt"
    return _mk(name, be, loopthr, hints, scripts, sched, cb=("handle", fl, 0), cbw=cbw, cbt=cbt, tmo=tmo)


def _gen_del(rng, name, be):
    """loop-lifetime family: the owner (the loop thread) deletes the handle and the loop as soon as
    muggle_evloop_run has returned while the thread that asked for the exit may still be inside
    muggle_evloop_exit (anywhere between its store to to_exit and the end of its wake-up write).
    Documented usage for which this is safe: the exit request is the only operation that writes the
    loop's signal (no other wake-up / hand-over, which could let the loop see the request and return
    before the requester's own write), issued by a thread other than the creating thread unless the
    creating thread runs the loop itself.  With timer interval 0 the loop runs its exit test in every
    iteration, woken or not: the two-step WAKE -> EXIT protocol is what keeps it from returning before
    the requester's write."""
    k = rng.range(1, 3)
    loopthr = rng.choice([0, 1, 1, 2 if k >= 2 else 1])
    n = max(1 + k, loopthr + 1)
    cands = [t for t in range(n) if t == loopthr or t != 0]
    xthr = rng.choice(cands)
    scripts = ["x" if t == xthr else "" for t in range(n)]
    tmo = rng.chance(2, 3)
    mode = "bare" if rng.chance(1, 3) else "handle"
    allf = BARE_FLAGS if mode == "bare" else HANDLE_FLAGS
    fl = allf if rng.chance(1, 2) else "".join(ch for ch in allf if rng.chance(2, 3))
    if tmo and rng.chance(3, 4) and "t" not in fl:
        fl += "t"
    nctx = rng.range(0, 2) if mode == "bare" else 0
    sched = "rand %d %d 0 0" % (rng.below(1 << 30), rng.choice([20, 50, 80]))
    return _mk(name, be, loopthr, 8, scripts, sched, cb=(mode, fl, nctx), tmo=tmo, dele=True)


def generate(rng, tier):
    cases = []
    per = 350 if tier == "quick" else 20000
    pers = 250 if tier == "quick" else 15000
    for be in ("select", "poll", "epoll"):
        for i in range(per):
            cases.append(_gen_one(rng, "%s-%d" % (be, i), be))
        for i in range(pers):
            cases.append(_gen_shut(rng, "io-%s-%d" % (be, i), be))
        for i in range(pers // 5):
            cases.append(_gen_del(rng, "del-%s-%d" % (be, i), be))
    return cases


def search(rng, diverging, tier):
    out = []
    for be in ("select", "poll", "epoll"):
        for i in range(1000):
            out.append(_gen_one(rng, "search-%s-%d" % (be, i), be))
        for i in range(1000):
            out.append(_gen_shut(rng, "search-io-%s-%d" % (be, i), be))
        for i in range(300):
            out.append(_gen_del(rng, "search-del-%s-%d" % (be, i), be))
    return out


def model_cases(cases, impl_results):
    out = []
    for c in cases:
        r = impl_results.get(c.name)
        lines = list(c.lines) + ["TRACE"] + (list(r["lines"]) if r else [])
        out.append(V.Case(c.name, lines, c.meta))
    return out


# ---------------------------------------------------------------------------
# independent monitor (does not use the Coq model): works on the trace only

def monitor(case, lines):
    loopthr = None
    for ln in case.lines:
        w = ln.split()
        if w and w[0] == "loop":
            loopthr = w[2]
    if loopthr is None:
        return None
    mode, flags, nctx = "handle", HANDLE_FLAGS, 0
    for ln in case.lines:
        w = ln.split()
        if w and w[0] == "cb" and len(w) >= 3:
            mode, flags = w[1], ("" if w[2] == "-" else w[2])
            nctx = int(w[3]) if len(w) > 3 and mode == "bare" else 0
    bare = (mode == "bare")
    tmo = any(ln.split() == ["tmo", "1"] for ln in case.lines)
    dele = any(ln.split() == ["del", "1"] for ln in case.lines)

    def has(ch):
        return ch in flags
    cleared = {}           # bare loop: context id -> number of clear callbacks
    exitcb = None          # bare loop: line of the exit callback
    stuck = None
    unserved = None        # line of the first completed wake-up request not yet followed by a wake callback start
    exit_done = None       # line at which an exit request completed
    exit_pending = {}      # thread -> op index of an exit call in progress
    loop_prev = None       # previous operation of the loop thread
    wake_starts = clearups = wake_notes = 0
    exit_lock = None
    returned = None
    hand = {}              # id -> dict
    pending_h = {}         # thread -> id waiting for its hand-over lock
    shut = {}              # id -> line of its shutdown (flag CLOSED set outside its own dispatch)
    fed = {}               # id -> line at which its peer last sent data
    pclosed = {}           # id -> line at which its peer closed
    closed = {}            # id -> line of its close callback
    for i, ln in enumerate(lines):
        w = ln.split()
        if not w:
            continue
        if w[0] in ("DEADLOCK", "LIVELOCK"):
            stuck = ln
            break
        if w[0] == "E":
            t, op, cell = w[1], w[2], w[3]
            a, b = int(w[5]), int(w[6])
            if returned is not None and t == loopthr:
                return "line %d: loop thread operation %s after run() returned" % (i, op)
            if returned is not None and dele and op in ("ewrite", "mlock", "munlock"):
                return ("line %d: thread %s performs %s on the loop after the owner deleted it (run() returned at line %d)"
                        % (i, t, op, returned))
            if op == "ewrite":
                if b != 1:
                    return "line %d: wake-up write failed" % i
                if unserved is None:
                    unserved = i
            elif op == "poll" and t == loopthr:
                if a == 0 and b == 0:
                    if unserved is not None:
                        return ("line %d: the loop went to sleep (nothing ready) although the wake-up request completed at "
                                "line %d has not been followed by a wake callback" % (i, unserved))
                    if exit_done is not None:
                        return ("line %d: the loop went to sleep (nothing ready) after the exit request completed at line %d"
                                % (i, exit_done))
                loop_prev = "poll"
            elif op == "eread" and t == loopthr:
                clearups += 1
                loop_prev = "eread"
                if bare and not has("w"):
                    unserved = None        # no wake callback installed: the clear-up is all there is to do
            elif op == "mlock" and bare:
                return "line %d: lock operation on a bare loop" % i
            elif op == "mlock":
                if t in pending_h:
                    hand[pending_h.pop(t)]["lock"] = i
                elif t == loopthr:
                    if loop_prev == "eread":
                        wake_starts += 1
                        unserved = None
                    else:
                        if exit_lock is not None:
                            return "line %d: exit callback ran twice" % i
                        exit_lock = i
                    loop_prev = "mlock"
                else:
                    return "line %d: unexpected lock by thread %s" % (i, t)
            elif t == loopthr and op in ("munlock", "cass"):
                loop_prev = op
        elif w[0] == "R":
            t, what = w[1], w[2]
            if what == "op" and w[3] == "h":
                cid = int(w[4])
                if cid in hand:
                    return "line %d: context id %d handed over twice by the harness" % (i, cid)
                hand[cid] = {"line": i, "add": 0, "reg": 0, "rel": 0, "free": 0, "lock": None}
                pending_h[t] = cid
            elif what == "op" and w[3] == "x":
                exit_pending[t] = w[4]
            elif what == "op" and w[3] in ("s", "d", "c"):
                cid = int(w[4])
                if bare:
                    return "line %d: socket context operation on a bare loop" % i
                if cid >= 0:
                    h = hand.get(cid)
                    if h is None or h["free"] or cid in shut or (w[3] != "s" and cid in pclosed):
                        return ("line %d: the harness picked context %d which is unknown / freed / already shut down / "
                                "whose peer is closed" % (i, cid))
                    {"s": shut, "d": fed, "c": pclosed}[w[3]][cid] = i
            elif what == "done":
                if exit_pending.get(t) == w[3]:
                    del exit_pending[t]
                    if exit_done is None:
                        exit_done = i
            elif what == "read" or (bare and what in ("close", "msg")):
                return "line %d: unexpected %s callback (the peers of a bare loop's contexts are silent)" % (i, what)
            elif what == "timer":
                if not tmo or not has("t") or t != loopthr:
                    return "line %d: timer callback without a timer interval / not installed / not on the loop thread" % i
                if returned is not None:
                    return "line %d: timer callback after run() returned" % i
            elif what == "msg":
                cid = int(w[3])
                h = hand.get(cid)
                if not has("m") or t != loopthr:
                    return "line %d: message callback that is not installed / not on the loop thread" % i
                if h is None or not (cid in shut or cid in fed or cid in pclosed):
                    return ("line %d: message callback for context %s whose peer is silent and open and which was not "
                            "shut down" % (i, w[3]))
                if h["free"] or h["rel"] or cid in closed:
                    return "line %d: message callback touches context %d after its close / release / free" % (i, cid)
            elif what == "clear":
                cid = int(w[3])
                if not bare or not has("l") or t != loopthr:
                    return "line %d: clear callback that is not installed / not on the loop thread" % i
                if exitcb is not None or returned is not None:
                    return "line %d: clear callback after the exit callback / the return" % i
                cleared[cid] = cleared.get(cid, 0) + 1
                if cleared[cid] > 1 or cid >= nctx:
                    return "line %d: context %d cleared twice / unknown" % (i, cid)
            elif what == "exitcb":
                if not bare or not has("x") or t != loopthr or exitcb is not None or returned is not None:
                    return "line %d: exit callback not installed / twice / after the return / not on the loop thread" % i
                exitcb = i
            elif what in ("addctx", "release", "free", "close"):
                if (what == "addctx" and not has("a")) or (what == "release" and not has("r")) or bare:
                    return "line %d: callback %s ran although it is not installed" % (i, what)
                cid = int(w[3])
                h = hand.get(cid)
                if h is None:
                    return "line %d: callback %s for unknown context %d" % (i, what, cid)
                if t != loopthr:
                    return "line %d: callback %s on thread %s, not the loop thread" % (i, what, t)
                if h["free"]:
                    return "line %d: callback %s touches context %d after it was freed" % (i, what, cid)
                if what == "addctx":
                    h["add"] += 1
                    if w[4] == "1":
                        h["reg"] += 1
                    else:
                        h["badadd"] = i
                    if h["add"] > 1 or h["rel"]:
                        return "line %d: context %d registered twice / after release" % (i, cid)
                elif what == "release":
                    h["rel"] += 1
                    if h["rel"] > 1:
                        return "line %d: context %d released twice" % (i, cid)
                elif what == "free":
                    h["free"] += 1
                    if has("r") and h["rel"] != 1:
                        return "line %d: context %d freed without exactly one release" % (i, cid)
                    if h["free"] > 1:
                        return "line %d: context %d freed twice" % (i, cid)
                elif what == "close":
                    if not has("c"):
                        return "line %d: close callback ran although it is not installed" % i
                    if cid not in shut and cid not in pclosed:
                        return ("line %d: unexpected close callback for context %d (it was not shut down and its peer "
                                "has not closed)" % (i, cid))
                    if cid in closed or h["rel"]:
                        return "line %d: context %d closed twice / after its release" % (i, cid)
                    closed[cid] = i
            elif what == "wake":
                wake_notes += 1
                if t != loopthr:
                    return "line %d: wake callback on thread %s" % (i, t)
                if not has("w"):
                    return "line %d: wake callback ran although it is not installed" % i
                if bare:
                    if loop_prev != "eread":
                        return "line %d: wake callback without a preceding clear-up of the signal" % i
                    loop_prev = "wake"
                    unserved = None
            elif what == "returned":
                returned = i
                if t != loopthr:
                    return "line %d: run() returned on thread %s" % (i, t)
                if not bare and exit_lock is None:
                    return "line %d: run() returned without the exit callback" % i
                if bare and has("x") and exitcb is None:
                    return "line %d: run() returned without the exit callback" % i
                if bare and has("l") and sorted(cleared) != list(range(nctx)):
                    return "line %d: run() returned with %d of %d registered contexts cleared" % (i, len(cleared), nctx)
                if exit_done is None and not exit_pending:
                    return "line %d: run() returned although no exit was requested" % i
    if stuck:
        why = ""
        if exit_done is not None:
            why = " after the exit request completed at line %d (run() never returned)" % exit_done
        elif unserved is not None:
            why = " with the wake-up request of line %d never followed by a wake callback" % unserved
        return "scheduler reported %s%s" % (stuck, why)
    f = [ln for ln in lines if ln.startswith("F ")]
    m = re.match(r"F returned=(\d+) live=(-?\d+) late=(\d+)", f[-1]) if f else None
    if not m:
        return "no summary line"
    if exit_done is not None and (returned is None or m.group(1) != "1"):
        return "exit request completed at line %d but run() did not return" % exit_done
    if (has("w") and wake_notes != clearups) or (not bare and wake_starts != clearups):
        return "%d signal clear-ups, %d wake callback starts, %d wake callbacks completed" % (clearups, wake_starts, wake_notes)
    late = 0
    for cid, h in sorted(hand.items()):
        if "badadd" in h and not h["rel"]:
            return ("context %d: registration failed in the wake callback, it was announced (line %d) but is neither in the "
                    "loop nor released" % (cid, h["badadd"]))
        is_late = h["lock"] is not None and exit_lock is not None and h["lock"] > exit_lock
        if is_late:
            late += 1
            if h["add"] or h["rel"] or h["free"]:
                return "context %d was handed over after the exit callback but was still processed" % cid
            continue
        if (has("r") and h["rel"] != 1) or h["free"] != 1:
            return ("context %d (handed over at line %d, before the exit callback%s): registered %d time(s), released %d, "
                    "freed %d - must be released and freed exactly once by the time run() returns"
                    % (cid, h["line"], ", shut down at line %d" % shut[cid] if cid in shut else "",
                       h["reg"], h["rel"], h["free"]))
    if int(m.group(2)) != 0:
        return "allocation accounting: %s context(s) neither freed by the loop nor still queued after run()" % m.group(2)
    if int(m.group(3)) != late:
        return "%s context(s) left in the queue after run(), %d were handed over after the exit callback" % (m.group(3), late)
    return None


def nontrivial_key(case, lines):
    loopthr = case.lines[0].split()[2]
    inside = False
    hit = False
    run_started = False
    for ln in lines:
        w = ln.split()
        if not w:
            continue
        if w[0] == "E" and w[1] == loopthr and w[2] == "poll":
            run_started = True
            inside = (w[5] == "1")
        elif w[0] == "E" and w[1] != loopthr and inside and w[2] in ("ewrite", "mlock"):
            hit = True
        elif w[0] == "R" and w[2] == "op" and w[3] == "x" and not run_started:
            hit = True
        elif w[0] == "E" and w[2] == "cass" and inside:
            hit = True
        elif w[0] == "F" and not ln.endswith("late=0"):
            hit = True
        elif w[0] == "R" and w[2] == "op" and w[3] in ("s", "d", "c") and w[4] != "-1":
            hit = True
        elif w[0] == "R" and w[1] == loopthr and w[2] == "op" and run_started:
            hit = True          # an operation issued from inside a callback
        elif w[0] == "R" and w[2] == "timer":
            hit = True
    return hash("\n".join(lines)) if hit else None


def tally(dist, case, lines):
    w = case.lines[0].split()
    dist["backend-" + w[1]] = dist.get("backend-" + w[1], 0) + 1
    dist["loop-thread-%s" % ("creator" if w[2] == "0" else "other")] = dist.get(
        "loop-thread-%s" % ("creator" if w[2] == "0" else "other"), 0) + 1
    dist["threads-%d" % sum(1 for ln in case.lines if ln.startswith("thr "))] = dist.get(
        "threads-%d" % sum(1 for ln in case.lines if ln.startswith("thr ")), 0) + 1
    if any(l.split() == ["del", "1"] for l in case.lines):
        dist["delete_after_return_cases"] = dist.get("delete_after_return_cases", 0) + 1
    if any(l.split() == ["tmo", "1"] for l in case.lines):
        dist["timer_interval_0_cases"] = dist.get("timer_interval_0_cases", 0) + 1
    lt = w[2]
    inloop = False
    for ln in lines:
        if ln.startswith("E %s poll " % lt):
            inloop = True
        elif inloop and ln.startswith("R %s op " % lt):
            dist["ops_from_callbacks"] = dist.get("ops_from_callbacks", 0) + 1
        if ln.startswith("E "):
            dist["events"] = dist.get("events", 0) + 1
            if " poll sig none 0 " in ln:
                dist["unready_polls"] = dist.get("unready_polls", 0) + 1
            elif " eread " in ln:
                dist["wakeups_handled"] = dist.get("wakeups_handled", 0) + 1
            elif " cass ref" in ln:
                dist["releases"] = dist.get("releases", 0) + 1
        elif ln.startswith("R ") and " op h " in ln:
            dist["handovers"] = dist.get("handovers", 0) + 1
        elif ln.startswith("R ") and " op x " in ln:
            dist["exit_requests"] = dist.get("exit_requests", 0) + 1
        elif ln.startswith("R ") and (" op s " in ln or " op d " in ln or " op c " in ln) and not ln.endswith(" -1"):
            k = {"s": "shutdowns", "d": "peer_data", "c": "peer_closes"}[ln.split()[3]]
            dist[k] = dist.get(k, 0) + 1
        elif ln.startswith("R ") and ln.endswith(" timer"):
            dist["timer_callbacks"] = dist.get("timer_callbacks", 0) + 1
        elif ln.startswith("R ") and " msg " in ln:
            dist["message_callbacks"] = dist.get("message_callbacks", 0) + 1
        elif ln.startswith("R ") and " close " in ln:
            dist["close_dispatches"] = dist.get("close_dispatches", 0) + 1
        elif ln.startswith("F ") and not ln.endswith("late=0"):
            dist["late_handover_cases"] = dist.get("late_handover_cases", 0) + 1


MANIFEST = {
    "level_text": ("(liveness over the extended model: solo form exit_returns_solo + variant; the fair-round forms of round 4 not re-proved, see evidence notes) "
                   "Coq theorems over an executable interleaving model (any number of threads, every schedule) of "
                   "muggle_evloop_run / handle_wakeup / muggle_evloop_exit / wakeup and the socket handle's hand-over "
                   "queue: no wake-up request is lost (the loop never sleeps with an unserved request), every context "
                   "handed over is registered or released exactly once (including those queued at exit), and after an "
                   "exit request from any thread at any point the loop cannot sleep again and leaves through the clear "
                   "and exit callbacks.  Tie: the real loop, real eventfd and real select/poll/epoll run under the "
                   "deterministic scheduler (blocking calls re-polled with timeout 0) and every trace is replayed on the "
                   "extracted model; an independent monitor checks wake/exit/hand-over accounting on the traces, ASan "
                   "checks use-after-free."),
    "design_ref": "DESIGN.md sections 4.2, 4.3, 5 (rows C14, C14/15), 6/C14",
    "level_note": ("Trusted: Coq kernel, extraction, vsched + vs_io scheduler extension, kernel eventfd/poll/epoll semantics "
                   "(executed for real, modelled for the theorems), SC reading of the plain to_exit/tid fields.  Two "
                   "defects repaired: fixes/C14-exit-before-run.patch, fixes/C14-add-ctx-failure.patch."),
    "technique": "Coq invariant proofs over all interleavings + deterministic-scheduler trace acceptance by the extracted model",
}
