"""C04 — locks exclude, call_once once, ref count saturates: plugin for bin/check."""
import os
import re
import vcommon as V

ID = "C04"
COQ_DIRS = ["C04"]
MODEL_BASE = "c04_model"
OCAML_DRIVER = "ocaml/c04_driver.ml"
OCAML_INCLUDES = ["ocaml/vsacc.ml.inc"]
C_DRIVER = "harness/drivers/c04_driver.c"
REPO_SOURCES = ["muggle/c/sync/spinlock.c", "muggle/c/sync/synclock.c", "muggle/c/sync/mutex.c",
                "muggle/c/sync/call_once.c", "muggle/c/sync/ref_cnt.c", "muggle/c/base/thread.c"]
HEADER_LINES = 2
SHRINK = False          # a case is (scenario, schedule); schedules are not line-shrinkable
CASE_TIMEOUT = 5.0
RULE = ("scenarios (lock kind x 2..4 threads x 1..3 iterations; mutex whose owner locks it again inside the critical section "
        "(contenders lock / trylock; expected outcome: the scheduler's DEADLOCK with the owner parked in the nested lock); "
        "call_once 2..4 racers calling 1..3 times each, and 2..3 once-flags in flight with 3..5 threads calling 1..3 flags each "
        "(slow function bodies, a late caller on every flag, interleaved completions); a REAL-pthread run (no scheduler) of "
        "muggle_mutex_init/lock/trylock/unlock incl. the owner's nested lock watched by a timed helper thread; "
        "retain/release scripts of 1..8 operations per thread starting from 1..3 and from the boundary values 0x7ffe..0x8001, "
        "0xfffe..0x10001, 2^31-3..2^31-1 (never more retains than fit the C type)) "
        "x seeded random schedules (context-switch density 20/50/80 %, weak-CAS spurious failure 0/30 %) run on the real "
        "code under the deterministic scheduler; every trace replayed on the extracted model; plus unhooked smoke scripts "
        "of every muggle_atomic_* macro of atomic.h as shipped (single thread: random operation scripts on int/i32/i64/byte "
        "cells incl. width boundaries; two real threads: interleaving-independent totals) compared with the model's value "
        "semantics; non-trivial = the trace contains a contended acquisition / a losing call_once racer / a failed or "
        "refused counter operation / a failing compare-exchange or a wrapping add in a smoke script; distinct = distinct trace text")
TRUSTED_BASE = [
    "modelled, not verified: sequentially consistent interleaving of atomic operations plus release/acquire views for the protected plain cell (stand-in for C11; DRF-SC is assumed, not proved); futex = atomic compare-and-block/wake and pthread mutex = exclusive ownership with acquire/release, as interposed by harness/vsched; real weak-memory reorderings cannot be exhibited on x86 under a serialised run",
    "memory orders of the 8 sites are re-extracted from the executed code into coq/gen/Params_C04.v on every run and the theorems' side conditions (mo_sufficient) are discharged against them",
    "the scheduled runs never execute the macro BODIES of muggle/c/base/atomic.h (harness/vsched/vs_hooks.h re-defines every muggle_atomic_* macro); they are tied separately: lib/atomic_tie.py reads from gcc's GIMPLE (-O1, the drivers' include path and config header) of a probe translation unit, for atomic.h alone and with vs_hooks.h force-included, the __atomic builtin of every macro, where each macro parameter lands, how the result is returned, what the hook logs, the values of muggle_memory_order_* / __ATOMIC_* and the sizes of the muggle_atomic_* types (obligation atomic_macros_are_the_hooked_builtins), and harness/drivers/c04_atomics.c (compiled WITHOUT the hooks) runs every macro's value semantics on real threads against Lib/AtomicTie.v aop_sem.  Trusted there: gcc's GIMPLE dump format and the ~150-line reader in lib/atomic_tie.py; only the GCC/Linux branch of atomic.h is seen (the Windows/MSVC half is in no run and no model)",
    "pthread mutex under the scheduler: harness/vsched replaces pthread_mutex_lock/trylock/unlock by exclusive ownership and, with pthread_mutex_init wrapped as well (this driver), honours the mutex TYPE muggle_mutex_init asks for (default: a lock by the owner never returns = DEADLOCK event; error-checking: EDEADLK / EPERM; recursive: counts); the real pthread return codes and attributes are exercised separately by the unscheduled 'mutexreal' scenario (timing decisions err on the quiet side: 'inconclusive' lines are logged and are never a verdict); obligations mutex_result_mapping_matches_model (every pthread result != 0 is an error, from the C text) and mutex_is_a_default_pthread_mutex (type seen by the wrapped pthread_mutex_init)",
    "leaf translator lib/leaftrans.py behind the slicer lib/props/c04_slice.py (clang 14 JSON AST -> Gallina over Z): the loop body of muggle_ref_cnt_retain / _release as a function of the value read from *ref (obligation ref_loop_body_matches_model); the model's counter has the range of the C type (obligation ref_counter_type_matches_model); `v + 1` at INT_MAX is undefined behaviour in the unchanged code (no refusal there): the counter theorems carry the hypothesis initial value + number of retains <= INT_MAX, the ghost r_ovf records a violation of it",
]
ASSUMPTIONS = ["threads use the lock/once/refcount API as documented (unlock only by the holder)",
               "reference counter: initial value + total number of retains <= INT_MAX (beyond that muggle_ref_cnt_retain computes INT_MAX + 1, undefined behaviour in C)"]
EVIDENCE_NOTES = [
    "call_once model: the stamp of once-flag c carries the view of func[c]'s plain cell only (that a release also publishes the storer's view of the other flags' cells is left out: the model promises less visibility than C11); a cell name the model does not know in a trace (e.g. a new static word in call_once.c) is a rejected trace line, i.e. a divergence",
    "nested mutex scenarios: on the unchanged code every such case ends in the scheduler's DEADLOCK event with thread 0 parked in its nested muggle_mutex_lock; monitor and model both expect exactly that (nested_mutex_lock_by_owner_never_returns); a nested lock that returns (error-checking or recursive mutex) is accepted by the monitor as long as nobody else gets in, but diverges from the model",
    "atomic.h tie: order-only edits of a macro body (e.g. store ignoring its memorder) cannot be exhibited by a run on x86; they break atomic_macros_are_the_hooked_builtins / c04_memory_orders_sufficient and are reported with a MODEL history under the effective orders (model_search); value-level edits (returned old/new value, compare-exchange result or *expected write-back, test_and_set polarity) are reported with a concrete smoke script",
    "refcnt_exactly_one_zero is stated for finished runs of scripts with at least (initial + retains) releases; for other scripts only 'at most one' (refcnt_single_zero) holds, by design of the property",
]

SITES = [  # (params field, scenario, op, cell)
    ("mo_spin_tas", "spin", "tas", "lock"), ("mo_spin_clear", "spin", "clear", "lock"),
    ("mo_sync_cas", "sync", "casw", "lock"), ("mo_sync_store", "sync", "store", "lock"),
    ("mo_once_cas", "once", "cass", "flag"), ("mo_once_store", "once", "store", "flag"),
    ("mo_once_load", "once", "load", "flag"), ("mo_ref_cas", "refcnt", "cass", "ref"),
]
MO = {"rlx": "Rlx", "con": "Con", "acq": "Acq", "rel": "Rel", "acqrel": "AcqRel", "sc": "SeqCst", "none": "MoNone"}


ATOMICS_C = "harness/drivers/c04_atomics.c"      # compiled WITHOUT vs_hooks.h (build_vsched_driver: extra_c)
_TIE = {}                                        # result of lib/atomic_tie.probe of this run (for model_search)


def build_driver(prop_id=None, out_name="impl_driver"):
    """the C04 driver; also built by other properties' plugins (C15 runs the reference-counter scenarios)"""
    # pthread_mutex_init is wrapped too, so that the scheduler's mutex honours the type muggle_mutex_init asks for
    return V.build_vsched_driver(prop_id or ID, C_DRIVER, REPO_SOURCES, out_name=out_name,
                                 extra_c=[ATOMICS_C], extra_wraps=["pthread_mutex_init"])


def build_impl(ctx):
    return build_driver()


def _discovery_cases():
    return [V.Case("disc-spin", ["lock spin 2 1", "sched rand 1 30 0 0"]),
            V.Case("disc-sync", ["lock sync 2 1", "sched rand 2 30 0 0"]),
            V.Case("disc-once", ["once 3", "sched rand 3 30 0 0"]),
            V.Case("disc-ref", ["refcnt 2 rd dd", "sched rand 4 30 0 0"]),
            V.Case("disc-mutextype", ["mutextype"])]


SITE_MACRO = {  # params field -> macro the site goes through
    "mo_spin_tas": "muggle_atomic_test_and_set", "mo_spin_clear": "muggle_atomic_clear",
    "mo_sync_cas": "muggle_atomic_cmp_exch_weak", "mo_sync_store": "muggle_atomic_store",
    "mo_once_cas": "muggle_atomic_cmp_exch_strong", "mo_once_store": "muggle_atomic_store",
    "mo_once_load": "muggle_atomic_load", "mo_ref_cas": "muggle_atomic_cmp_exch_strong",
}


def gen_params(ctx):
    """(1) memory orders actually passed by the code at each site (observed by the hooks);
    (2) atomic.h and vs_hooks.h as gcc sees them (lib/atomic_tie.py);
    (3) the loop bodies of retain / release re-translated from the C text (lib/props/c04_slice.py)."""
    import atomic_tie as AT
    from props import c04_slice as SL
    exe = build_impl(ctx)
    res = V.run_batch(exe, _discovery_cases(), per_case_timeout=5.0)
    seen = {}
    mtype = None
    for name, r in res.items():
        scen = name.split("-")[1]
        scen = {"ref": "refcnt"}.get(scen, scen)
        for ln in r["lines"]:
            w = ln.split()
            if len(w) >= 5 and w[0] == "E":
                seen.setdefault((scen, w[2], w[3]), set()).add(w[4])
            m = re.match(r"F mutextype init=(-?\d+) type=(-?\d+) normal=(-?\d+) default=(-?\d+)$", ln)
            if m:
                mtype = [int(x) for x in m.groups()]
    fields = []
    notes = []
    for field, scen, op, cell in SITES:
        mos = seen.get((scen, op, cell), set())
        if len(mos) != 1:
            # an unobserved or ambiguous site is a failed obligation, not a default
            notes.append("(* site %s (%s %s %s): observed %s *)" % (field, scen, op, cell, sorted(mos)))
            fields.append("%s := MoNone" % field)
        else:
            fields.append("%s := %s" % (field, MO.get(next(iter(mos)), "MoNone")))
    txt = ("(* generated by lib/props/c04.py on this run; do not edit.\n"
           "   code_params: memory orders observed at each atomic site of spinlock.c / synclock.c / call_once.c / ref_cnt.c;\n"
           "   header_atomic_table .. atomic_types: lib/atomic_tie.py; gen_ref_*: lib/props/c04_slice.py + lib/leaftrans.py *)\n"
           "From Coq Require Import String.\n"
           "From MV Require Import Lib.Leaf Lib.AtomicTie C04.Model.\n"
           "Local Open Scope string_scope.\nLocal Open Scope Z_scope.\n" + "\n".join(notes) + ("\n" if notes else "") +
           "Definition code_params : params :=\n  {| " + ";\n     ".join(fields) + " |}.\n\n")
    # (2) a failure of the probe leaves empty tables: the obligation breaks
    _TIE.clear()
    try:
        tie = AT.probe(V.REPO, V.GEN_INC, V.VERIF, os.path.join(V.BUILD, ID, "atomic_tie"),
                       extra_types=[("muggle_ref_cnt_t", "muggle/c/sync/ref_cnt.h")])
        _TIE.update(tie)
        txt += AT.coq_tables(tie)
        for ln in AT.disagreements(tie):
            V.log("atomic.h tie: " + ln)
    except Exception as e:
        txt += ("(* lib/atomic_tie.py failed: %s *)\n" % str(e).replace("*)", "* )")[:600] +
                "Definition header_atomic_table : list (string * amacro) := [].\n"
                "Definition hook_atomic_table : list (string * hmacro) := [].\n"
                "Definition unhooked_atomic_macros : list string := [\"?\"].\n"
                "Definition memory_order_consts : list (string * Z * Z) := [].\n"
                "Definition atomic_types : list (string * Z * bool) := [].\n")
    # (3)
    V.gen_config_header()
    flags = ["-std=gnu11", "-I" + V.REPO, "-I" + V.GEN_INC, "-DNDEBUG"]
    txt += "\n" + SL.gen_all(V.REPO, flags)
    # (4) mutex.c: result mapping of every pthread call, and the pthread type muggle_mutex_init asks for (as
    # the wrapped pthread_mutex_init saw it); anything unobserved is a value no obligation accepts
    txt += "\n" + SL.gen_mutex(V.REPO, flags, os.path.join(V.BUILD, ID, "atomic_tie"))
    mt = mtype or [-1, -1, -2, -3]
    txt += ("\n(* muggle_mutex_init: its return value, the PTHREAD_MUTEX_* type of the mutex it created, and the\n"
            "   values of PTHREAD_MUTEX_NORMAL / PTHREAD_MUTEX_DEFAULT on this platform *)\n"
            "Definition code_mutex_init_rc : Z := %d.\nDefinition code_mutex_type : Z := %d.\n"
            "Definition pthread_mutex_normal : Z := %d.\nDefinition pthread_mutex_default : Z := %d.\n" % tuple(mt))
    return txt


def _mk(name, scen_line, sched):
    return V.Case(name, [scen_line, "sched " + sched], {"scen": scen_line})


def corpus_cases(ctx):
    return [
        # spurious weak-CAS failure while the lock is free: the pre-repair synclock returned without the lock
        _mk("corpus-sync-spurious", "lock sync 3 1", "rand 5 30 30 0"),
        _mk("corpus-sync-spurious-list", "lock sync 2 1", "list 0, 0 0 0 1 1 1 1 1 1 0 0 0 0 0 0"),
        # a futex wait that would block is interrupted (-1/EINTR) or returns spuriously: lock() must retry
        _mk("corpus-sync-eintr", "lock sync 3 2", "rand 11 30 0 0 60 0"),
        _mk("corpus-sync-fwake", "lock sync 3 2", "rand 12 30 0 0 0 60"),
        _mk("corpus-sync-eintr-spur", "lock sync 2 2", "rand 13 50 30 0 40 40"),
        # muggle_mutex_trylock on a held mutex must be refused (the client retries)
        _mk("corpus-trylock-contended", "lock try 3 2", "rand 21 30 0 0"),
        _mk("corpus-ref-last-release", "refcnt 1 rd dd", "rand 9 40 0 0"),
        _mk("corpus-ref-init0", "refcnt 0 r d", "rand 1 50 0 0"),
    ]


INT_MAX = 2 ** 31 - 1
REF_BOUNDARIES = [0x7ffe, 0x7fff, 0x8000, 0x8001, 0xfffe, 0xffff, 0x10000, INT_MAX - 2, INT_MAX - 1, INT_MAX]


def _ref_scripts(rng, n, maxlen, max_retains=None):
    """n scripts of 1..maxlen operations; at most max_retains retains in total (the counter is a C int)"""
    scripts = ["".join(rng.choice("rd") for _ in range(rng.range(1, maxlen))) for _ in range(n)]
    if max_retains is not None:
        out, left = [], max_retains
        for sc in scripts:
            t = ""
            for ch in sc:
                if ch == "r":
                    if left <= 0:
                        ch = "d"
                    else:
                        left -= 1
                t += ch
            out.append(t)
        scripts = out
    return scripts


def _ref_boundary_cases(rng, per_init, prefix):
    cases = []
    for init in REF_BOUNDARIES:
        room = INT_MAX - init
        fixed = [["rr", "d"], ["r", "r", "dd"], ["rrr", "ddd"]]
        for j in range(per_init):
            if j < len(fixed):
                sc, left = [], room
                for x in fixed[j]:
                    t = ""
                    for ch in x:
                        if ch == "r" and left <= 0:
                            ch = "d"
                        elif ch == "r":
                            left -= 1
                        t += ch
                    sc.append(t)
            else:
                sc = _ref_scripts(rng, rng.range(2, 3), 4, max_retains=min(room, 6))
            cases.append(_mk("%s-%d-%d" % (prefix, init, j), "refcnt %d %s" % (init, " ".join(sc)),
                             "rand %d %d 0 0" % (rng.below(1 << 30), rng.choice([20, 50, 80]))))
    return cases


AT_BITS = {"int": 32, "i32": 32, "i64": 64, "byte": 8}


def _atomics_script(rng, variant, nops):
    """random operation script for the unhooked smoke run; values are chosen so that compare-exchanges both
    succeed and fail and additions cross the boundaries of the type"""
    bits = AT_BITS[variant]
    hi, lo = 2 ** (bits - 1) - 1, -(2 ** (bits - 1))
    init = rng.choice([0, 1]) if variant == "byte" else rng.choice([0, 1, 5, -3, hi, lo, hi - 1, 1000])
    cell = init
    ops = []
    for _ in range(nops):
        if variant == "byte":
            k = rng.choice(["ts", "ts", "cl", "ld", "st"])
            if k == "st":
                v = rng.choice([0, 1])
                ops.append("st:%d" % v)
                cell = v
            else:
                ops.append(k)
                cell = 1 if k == "ts" else 0 if k == "cl" else cell
            continue
        k = rng.choice(["ld", "st", "xc", "cs", "cs", "cw", "cw", "fa", "fa", "fs"])
        if k == "ld":
            ops.append("ld")
        elif k in ("st", "xc"):
            v = rng.choice([0, 1, -1, 7, hi, lo, rng.range(-50, 50)])
            ops.append("%s:%d" % (k, v))
            cell = v
        elif k in ("cs", "cw"):
            e = cell if rng.below(2) else rng.choice([cell + 1, cell - 1, 0, 42])
            e = max(lo, min(hi, e))
            d = rng.choice([0, 1, cell + 1 if cell < hi else lo, hi, lo, rng.range(-9, 9)])
            d = max(lo, min(hi, d))
            ops.append("%s:%d:%d" % (k, e, d))
            if e == cell:
                cell = d
        else:
            v = rng.choice([1, 1, 2, -1, hi, rng.range(0, 100)])
            ops.append("%s:%d" % (k, v))
            cell = cell + v if k == "fa" else cell - v
            cell = (cell - lo) % (2 ** bits) + lo
    return "atomics %s %d %s" % (variant, init, " ".join(ops))


def _atomics_cases(rng, nsingle, iters, prefix="atomics"):
    cases = [
        # one fixed script per variant touching every macro once (readable replay)
        V.Case(prefix + "-fixed-int", ["atomics int 5 ld st:9 xc:3 cs:3:4 cs:3:8 cw:4:6 cw:7:1 fa:2 fs:1 ld"]),
        V.Case(prefix + "-fixed-i32", ["atomics i32 -2 ld xc:3 cs:3:4 cs:3:8 cw:4:6 cw:7:1 fa:2147483647 fs:1 ld"]),
        V.Case(prefix + "-fixed-i64", ["atomics i64 4294967296 ld xc:9000000000 cs:9000000000:4 cs:3:8 cw:4:6 cw:7:1 fa:9223372036854775807 fs:1 ld"]),
        V.Case(prefix + "-fixed-byte", ["atomics byte 0 ts ts ld cl ld ts cl cl st:1 ts"]),
    ]
    for i in range(nsingle):
        variant = ["int", "i32", "i64", "byte"][i % 4]
        cases.append(V.Case("%s-%s-%d" % (prefix, variant, i), [_atomics_script(rng, variant, rng.range(4, 14))]))
    for variant in ("int", "i32", "i64"):
        cases.append(V.Case("%s2-%s" % (prefix, variant), ["atomics2 %s %d" % (variant, iters)]))
    return cases


def _oncem_cases(rng, count, prefix):
    """2..3 once-flags in flight: 3..5 threads, each calling 1..3 flags (a flag may come twice); every flag has
    at least two callers, so that it has a late caller while its (slow) function runs and the completions of the
    flags interleave"""
    cases = []
    for i in range(count):
        nf = rng.choice([2, 2, 3])
        n = rng.range(3, 5)
        scripts = ["".join(str(rng.below(nf)) for _ in range(rng.range(1, 3))) for _ in range(n)]
        for f in range(nf):
            callers = [k for k, sc in enumerate(scripts) if str(f) in sc]
            while len(callers) < 2:
                k = rng.below(n)
                if k not in callers:
                    scripts[k] = (str(f) + scripts[k])[:3] if str(f) not in scripts[k][:2] else scripts[k]
                    if str(f) in scripts[k]:
                        callers.append(k)
        cases.append(_mk("%s-%d" % (prefix, i), "oncem %d %s" % (nf, " ".join(scripts)),
                         "rand %d %d 0 0" % (rng.below(1 << 30), rng.choice([20, 50, 50, 80]))))
    return cases


def _nest_cases(rng, per, prefix):
    """the owner of the mutex locks it again inside its critical section (thread 0); the documented outcome for a
    default pthread mutex is that this never returns: DEADLOCK once the contenders are blocked / have given up"""
    cases = []
    for kind in ("nest", "nesttry"):
        for n in (2, 3):
            for it in (1, 2):
                for j in range(per):
                    cases.append(_mk("%s-%s-%d-%d-%d" % (prefix, kind, n, it, j), "lock %s %d %d" % (kind, n, it),
                                     "rand %d %d 0 0" % (rng.below(1 << 30), rng.choice([20, 50, 80]))))
    return cases


def generate(rng, tier):
    cases = []
    nseed = 25 if tier == "quick" else 400
    for kind in ("spin", "sync", "mutex", "try"):
        for n in (2, 3, 4):
            for it in ((1, 2) if tier == "quick" else (1, 2, 3)):
                for i in range(nseed):
                    stick = rng.choice([20, 50, 80])
                    spur = rng.choice([0, 30]) if kind == "sync" else 0
                    # futex wait faults (interrupted: -1/EINTR, spurious return 0) only exist for the synclock
                    fs, fw = (rng.choice([0, 0, 40]), rng.choice([0, 0, 40])) if kind == "sync" else (0, 0)
                    cases.append(_mk("lock-%s-%d-%d-%d" % (kind, n, it, i), "lock %s %d %d" % (kind, n, it),
                                     "rand %d %d %d 0 %d %d" % (rng.below(1 << 30), stick, spur, fs, fw)))
    for n in (2, 3, 4):
        for i in range(nseed * 2):
            calls = rng.choice([1, 1, 2, 3])       # a racer may call again after READY
            cases.append(_mk("once-%d-%d" % (n, i), "once %d %d" % (n, calls),
                             "rand %d %d 0 0" % (rng.below(1 << 30), rng.choice([20, 50, 80]))))
    for i in range(nseed * 12):
        n = rng.range(2, 4)
        init = rng.range(1, 3)
        scripts = _ref_scripts(rng, n, 3 if i % 3 else 8)
        cases.append(_mk("ref-%d" % i, "refcnt %d %s" % (init, " ".join(scripts)),
                         "rand %d %d 0 0" % (rng.below(1 << 30), rng.choice([20, 50, 80]))))
    cases += _oncem_cases(rng, 160 if tier == "quick" else 4000, "oncem")
    cases += _nest_cases(rng, 2 if tier == "quick" else 20, "nest")
    cases += [V.Case("mutexreal-%d" % i, ["mutexreal 1"]) for i in range(2 if tier == "quick" else 6)]
    cases += _ref_boundary_cases(rng, 4 if tier == "quick" else 12, "refb")
    cases += _atomics_cases(rng, 60 if tier == "quick" else 1200, 3000 if tier == "quick" else 30000)
    return cases


def search(rng, diverging, tier):
    out = []
    for i in range(3000):
        kind = rng.choice(["spin", "sync", "sync", "mutex", "try"])
        fs, fw = (rng.choice([0, 30, 60]), rng.choice([0, 30])) if kind == "sync" else (0, 0)
        out.append(_mk("search-lock-%d" % i, "lock %s %d %d" % (kind, rng.range(2, 4), rng.range(1, 3)),
                       "rand %d %d %d 0 %d %d" % (rng.below(1 << 30), rng.choice([10, 30, 50, 80]), rng.choice([0, 20, 50]), fs, fw)))
    for i in range(1000):
        out.append(_mk("search-once-%d" % i, "once %d %d" % (rng.range(2, 4), rng.range(1, 3)),
                       "rand %d %d 0 0" % (rng.below(1 << 30), rng.choice([10, 50, 80]))))
    for i in range(2000):
        n = rng.range(2, 4)
        scripts = _ref_scripts(rng, n, 8 if i % 2 else 3)
        out.append(_mk("search-ref-%d" % i, "refcnt %d %s" % (rng.range(1, 3), " ".join(scripts)),
                       "rand %d %d 0 0" % (rng.below(1 << 30), rng.choice([10, 50, 80]))))
    out += _oncem_cases(rng, 1500, "search-oncem")
    out += _nest_cases(rng, 6, "search-nest")
    out += _ref_boundary_cases(rng, 10, "search-refb")
    out += _atomics_cases(rng, 400, 5000, "search-atomics")
    return out


def model_search(ctx):
    """The parameter obligation broke (a memory order was weakened): x86 under a serialised run cannot
    show the effect, so look for a history of the MODEL, with the parameters extracted from the code,
    in which the hand-over is unsound."""
    p = os.path.join(V.COQ, "gen", "Params_C04.v")
    txt = open(p).read()
    vals = []
    inv = {v: k for k, v in MO.items()}
    for field, _, _, _ in SITES:
        m = re.search(r"%s := (\w+)" % field, txt)
        v = m.group(1) if m else "MoNone"
        if _TIE:
            # the order the builtin really receives: the call-site order pushed through the macro body of atomic.h
            import atomic_tie as AT
            v = MO.get(AT.effective_order(_TIE, SITE_MACRO[field], inv.get(v, "none")), "MoNone")
        vals.append(v)
    cases = []
    for i, scen in enumerate(["lock spin 2 2", "lock sync 2 2", "once 2", "lock spin 3 1", "lock sync 3 1", "once 3", "once 2 2", "oncem 2 0 01 1"]):
        cases.append(V.Case("modelsearch-%d" % i, [scen, "params " + " ".join(vals), "explore %d 3000" % (ctx.seed + i)]))
    res = ctx.run_model(cases)
    for c in cases:
        r = res.get(c.name)
        if r and r["lines"] and r["lines"][0].startswith("FOUND"):
            lines = list(c.lines[:2]) + r["lines"]
            return (V.Case(c.name, lines), "model history (memory orders that reach the builtins, call-site orders pushed through atomic.h: %s): %s" % (
                " ".join(vals), r["lines"][0][6:]))
    return None


def model_cases(cases, impl_results):
    out = []
    for c in cases:
        r = impl_results.get(c.name)
        lines = list(c.lines) + ["TRACE"] + (list(r["lines"]) if r else [])
        out.append(V.Case(c.name, lines, c.meta))
    return out


# ---------------------------------------------------------------------------
# independent monitor (does not use the Coq model)

def monitor(case, lines):
    scen = case.lines[0].split()
    if scen[0] == "lock" and scen[1] in ("nest", "nesttry"):
        return _mon_nest(scen, lines)
    if scen[0] == "mutexreal":
        return _mon_mutexreal(scen, lines)
    for ln in lines:
        if ln.startswith("DEADLOCK") or ln.startswith("LIVELOCK"):
            return "scheduler reported %s" % ln
    if scen[0] == "lock":
        return _mon_lock(scen, lines)
    if scen[0] in ("once", "oncem"):
        return _mon_once(scen, lines)
    if scen[0] == "refcnt":
        return _mon_ref(scen, lines)
    if scen[0] in ("atomics", "atomics2"):
        return _mon_atomics(scen, lines)
    return None


def _wrap(bits, x):
    lo = -(2 ** (bits - 1))
    return (x - lo) % (2 ** bits) + lo


def _mon_atomics(scen, lines):
    """value semantics of the muggle_atomic_* macros, written down independently of the Coq model"""
    if not lines or lines[-1] != "F atomics":
        return "smoke run did not finish: %r" % (lines[-1:] or None)
    if scen[0] == "atomics2":
        n = int(scen[2])
        want = "A2 fadd=%d fsub=0 cass=%d casw=%d lock=%d xchg=0" % (2 * n, 2 * n, 2 * n, 2 * n)
        if lines[0] != want:
            return "two threads, %d iterations each of every muggle_atomic_* read-modify-write: got %r, expected %r" % (n, lines[0], want)
        return None
    variant, cell = scen[1], int(scen[2])
    bits = AT_BITS.get(variant)
    if bits is None:
        return None
    cell = _wrap(bits, cell)
    outs = [ln for ln in lines if ln.startswith("A ")]
    if len(outs) != len(scen) - 3:
        return "%d result lines for %d operations" % (len(outs), len(scen) - 3)
    for tok, ln in zip(scen[3:], outs):
        w = tok.split(":")
        a = [int(x) for x in w[1:]]
        res, exp = 0, 0
        before = cell
        if w[0] == "ld":
            res = cell
        elif w[0] == "st":
            cell = _wrap(bits, a[0])
        elif w[0] == "xc":
            res, cell = cell, _wrap(bits, a[0])
        elif w[0] in ("cs", "cw"):
            if cell == a[0]:
                res, exp, cell = 1, a[0], _wrap(bits, a[1])
            else:
                res, exp = 0, cell
        elif w[0] == "fa":
            res, cell = cell, _wrap(bits, cell + a[0])
        elif w[0] == "fs":
            res, cell = cell, _wrap(bits, cell - a[0])
        elif w[0] == "ts":
            res, cell = (1 if cell == 0 else 0), 1
        elif w[0] == "cl":
            cell = 0
        want = "A %s res=%d exp=%d cell=%d" % (tok, res, exp, cell)
        if ln != want:
            return "atomic.h (%s cell holding %d): operation %s gave %r, the operation's semantics is %r" % (variant, before, tok, ln, want)
    return None


def _mon_lock(scen, lines):
    n, it = int(scen[2]), int(scen[3])
    inside = None
    enters = 0
    for ln in lines:
        w = ln.split()
        if w[0] == "R":
            if w[2] == "enter":
                if inside is not None or len(w) > 3:
                    return "two holders at once: thread %s entered the critical section while thread %s was inside" % (w[1], inside)
                inside = w[1]
                enters += 1
            elif w[2] == "exit":
                if inside != w[1]:
                    return "exit by thread %s while holder is %s" % (w[1], inside)
                inside = None
    f = [ln for ln in lines if ln.startswith("F ")]
    if not f:
        return "no summary line"
    m = re.match(r"F counter=(\d+) overlaps=(\d+)", f[-1])
    if not m:
        return "bad summary %r" % f[-1]
    if int(m.group(2)) != 0:
        return "harness saw %s overlapping critical sections" % m.group(2)
    if int(m.group(1)) != n * it or enters != n * it:
        return "lost update: counter=%s after %d critical sections (expected %d)" % (m.group(1), enters, n * it)
    return None


def _mon_nest(scen, lines):
    """mutex whose owner (thread 0) locks it again inside the critical section.  Whatever the nested lock does,
    nobody else may get in while thread 0 is inside; a DEADLOCK is the documented outcome exactly when thread 0
    is parked in the nested lock (default pthread mutex) and everybody else is blocked on the mutex or done."""
    inside, nested, dead = None, None, None
    exits = 0
    for ln in lines:
        w = ln.split()
        if ln.startswith("LIVELOCK"):
            return "scheduler reported %s" % ln
        if ln.startswith("DEADLOCK"):
            dead = ln
        elif w[0] == "R" and w[2] == "enter":
            if inside is not None or len(w) > 3:
                return ("two holders at once: thread %s entered the critical section while thread %s was inside%s" % (
                    w[1], inside, " (its nested lock returned OK and its single unlock released the mutex)" if nested == "ok" and inside == "0" else ""))
            inside = w[1]
        elif w[0] == "R" and w[2] == "exit":
            if inside != w[1]:
                return "exit by thread %s while holder is %s" % (w[1], inside)
            inside = None
            exits += 1
        elif w[0] == "R" and w[2] == "nested":
            nested = w[3]
    f = [ln for ln in lines if ln.startswith("F ")]
    m = re.match(r"F counter=(\d+) overlaps=(\d+)", f[-1]) if f else None
    if not m:
        return "no summary line"
    if int(m.group(2)) != 0:
        return "harness saw %s overlapping critical sections" % m.group(2)
    if int(m.group(1)) != exits:
        return "lost update: counter=%s after %d critical sections" % (m.group(1), exits)
    if dead:
        if nested is None and inside == "0" and "T0:mutex" in dead.split():
            return None         # the owner is parked in its own nested lock: what a default mutex does
        return "scheduler reported %s" % dead
    return None


def _mon_mutexreal(scen, lines):
    """real pthread run of muggle_mutex_*: a line that says something impossible for a mutex is a violation; an
    'inconclusive' line (thread creation / timing) is a harness matter and never one"""
    if not lines or lines[-1] != "F mutexreal":
        return "real-pthread mutex run did not finish: %r" % (lines[-1:] or None)
    for ln in lines:
        if "inconclusive" in ln:
            V.log("C04 mutexreal: %s (harness timing, not a verdict)" % ln)
            continue
        if ln == "M trylock held ACQUIRED":
            return "muggle_mutex_trylock returned OK on a mutex another thread holds"
        if "OK-WHILE-HELD" in ln:
            return ("muggle_mutex_lock returned OK to the owner's nested call while the first level is held" if "nested" in ln
                    else "muggle_mutex_lock returned OK while another thread holds the mutex")
        if ln in ("M init failed", "M lock free err", "M trylock free refused") or ln.endswith("then err unlock ok") or ln.endswith("unlock err"):
            return "muggle_mutex on a free mutex: %s" % ln[2:]
    return None


def _mon_once(scen, lines):
    if scen[0] == "oncem":
        nf, n = int(scen[1]), sum(len(sc) for sc in scen[2:])
    else:
        nf, n = 1, int(scen[1]) * (int(scen[2]) if len(scen) > 2 else 1)     # racers x calls per racer
    begun, ended = [0] * nf, [0] * nf
    rets = 0
    for ln in lines:
        w = ln.split()
        if w[0] == "R":
            if w[2] == "func-begin":
                begun[int(w[3])] += 1
            elif w[2] == "func-end":
                ended[int(w[3])] += 1
            elif w[2] == "ret":
                rets += 1
                f = int(w[3])
                if ended[f] != 1:
                    return "call_once on flag %d returned to thread %s before that flag's function run completed" % (f, w[1])
                if w[4] != "done=1":
                    return "caller %s returned from flag %d without seeing the function's effect (%s)" % (w[1], f, w[4])
    for f in range(nf):
        if begun[f] != 1 or ended[f] != 1:
            return "function of flag %d ran %d times (completed %d)" % (f, begun[f], ended[f])
    if rets != n:
        return "%d of %d calls returned" % (rets, n)
    return None


def _mon_ref(scen, lines):
    init = int(scen[1])
    if init <= 0:
        return None if lines and lines[0] == "F refinit -1" else "init with %d must fail" % init
    cur = init
    last_des = {}
    last_obs = {}
    zero_seen = 0
    scripts = scen[2:]
    retains = sum(sc.count("r") for sc in scripts)
    releases = sum(sc.count("d") for sc in scripts)
    done = 0
    for ln in lines:
        w = ln.split()
        if w[0] == "E" and w[2] == "cass" and w[3] == "ref":
            obs, des, ok = int(w[5]), int(w[6]), int(w[7])
            if ok == 1:
                if obs != cur:
                    return "CAS succeeded on %d while counter is %d" % (obs, cur)
                if cur == 0:
                    return "counter left zero (0 -> %d)" % des
                if abs(des - obs) != 1:
                    return "counter step %d -> %d" % (obs, des)
                cur = des
                last_des[w[1]] = des
                last_obs[w[1]] = obs
                if des == 0:
                    zero_seen += 1
        elif w[0] == "R" and w[2] in ("retain", "release"):
            v = int(w[3])
            if v == -1:
                if cur != 0:
                    return "%s refused (-1) while the counter is %d" % (w[2], cur)
            else:
                if last_des.get(w[1]) != v:
                    return "%s returned %d but its successful CAS wrote %s" % (w[2], v, last_des.get(w[1]))
                if v != last_obs[w[1]] + (1 if w[2] == "retain" else -1):
                    return "%s moved the counter %d -> %d" % (w[2], last_obs[w[1]], v)
                last_des.pop(w[1], None)
            done += 1
    if zero_seen > 1:
        return "%d releases observed zero" % zero_seen
    if done == retains + releases and releases >= init + retains and (zero_seen != 1 or cur != 0):
        # exactly one: with that many releases the counter must reach zero, once
        return "%d releases for initial value %d and %d retains, all operations returned, but %d release(s) observed zero (counter %d)" % (
            releases, init, retains, zero_seen, cur)
    f = [ln for ln in lines if ln.startswith("F ref=")]
    if not f or int(f[-1][6:]) != cur:
        return "final counter %s differs from the linearised value %d" % (f[-1] if f else None, cur)
    return None


def nontrivial_key(case, lines):
    txt = "\n".join(lines)
    scen = case.lines[0].split()[0]
    if scen == "lock" and (" tas lock acq 1 " in txt or "casw lock" in txt and (" 1 1 0" in txt or " 0 1 2" in txt) or "fwait" in txt or "yield" in txt):
        return hash(txt)
    if scen == "lock" and case.lines[0].split()[1] == "mutex" and txt.count("mlock") > 1:
        return hash(txt)
    if scen in ("once", "oncem") and " 1 0\n" in txt + "\n" and "cass flag" in txt:
        return hash(txt)
    if scen == "lock" and case.lines[0].split()[1] in ("nest", "nesttry"):
        return hash(txt)
    if scen == "mutexreal":
        return hash(case.name)
    if scen == "refcnt" and (" -1" in txt or re.search(r"cass ref \w+ -?\d+ -?\d+ 0", txt)):
        return hash(txt)
    if scen == "atomics2" or (scen == "atomics" and re.search(r"A c[sw]:\S+ res=0 ", txt)):
        return hash(case.lines[0] + txt)
    return None


def tally(dist, case, lines):
    scen = case.lines[0].split()
    k = scen[0] + ("-" + scen[1] if scen[0] in ("lock", "atomics") else "")
    dist[k] = dist.get(k, 0) + 1
    if scen[0] == "lock" and scen[1] in ("nest", "nesttry") and any(ln.startswith("DEADLOCK") for ln in lines):
        dist["nested_lock_deadlock_as_documented"] = dist.get("nested_lock_deadlock_as_documented", 0) + 1
    if scen[0] == "mutexreal" and any("inconclusive" in ln for ln in lines):
        dist["mutexreal_inconclusive"] = dist.get("mutexreal_inconclusive", 0) + 1
    if scen[0] == "once" and len(scen) > 2 and int(scen[2]) > 1:
        dist["once_repeated_calls"] = dist.get("once_repeated_calls", 0) + 1
    if scen[0] == "refcnt" and int(scen[1]) > 1000:
        dist["refcnt_boundary_init"] = dist.get("refcnt_boundary_init", 0) + 1
    dist["events"] = dist.get("events", 0) + sum(1 for ln in lines if ln.startswith("E "))
    for ln in lines:
        if ln.startswith("E ") and ln.endswith(" 0 1 2"):
            dist["spurious_cas"] = dist.get("spurious_cas", 0) + 1
        if " fwait " in ln and ln.endswith(" 1"):
            dist["futex_sleeps"] = dist.get("futex_sleeps", 0) + 1


MANIFEST = {
    "level_text": ("Coq theorems over executable interleaving models (arbitrary number of threads, every schedule, "
                   "spurious weak-CAS failures included) of spinlock, synclock, mutex/trylock client, call_once (any number of "
                   "calls per racer) and ref_cnt: mutual exclusion, visibility of the previous holder's writes (release/acquire "
                   "views, memory orders re-extracted from the code each run and pushed through the macro bodies of atomic.h as "
                   "gcc sees them), call_once exactly-once/no-early-return, counter linearizability with saturation at zero, "
                   "exactly one release observing zero when enough releases are made, no signed overflow within the stated range; "
                   "atomic.h macro bodies and the scheduler hooks tied by a GIMPLE probe (atomic_macros_are_the_hooked_builtins) "
                   "and an unhooked smoke run; retain/release loop bodies re-translated from the C text.  Tie: the real code runs under a deterministic scheduler "
                   "(hooked atomics, emulated futex/mutex) and every trace is replayed on the extracted model; an "
                   "independent monitor checks overlap / once / counter chain on the traces."),
    "design_ref": "DESIGN.md sections 4.2, 4.3, 6/C04",
    "level_note": ("Trusted: Coq kernel, extraction, vsched scheduler and its futex/mutex semantics, SC+views memory model "
                   "as stand-in for C11 (DRF-SC assumed); weak-memory effects exist only in the model."),
    "technique": "Coq invariant proofs over all interleavings (N threads) + deterministic-scheduler trace acceptance by the extracted model",
}
