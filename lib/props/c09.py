"""C09 — AVL tree, hash table and trie refine a map; the AVL tree stays balanced: plugin for bin/check."""
import itertools
import vcommon as V

ID = "C09"
COQ_DIRS = ["C09"]
MODEL_BASE = "c09_model"
OCAML_DRIVER = "ocaml/c09_driver.ml"
C_DRIVER = "harness/drivers/c09_driver.c"
REPO_SOURCES = ["muggle/c/dsaa/avl_tree.c", "muggle/c/dsaa/hash_table.c", "muggle/c/dsaa/trie.c",
                "muggle/c/memory/memory_pool.c"]
HEADER_LINES = 1
LINK_FLAGS = ["-Wl,--wrap=malloc"]       # the driver's malloc switch ("failat j": allocation failure inside insert / put)
CASE_TIMEOUT = 5.0
SHRINK_BUDGET = 160
RULE = ("AVL: every insertion order of 1..7 distinct keys (each followed by a removal order), every removal order "
        "from every AVL tree of <= 6 nodes (quick; <= 7 nodes thorough, sampled per tree in quick; 8 nodes sampled), EVERY AVL shape of "
        "<= 10 nodes (quick; <= 12 thorough) x every key removed first (rest in random order) and x every gap "
        "receiving a new key, sampled orders of 8 and 9 keys, seeded random long mixed histories with duplicates, extreme int64 keys, with node pool (capacity 2, "
        "forced to grow) and without; hash table: random histories over table sizes 8/11/16/default 10007 with an "
        "all-collide hash, a 4-bucket hash, identity, multiplicative and the library's default string hash; trie: random "
        "histories over byte strings drawn from 1..255 (shared prefixes, empty key, bytes >= 0x80) and a full-alphabet "
        "sweep; EVERY removal (tree, table, trie) with a per-operation choice of free callbacks (key and value separately; NULL "
        "= borrowed data released by the caller) and an ownership line counting the callback calls; comparators whose result has "
        "the magnitude -1/0/1, the clamped difference, INT_MIN/INT_MAX or +-256 (per case); large trees by quiet operations with a "
        "full dump + structure walk every N/8 operations (300/450/640 nodes quick; up to 5000 thorough, node pool forced to grow "
        "from 4 / 64); trie keys of 20..80 bytes in every 16th random case; string-keyed table with bytes >= 0x80 in the keys "
        "(kind defb) and table sizes 11/13/1000/10007 with 64-bit hashes; muggle_hash_table_clear (any callbacks) followed by "
        "reuse; ALLOCATION FAILURE as a case-controlled event: node pools that cannot grow (MUGGLE_MEMORY_POOL_CONSTANT_SIZE, "
        "1..18 nodes) and a malloc switch (--wrap=malloc, 'failat j' = the j-th malloc inside the next insert / put fails): for "
        "the trie the failure of the j-th new node of a key with L new nodes, every 1 <= j <= L <= 6, by both mechanisms, each "
        "followed by inserts of other keys (which would receive nodes released by a roll-back), lookups of every prefix and of the "
        "crossed-over keys, removals and a retry; random histories of all three structures with exhausted pools / armed switch.  "
        "A case is non-trivial when it contains an accepted insertion and a later accepted removal, rejected "
        "duplicate or successful lookup; distinct = distinct script text")
TRUSTED_BASE = [
    "pointer structure: heap-level models (ModelHeap.v) of the AVL tree (left/right/parent) and the hash chains "
    "(prev/next, sentinel heads) are proved to refine the functional models and to keep the links consistent for "
    "every history; the heap models themselves are hand transcriptions of the C pointer "
    "assignments, tied to the code by the driver's walk of the real nodes after every operation and by running the heap "
    "model alongside in the model driver; trie child arrays are a finite map in the model; malloc / memory-pool "
    "allocation is assumed to succeed and hands out fresh ids (failure is property C18; free is not modelled); the "
    "comparator is the total order on int64 (strcmp for the string-keyed table)",
]
ASSUMPTIONS = [
    "second tie: clang 14's AST of the three .c files with -DNDEBUG (MUGGLE_ASSERT empty); plain char is signed (x86-64)",
    "comparator is a strict total order consistent with the hash (keys are int64 / decimal strings in the drivers)",
    "stored values are non-NULL (a NULL value is indistinguishable from 'absent' in the trie API)",
    "trie keys are NUL-terminated byte strings (bytes 1..255); allocation succeeds unless the case injects a failure (constant-size "
    "pool exhausted, malloc switch); clean-up of a failed call (no leak, C18) is observed only as 'LEAK user blocks' / ASan",
    "remove is given a node obtained from find on the same container (the documented usage)",
    "a NULL free callback means the data is borrowed: the library must neither release nor keep it; the driver releases it",
    "the comparator is any function whose SIGN is the order (its magnitude is varied per case)",
]
EVIDENCE_NOTES = [
    "PROVED in Coq, unbounded (coverage.theorems).  Functional models: avl_inv_insert, avl_inv_remove, avl_inv_history "
    "(search-tree order + recorded balance = height(right) - height(left) + |balance| <= 1 at every node, preserved by "
    "insert with all four rotation cases and by remove with swap-to-leaf, retracing, rebalance and early stop); "
    "avl_refines_map / avl_duplicate_rejected / avl_insert_exact / avl_remove_exact; avl_check_sound; ht_refines_map for "
    "EVERY hash function and table size, ht_duplicate_rejected; trie_refines_map over byte strings 1..255 incl. the empty "
    "key, prefixes, bytes >= 0x80 (repaired index), trie_remove_present_true, trie_high_bytes, "
    "trie_unrepaired_index_out_of_bounds",
    "PROVED in Coq at HEAP level (ModelHeap.v: node ids, left/right/parent and prev/next fields, the C functions' pointer "
    "assignments in order): havl_refines_map / havl_refines_map_from: EVERY history of insert / find / remove run by the "
    "pointer programs never gets stuck, answers like the functional model and leaves a heap that represents the "
    "functional model's tree; havl_parent_links_consistent (parent(child(x)) = x for every node, root's parent NULL, "
    "wherever the representation holds); havl_rebalance_refines (+ havl_rebalance_is_model): the four rotations and "
    "rebalance rewrite left/right/parent/root exactly as the functional rotation requires — dropping a parent "
    "assignment in the heap model breaks this proof (tried); havl_insert_refines (descent, linking of the new node, "
    "retracing upward through the parent links, rebalance); havl_remove_refines: removal of an ARBITRARY node — the "
    "key/value swap loop down to a leaf picks exactly the data the functional rem picks (predecessor first, else "
    "successor), then unlink and retracing with rotations continuing upward (havl_remove_retrace_refines, "
    "havl_remove_leaf_refines); hht_refines_map: EVERY history of put/find/remove on the chained table with sentinel "
    "heads and prev/next links, any hash function; hht_links_consistent: next->prev = node, first->prev = head, every "
    "node in the bucket of its key.  Nothing is left _partial.  The heap models are additionally run alongside in the "
    "model driver on every case of <= 48 operations ('chk FAIL heap-model ...' if they get stuck, answer differently, "
    "do not read back as the functional tree / bucket, or have an inconsistent link)",
    "trie at heap level: not done (not cheap: the node type is nested through the children map, so a representation "
    "predicate with footprints needs custom recursion; the trie has no back links, so the heap level would only add "
    "absence of sharing between children arrays, which the driver's walk (dump of every stored key) and ASan observe)",
    "ONLY covered by the differential run + monitor + driver walk (not by theorems): that the Gallina models equal the C "
    "code (the tie itself: every result and the pre-order key=value:balance dump of the real tree compared after every "
    "operation; the driver walks parent links / chain links / bucket membership of the REAL nodes after every "
    "operation); the memory-pool variant (node recycling, pool growth); release of user keys/values through the free "
    "callbacks (ASan + live-block count at destroy); the int8_t width of the balance field",
    "SECOND TIE (translator, DESIGN.md 4.4; coq/gen/Params_C09.v regenerated on every run, obligations gen_*_matches_model): "
    "lib/props/c09_slice.py executes ONE SEGMENT of a public function symbolically over clang's JSON AST (file-local calls "
    "inlined, pointer fields read lazily as named objects, NULL tests / pointer comparisons as facts, tests that do not "
    "influence the outcome merged away) and lib/props/c09_ties.py names inputs and outcomes: AVL — one iteration of the "
    "retracing loops of insert and of remove INCLUDING rebalance and the four rotations (new balance fields of the node, its "
    "children and inner grandchildren, which rotation, continue / stop, side carried upward; the two side codes are read off "
    "the sliced code), the comparator dispatch of find, one descent step of insert (duplicate / descend / link with parent "
    "link, balance 0 and side), the entry of remove (swap on / tree emptied / unlink side and start of retracing); hash table — "
    "bucket index of find and put (hash % table_size), one chain step of find and put (duplicate rejected before linking, new "
    "node linked at the head with prev/next/key/value), init (NULL comparator, capacity >= 2^31, table size < 8 -> 10007, node "
    "pool iff capacity > 0); trie — the empty-key slot children[0], end-of-key test, child index = (unsigned char) of the key "
    "byte at the read and at the store, array size 256.  Each definition is proved equal to a named decision function of "
    "Model.v by shape-independent case analysis + lia under time limits (C09/ProofsGen.v), and the functional and heap-level "
    "models are proved to factor through these functions (avl_*_factors, havl_*_factors, avl_grow_is_ins_step, "
    "avl_shrink_is_rem_step, ht_*/trie_* factors).  Anything the slicer cannot follow is a comment in Params_C09.v and breaks "
    "the obligation (tried: 29 semantic edits all break the targeted obligation; the stored rewrites C09-A..D and three "
    "hand-made ones stay green)",
    "still only covered by the differential run: s_muggle_default_str_hash_func (a loop over a char*; 'hash k' is compared "
    "with Model.str_hash), the pointer splicing itself (proved on ModelHeap.v, compared by the driver walk), assumptions of "
    "the slicer: malloc / pool allocation succeed, distinct access paths below a node denote distinct nodes, "
    "parent->right == node iff not parent->left == node for a linked node",
    "DEFECT found on the unchanged tree by this check (VIOLATION with replay, see corpus/C09/trie-high-byte-*.case): "
    "trie.c indexed children[(int)(*p)] with a signed char; repaired by fixes/C09-trie-unsigned-index.patch (applied), "
    "the model and trie_refines_map describe the repaired code",
    "FREE CALLBACKS / CLEAR (audit follow-up): Model.v has operations with the caller's choice of callbacks (opf, *_step_cb, "
    "runf) and ht_clear_cb; PROVED for every choice (ProofsCb.v): avl_refines_map_cb, ht_refines_map_cb, trie_refines_map_cb "
    "(every history answers like the reference map, 'released through the callback' exactly when the key was bound and the "
    "callback was passed, and the state equals the callback-free model's), avl_remove_exact_for_every_callback_choice, "
    "ht_clear_then_reuse (after any history clear empties the table, one callback call per stored entry iff passed, every later "
    "history is answered like a fresh table).  Tied to the code (a) by the drivers: counting callbacks, the 'own' line after every "
    "removal, ASan on the caller's own release when NULL was passed, and (b) by the slicer: gen_ht_remove_matches_model, "
    "gen_trie_remove_matches_model and the callback part of gen_avl_rem_enter_matches_model (the node is unlinked / its data "
    "cleared whatever the callbacks are; a guard on the callbacks in front of the unlink makes the outcome depend on a fact the "
    "tie does not have and breaks the obligation).  The audit's edit E2 (node->data = NULL moved under if (func_free)) and the "
    "sibling guards in hash_table_remove / avl erase_node are reported with a failing input (corpus-*-null-callback*)",
    "ALLOCATION FAILURE (round-6 seed C09-12): Model.v has operations with an allocation oracle (opa, *_step_o; the trie's "
    "ins_walk_o leaves the nodes created before the failing allocation in place, as the unchanged code does); PROVED "
    "(ProofsAlloc.v): avl_/ht_refines_map_under_alloc_failure (a failed insert reports failure and changes nothing; every "
    "history answers like the map), trie_insert_under_alloc_failure (success = the failure-free insert, failure leaves EVERY "
    "lookup unchanged, a budget covering the key cannot fail), trie_refines_map_under_alloc_failure (histories: the map that "
    "follows the reported results; nothing fails where no failure is injected).  The model driver derives the oracle from the "
    "case (pool capacity minus the model's node count; 'failat j'), so the differential run pins WHICH insert fails; the "
    "monitor accepts a reported failure only where one was injected and then requires the map view for every later operation.  "
    "The heap-level models and the slicer ties assume successful allocation (the failure branches are not sliced)",
    "observation (not a violation, outside the operation alphabet insert/find/remove): muggle_avl_tree_clear releases the nodes "
    "but leaves tree->root dangling on the unchanged tree, so any operation after it is a use-after-free; the drivers therefore "
    "do NOT issue clear on the tree.  muggle_hash_table_clear + reuse is driven and modelled (passes on the unchanged tree); the "
    "trie has no clear.  Heap-level (pointer) model of clear: not done",
    "return value of muggle_trie_remove (true iff the node exists, even with no data) is compared with the model but "
    "not constrained by the monitor for absent keys: the header leaves it unspecified (theorem side: [obs])",
    "observation (not a violation): muggle_trie_remove calls func_free(pool, NULL) for a key that is absent but whose "
    "node exists (prefix of another key / already removed); muggle_trie_insert overwrites without releasing the old value",
]

BIG = 1 << 62


# --------------------------------------------------------------------------
# second tie (DESIGN.md 4.4): the decision content of the three files, sliced out of the C text of this run
# by lib/props/c09_slice.py (symbolic execution of one segment of a public function over clang's JSON AST) as
# specified in lib/props/c09_ties.py; coq/C09/ProofsGen.v proves each definition equal to the model's named
# decision function (Model.v) by shape-independent case analysis + lia.

def gen_params(ctx):
    import os
    V.gen_config_header()
    from props import c09_ties as T
    flags = ["-std=gnu11", "-I" + V.REPO, "-I" + V.GEN_INC, "-DNDEBUG"]
    lines = ["(* generated by lib/props/c09.py (c09_slice.py / c09_ties.py) from muggle/c/dsaa/{avl_tree,hash_table,trie}.c",
             "   of this run; do not edit.  A tie that could not be sliced is a comment with the reason: the",
             "   obligation of C09/ProofsGen.v that mentions its definition then fails to compile. *)",
             "From Coq Require Import ZArith Bool.", "From MV Require Import Lib.Leaf.",
             "Local Open Scope Z_scope.", ""]
    try:
        lines += T.generate(V.REPO, flags)
    except Exception as e:       # a broken slicer must break the obligations, not the machinery
        lines.append("(* slicer failure: %s: %s *)" % (type(e).__name__, str(e)[:300].replace("*)", "* )")))
    return "\n".join(lines) + "\n"


# --------------------------------------------------------------------------
# generator-side textbook AVL (height based), used ONLY to group insertion
# orders by the tree they produce; it is not an oracle.

def _h(t):
    return t[3] if t else 0


def _mk(l, k, r):
    return (l, k, r, 1 + max(_h(l), _h(r)))


def _bal(t):
    l, k, r, _ = t
    if _h(l) > _h(r) + 1:
        if _h(l[0]) < _h(l[2]):
            ll, lk, lr, _ = l
            l = _mk(_mk(ll, lk, lr[0]), lr[1], lr[2])
        return _mk(l[0], l[1], _mk(l[2], k, r))
    if _h(r) > _h(l) + 1:
        if _h(r[2]) < _h(r[0]):
            rl, rk, rr, _ = r
            r = _mk(rl[0], rl[1], _mk(rl[2], rk, rr))
        return _mk(_mk(l, k, r[0]), r[1], r[2])
    return t


def _ins(t, x):
    if not t:
        return _mk(None, x, None)
    l, k, r, _ = t
    if x < k:
        return _bal(_mk(_ins(l, x), k, r))
    return _bal(_mk(l, k, _ins(r, x)))


def _sig(t):
    return "." if not t else "(%s%d%s)" % (_sig(t[0]), t[1], _sig(t[2]))


def _shape_reps(n):
    """one insertion order per distinct tree reachable by inserting a permutation of 1..n"""
    reps = {}
    for p in itertools.permutations(range(1, n + 1)):
        t = None
        for x in p:
            t = _ins(t, x)
        reps.setdefault(_sig(t), p)
    return [reps[s] for s in sorted(reps)]


_shape_memo = {}


def _avl_shapes(n):
    """every AVL shape with n nodes as (left, right) nested tuples, with its height"""
    if n in _shape_memo:
        return _shape_memo[n]
    if n == 0:
        res = [(None, 0)]
    else:
        res = []
        for i in range(n):
            for l, hl in _avl_shapes(i):
                for r, hr in _avl_shapes(n - 1 - i):
                    if abs(hl - hr) <= 1:
                        res.append(((l, r), 1 + max(hl, hr)))
    _shape_memo[n] = res
    return res


def _bfs_keys(shape, scale=10):
    """keys scale*1..scale*n assigned in-order; returned in level order (inserting them in
    this order builds the shape without any rotation)"""
    cnt = [0]

    def label(t):
        if t is None:
            return None
        l = label(t[0])
        cnt[0] += 1
        k = cnt[0] * scale
        return (l, k, label(t[1]))
    lt = label(shape)
    out, level = [], [lt]
    while level:
        nxt = []
        for t in level:
            if t is not None:
                out.append(t[1])
                nxt += [t[0], t[2]]
        level = nxt
    return out


# --------------------------------------------------------------------------
# cases

CMPS = ["sgn", "diff", "big", "m256"]


def _avl_case(name, cap, ops, cmpk=None, const=False):
    return V.Case(name, ["avl %d" % cap + (" " + cmpk if cmpk else "") + (" const" if const else "")] + ops, {"kind": "avl"})


def _flags(rng, n=2):
    """free callbacks of one removal: mostly both passed, else an explicit choice (0 = NULL: borrowed data)"""
    if rng.chance(3, 5):
        return ""
    return "".join(" %d" % rng.below(2) for _ in range(n))


def _perm_ops(ins_order, rem_order, scale=10, finds=True):
    ops = ["ins %d %d" % (k * scale, 1000 + k) for k in ins_order]
    for j, k in enumerate(rem_order):
        ops.append("rem %d" % (k * scale))
        if finds and j == 0 and len(ins_order) > 1:
            ops.append("find %d" % (ins_order[0] * scale))
    return ops


def _rand_avl(rng, name, R, nops, cap, extreme=False, fail=False):
    """fail: allocation failures -- with a pool it cannot grow (const), without one the malloc switch is set
    before some inserts"""
    ops, vi = [], 0
    keys = list(range(-R // 2, R - R // 2))
    if extreme:
        keys = [-(1 << 63), -(1 << 63) + 1, -BIG, -1, 0, 1, BIG, (1 << 63) - 2, (1 << 63) - 1] + keys[:R]
    for _ in range(nops):
        k = rng.choice(keys)
        c = rng.below(100)
        if c < 45:
            vi += 1
            if fail and cap == 0 and rng.chance(1, 4):
                ops.append("failat 1")
            ops.append("ins %d %d" % (k, 100000 + vi))
        elif c < 80:
            ops.append("rem %d%s" % (k, _flags(rng)))
        else:
            ops.append("find %d" % k)
    return _avl_case(name, cap, ops, rng.choice(CMPS + [None, None]), const=(fail and cap > 0))


def _big_avl(rng, name, N, cap):
    """a tree of N nodes and more: quiet operations (result + ownership line only) with a full dump, BST /
    balance / parent-link walk after every ~N/8 operations"""
    keys = rng.shuffle(range(1, 2 * N + 1))[:N]
    ops, every, cnt = [], max(8, N // 8), [0]

    def tick(op):
        ops.append(op)
        cnt[0] += 1
        if cnt[0] % every == 0:
            ops.append("check")
    for k in keys:
        tick("insq %d %d" % (k * 3, k + 7))
    ops.append("check")
    for k in rng.shuffle(keys)[:N // 2]:
        tick("remq %d%s" % (k * 3, _flags(rng)))
        if rng.chance(1, 6):
            tick("insq %d %d" % (k * 3 + 1, k))
    for k in rng.shuffle(keys)[:N // 4]:
        tick("insq %d %d" % (k * 3, k + 9))        # half of them duplicates
    ops.append("check")
    ops += ["find %d" % (keys[0] * 3), "rem %d 0 0" % (keys[1] * 3), "rem %d" % (keys[2] * 3)]
    return _avl_case(name, cap, ops, rng.choice(CMPS))


def _ht_case(name, cap, size, kind, ops, cmpk=None, const=False):
    return V.Case(name, ["ht %d %d %s" % (cap, size, kind) + (" " + cmpk if cmpk else "") + (" const" if const else "")] + ops,
                  {"kind": "ht"})


def _rand_ht(rng, name, cap, size, kind, R, nops, fail=False):
    ops, vi = [], 0
    keys = list(range(-R // 3, R - R // 3))
    if kind in ("id", "mul", "low"):
        keys += [-(1 << 63), (1 << 63) - 1, BIG + 8, BIG + 16]
    for i in range(nops):
        k = rng.choice(keys)
        c = rng.below(100)
        if c < 45:
            vi += 1
            if fail and cap == 0 and rng.chance(1, 4):
                ops.append("failat 1")
            ops.append("put %d %d" % (k, 500000 + vi))
        elif c < 75:
            ops.append("rem %d%s" % (k, _flags(rng)))
        elif c < 88:
            ops.append("find %d" % k)
        elif c < 92:
            ops.append("where %d" % k)
        elif c < 95:
            ops.append("hash %d" % k)
        elif c < 97:
            ops.append("clear%s" % _flags(rng))       # muggle_hash_table_clear, then the table is used again
        else:
            ops.append("dump")
    ops.append("dump")
    return _ht_case(name, cap, size, kind, ops, rng.choice(CMPS + [None, None]), const=(fail and cap > 0))


def _hex(bs):
    return "".join("%02x" % b for b in bs) if bs else "-"


def _trie_case(name, cap, ops, const=False):
    return V.Case(name, ["trie %d" % cap + (" const" if const else "")] + ops, {"kind": "trie"})


def _trie_alloc_family(rng, name, L, j, pool, alpha):
    """a key that needs L new nodes below a stored prefix; the allocation of the j-th of them fails (malloc switch,
    or a constant-size pool with exactly j-1 nodes left); then other keys are inserted (they would get nodes
    released by a roll-back), every prefix and the crossed-over keys are looked up, removals, a retry"""
    pre = tuple(rng.choice(alpha) for _ in range(2))
    tail = tuple(rng.shuffle(alpha)[:L]) if len(alpha) >= L else tuple(rng.choice(alpha) for _ in range(L))
    key = pre + tail
    other = tuple(b for b in rng.shuffle(alpha) if b not in (pre[0],))[:1] or (0x72,)
    q = rng.choice(alpha)
    ops = ["ins %s 1" % _hex(pre)]
    if not pool:
        ops.append("failat %d" % j)
    ops.append("ins %s 2" % _hex(key))
    ops += ["find %s" % _hex(key[:n]) for n in range(1, len(key) + 1)]
    ops += ["ins %s 3" % _hex(other), "find %s" % _hex(other)]
    ops += ["find %s" % _hex(key[:n]) for n in range(2, len(key) + 1)]
    part = key[:2 + max(0, j - 1)]
    ops += ["ins %s 4" % _hex(part + (q,)), "find %s" % _hex(other + (q,)), "find %s" % _hex(part + (q,)),
            "rem %s" % _hex(part + (q,)), "find %s" % _hex(other + (q,)), "find %s" % _hex(other),
            "ins %s 5" % _hex(other + (q,)), "find %s" % _hex(part + (q,)), "find %s" % _hex(pre),
            "ins %s 6" % _hex(key), "find %s" % _hex(key), "rem %s" % _hex(pre), "find %s" % _hex(key), "dump"]
    return _trie_case(name, (2 + j - 1) if pool else 0, ops, const=pool)


def _rand_trie(rng, name, cap, alphabet, maxlen, nops, fail=False):
    ops, vi = [], 0
    pool = []

    def newkey():
        n = rng.below(maxlen + 1)
        return tuple(rng.choice(alphabet) for _ in range(n))
    for _ in range(nops):
        c = rng.below(100)
        if pool and rng.chance(3, 5):
            k = rng.choice(pool)
            if rng.chance(1, 4):             # a prefix or an extension of a known key
                k = k[:rng.below(len(k) + 1)] if rng.chance(1, 2) else k + (rng.choice(alphabet),)
        else:
            k = newkey()
        pool.append(k)
        if c < 45:
            vi += 1
            if fail and cap == 0 and rng.chance(1, 4):
                ops.append("failat %d" % rng.range(1, 4))
            ops.append("ins %s %d" % (_hex(k), 700000 + vi))
        elif c < 70:
            ops.append("rem %s%s" % (_hex(k), _flags(rng, 1)))
        elif c < 96:
            ops.append("find %s" % _hex(k))
        else:
            ops.append("dump")
    ops.append("dump")
    return _trie_case(name, cap, ops, const=(fail and cap > 0))


ASCII = [0x61, 0x62, 0x63, 0x2f, 0x41]
EDGE = [1, 0x7e, 0x7f, 0x80, 0x81, 0xc3, 0xa9, 0xfe, 0xff]


def _corpus_files():
    import glob
    import os
    out = []
    for f in sorted(glob.glob(os.path.join(V.VERIF, "corpus", "C09", "*.case"))):
        c = V.Case.load(f)
        c.name = "corpusfile-" + c.name
        out.append(c)
    return out


def corpus_cases(ctx):
    return _corpus_files() + [
        _avl_case("corpus-avl-rl-rotation", 0, ["ins 10 1", "ins 30 2", "ins 20 3", "ins 40 4", "ins 25 5", "ins 22 6",
                                                 "rem 10", "rem 40", "find 22", "ins 22 9"]),
        _avl_case("corpus-avl-remove-chain", 2, _perm_ops((4, 2, 6, 1, 3, 5, 7), (4, 3, 2, 1, 5, 6, 7))),
        _ht_case("corpus-ht-collide", 0, 8, "zero", ["put 1 11", "put 2 12", "put 3 13", "put 2 99", "rem 2", "find 2",
                                                     "find 1", "find 3", "rem 3", "rem 1", "rem 1", "dump"]),
        _ht_case("corpus-ht-default-hash", 4, 3, "def", ["put 17 1", "put -17 2", "put 10024 3", "find 17", "rem 17",
                                                         "find -17", "put 17 4", "hash 17", "hash -17", "where 10024",
                                                         "where 5", "dump"]),
        _ht_case("corpus-ht-index", 0, 11, "mul", ["put 5 1", "put -5 2", "where 5", "where -5", "hash 5", "hash -5",
                                                   "put 16 3", "where 16", "rem 5", "where 5"]),
        _trie_case("corpus-trie-ascii-prefixes", 0, ["ins 6162 1", "ins 61 2", "ins - 3", "find 6162", "find 61", "find -",
                                                     "find 616263", "ins 6162 4", "rem 61", "find 61", "find 6162",
                                                     "rem -", "find -", "rem 7a", "dump"]),
        _trie_case("corpus-trie-high-bytes", 0, ["ins 80 1", "ins ff 2", "ins c3a9 3", "ins 7f80 4", "find 80", "find ff",
                                                 "find c3a9", "find c3", "rem ff", "find ff", "dump"]),
        _trie_case("corpus-trie-high-bytes-pool", 2, ["ins e4b8ad 1", "find e4b8ad", "ins e4b8 2", "rem e4b8ad", "dump"]),
        # allocation failure in the middle of a key: the third new node of "abxyz" (pool of 4 nodes that cannot grow /
        # malloc switch); the structure must go on answering like the map
        _trie_case("corpus-trie-alloc-fail-pool", 4, ["ins 6162 1", "ins 616278797a 2", "find 616278", "ins 72 3", "find 616278",
                                                      "find 72", "ins 61627871 4", "find 7271", "rem 61627871", "find 7271",
                                                      "find 6162", "dump"], const=True),
        _trie_case("corpus-trie-alloc-fail-malloc", 0, ["ins 6162 1", "failat 3", "ins 616278797a 2", "find 616278", "ins 72 3",
                                                        "find 616278", "find 72", "ins 61627871 4", "find 7271", "rem 61627871",
                                                        "find 7271", "ins 616278797a 5", "find 616278797a", "dump"]),
        _avl_case("corpus-avl-alloc-fail", 2, ["ins 1 1", "ins 2 2", "ins 3 3", "find 3", "ins 2 9", "rem 1", "ins 3 4", "find 3",
                                               "ins 1 5", "find 1"], const=True),
        _ht_case("corpus-ht-alloc-fail", 0, 8, "zero", ["put 1 1", "failat 1", "put 2 2", "find 2", "put 2 3", "failat 1", "put 1 9",
                                                        "find 1", "dump"]),
        # NULL free callbacks (borrowed data): the association must go all the same
        _trie_case("corpus-trie-null-callback", 0, ["ins 6162 1", "ins 61 2", "rem 61 0", "find 61", "rem 61 0", "rem 6162 1",
                                                    "find 6162", "ins 61 3", "rem 61", "dump"]),
        _avl_case("corpus-avl-null-callbacks", 2, ["ins 20 1", "ins 10 2", "ins 30 3", "ins 5 4", "rem 20 0 0", "find 20",
                                                   "rem 10 0 1", "rem 30 1 0", "rem 5", "rem 5 0 0", "ins 20 5", "find 20"], "diff"),
        _avl_case("corpus-avl-cmp-magnitudes", 0, ["ins 0 1", "ins 256 2", "ins -256 3", "ins 4294967296 4", "find 256",
                                                   "find 4294967296", "ins 256 9", "rem 0", "find -256",
                                                   "ins %d 5" % ((1 << 63) - 1), "ins %d 6" % (-(1 << 63)),
                                                   "find %d" % (-(1 << 63))], "m256"),
        _ht_case("corpus-ht-null-callbacks-clear", 2, 8, "zero", ["put 1 11", "put 2 12", "put 3 13", "rem 2 0 0", "find 2",
                                                                  "rem 1 0 1", "put 4 14", "clear 0 1", "find 3", "put 3 15",
                                                                  "put 1 16", "clear", "put 1 17", "dump"], "big"),
        _ht_case("corpus-ht-high-byte-strings", 0, 11, "defb", ["put 17 1", "put -17 2", "put 123456789 3", "hash 17",
                                                                "hash 123456789", "where -17", "find 17", "rem 17", "dump"]),
    ]


def generate(rng, tier):
    quick = tier == "quick"
    cases = []
    # --- AVL: every insertion order of n <= 7 keys, then one removal order
    for n in range(1, 8):
        for i, p in enumerate(itertools.permutations(range(1, n + 1))):
            rem = rng.shuffle(p)
            caps = (0, 2) if n <= 4 else ((0, 2)[i % 2],)
            for cap in caps:
                cases.append(_avl_case("avl-io-n%d-%d-c%d" % (n, i, cap), cap, _perm_ops(p, rem)))
    # --- AVL: every tree of n nodes x every removal order (n = 7 sampled in quick)
    for n in range(1, 8):
        for si, rep in enumerate(_shape_reps(n)):
            perms = list(itertools.permutations(range(1, n + 1)))
            if n == 7 and quick:
                perms = [perms[rng.below(len(perms))] for _ in range(70)]
            for j, rem in enumerate(perms):
                cap = (0, 2)[(j + si) % 2]
                cases.append(_avl_case("avl-ro-n%d-s%d-%d-c%d" % (n, si, j, cap), cap, _perm_ops(rep, rem, finds=False)))
    # --- AVL: EVERY AVL tree of n nodes (built by level-order insertion) x every key removed first
    #     (then the rest in random order), and x every gap receiving a new key
    for n in range(1, (11 if quick else 13)):
        for si, (shape, _) in enumerate(_avl_shapes(n)):
            keys = _bfs_keys(shape)
            build = ["ins %d %d" % (k, k + 1) for k in keys]
            for j, k in enumerate(sorted(keys)):
                rest = rng.shuffle([x for x in keys if x != k])
                cap = (0, 2)[(j + si) % 2]
                cases.append(_avl_case("avl-sh-n%d-s%d-rem%d" % (n, si, k), cap,
                                       build + ["rem %d" % k] + ["rem %d" % x for x in rest]))
            for g in range(n + 1):
                cases.append(_avl_case("avl-sh-n%d-s%d-ins%d" % (n, si, g), (0, 2)[(g + si) % 2],
                                       build + ["ins %d 7" % (10 * g + 5), "find %d" % (10 * g + 5), "ins %d 8" % (10 * g + 5)]))
    # --- AVL: every AVL tree of 8 nodes x sampled complete removal orders
    for si, (shape, _) in enumerate(_avl_shapes(8)):
        keys = _bfs_keys(shape)
        build = ["ins %d %d" % (k, k + 1) for k in keys]
        for j in range(25 if quick else 1200):
            cases.append(_avl_case("avl-ro-n8-s%d-%d" % (si, j), (0, 2)[(j + si) % 2],
                                   build + ["rem %d" % x for x in rng.shuffle(keys)]))
    # --- AVL: sampled orders of 8 and 9 keys, insert / remove all / re-insert
    for i in range(300 if quick else 6000):
        n = 8 if i % 2 == 0 else 9
        p = rng.shuffle(range(1, n + 1))
        ops = _perm_ops(p, rng.shuffle(p), finds=False) + _perm_ops(rng.shuffle(p)[:4], [], finds=False)
        cases.append(_avl_case("avl-io-n%d-r%d" % (n, i), (0, 3)[i % 2], ops))
    # --- AVL: random long mixed histories
    for i in range(160 if quick else 1000):
        R = rng.choice([3, 5, 8, 12, 16, 24, 40, 100])
        nops = rng.range(20, 260 if quick else 600)
        cases.append(_rand_avl(rng, "avl-rnd-%d" % i, R, nops, rng.choice([0, 0, 1, 2, 8]), extreme=(i % 10 == 0)))
    # ascending / descending runs, removal from both ends and from the middle
    for i, N in enumerate((33, 64, 100) if quick else (33, 64, 100, 257, 400)):
        asc = ["ins %d %d" % (k, k + 1) for k in range(N)]
        desc = ["ins %d %d" % (k, k + 1) for k in range(N, 0, -1)]
        mid = sorted(range(N), key=lambda k: abs(k - N // 2))
        cases.append(_avl_case("avl-asc-%d" % N, 0, asc + ["rem %d" % k for k in range(N)]))
        cases.append(_avl_case("avl-asc-desc-%d" % N, 4, asc + ["rem %d" % k for k in range(N - 1, -1, -1)]))
        cases.append(_avl_case("avl-desc-mid-%d" % N, 0, desc + ["rem %d" % (k + 1) for k in mid]))
    # --- allocation failure: trie, the j-th new node of a key with L new nodes, j = 1..L, by the malloc switch and by a
    #     constant-size pool with j-1 nodes left; tree and table: pools of 1..6 nodes that cannot grow, malloc switch
    for L in range(1, 7):
        for j in range(1, L + 1):
            for pool in (False, True):
                for rep_ in range(2 if quick else 6):
                    alpha = ASCII + [0x78, 0x79, 0x7a, 0x71, 0x72] if rep_ % 2 == 0 else EDGE + [0x31, 0x32, 0x33]
                    cases.append(_trie_alloc_family(rng, "trie-alloc-L%d-j%d-%s-%d" % (L, j, "pool" if pool else "malloc", rep_),
                                                    L, j, pool, alpha))
    for i in range(120 if quick else 1200):
        cap = (0, 0, 1, 2, 3, 4, 6, 9)[i % 8]
        which = i % 3
        if which == 0:
            cases.append(_rand_avl(rng, "avl-alloc-%d" % i, rng.choice([4, 8, 12, 20]), rng.range(12, 90), cap, fail=True))
        elif which == 1:
            size, kind = rng.choice([(8, "zero"), (8, "low"), (8, "id"), (11, "mul")])
            cases.append(_rand_ht(rng, "ht-alloc-%d" % i, cap, size, kind, rng.choice([4, 8, 16]), rng.range(12, 90), fail=True))
        else:
            alpha = rng.shuffle(EDGE + ASCII)[:rng.range(2, 4)]
            cases.append(_rand_trie(rng, "trie-alloc-rnd-%d" % i, cap * 2, alpha, rng.range(2, 6), rng.range(10, 70), fail=True))
    # --- AVL: large trees (hundreds of nodes in quick, >= 3000 in thorough), quiet operations + periodic full walk
    for i, N in enumerate((300, 450, 640) if quick else (300, 640, 1500, 3100, 5000)):
        cases.append(_big_avl(rng, "avl-big-%d" % N, N, (0, 4, 64)[i % 3]))
    # --- hash table (table sizes that do not divide 2^32 with hashes >= 2^32: 11/13/1000/10007 with mul, id on
    #     keys >= 2^32; string keys with bytes >= 0x80: defb)
    cfgs = [(8, "zero"), (8, "low"), (8, "id"), (8, "mul"), (8, "def"), (0, "id"), (0, "def"), (11, "mul"),
            (16, "low"), (7, "zero"), (1000, "def"), (9, "id"), (8, "defb"), (13, "mul"), (1000, "defb"), (0, "mul"),
            (11, "id"), (0, "defb")]
    for i in range(240 if quick else 4000):
        size, kind = cfgs[i % len(cfgs)]
        R = rng.choice([4, 8, 16, 30, 64])
        nops = rng.range(10, 120 if (quick or size == 0) else 500)
        cases.append(_rand_ht(rng, "ht-rnd-%d" % i, rng.choice([0, 0, 1, 4]), size, kind, R, nops))
    # --- trie
    for i in range(260 if quick else 4000):
        style = i % 4
        if style == 0:
            alpha = rng.shuffle(ASCII)[:rng.range(1, 4)]
        elif style == 1:
            alpha = rng.shuffle(EDGE)[:rng.range(2, 4)]
        elif style == 2:
            alpha = [rng.range(1, 255) for _ in range(rng.range(2, 5))]
        else:
            alpha = list(range(1, 256))
        nops = rng.range(8, 90 if quick else 300)
        maxlen = rng.range(1, 5)
        if i % 16 == 15:
            maxlen = rng.range(20, 80)       # long keys (a fixed-size key buffer in the library would show)
            nops = min(nops, 40)
        cases.append(_rand_trie(rng, "trie-rnd-%d" % i, rng.choice([0, 0, 1, 3]), alpha, maxlen, nops))
    # full alphabet sweep: every single byte, and two-byte keys (b, 256-b)
    for cap in (0, 2):
        ops = ["ins %02x %d" % (b, b) for b in range(1, 256)]
        ops += ["ins %02x%02x %d" % (b, 256 - b, 1000 + b) for b in range(1, 256)]
        ops += ["find %02x" % b for b in range(1, 256)] + ["find %02x%02x" % (b, 256 - b) for b in range(1, 256)]
        ops += ["rem %02x" % b for b in range(1, 256, 2)] + ["find %02x" % b for b in range(1, 256)] + ["dump"]
        cases.append(_trie_case("trie-alphabet-c%d" % cap, cap, ops))
    return cases


def search(rng, diverging, tier):
    """Extra cases used when a proof or the correspondence broke: short dense histories."""
    out = []
    for i in range(1500):
        R = rng.choice([3, 4, 6, 8, 12, 20])
        out.append(_rand_avl(rng, "search-avl-%d" % i, R, rng.range(6, 60), rng.choice([0, 2])))
    for i in range(400):
        size, kind = rng.choice([(8, "zero"), (8, "low"), (8, "id"), (0, "def")])
        out.append(_rand_ht(rng, "search-ht-%d" % i, rng.choice([0, 2]), size, kind, rng.choice([4, 8, 16]), rng.range(6, 60)))
    for i in range(400):
        alpha = rng.shuffle(EDGE + ASCII)[:3]
        out.append(_rand_trie(rng, "search-trie-%d" % i, rng.choice([0, 2]), alpha, 3, rng.range(6, 50)))
    for i in range(300):
        alpha = rng.shuffle(EDGE + ASCII)[:3]
        out.append(_rand_trie(rng, "search-trie-alloc-%d" % i, rng.choice([0, 3, 5, 8]), alpha, 5, rng.range(8, 50), fail=True))
        out.append(_rand_avl(rng, "search-avl-alloc-%d" % i, 8, rng.range(8, 40), rng.choice([0, 2, 3]), fail=True))
    return out


# --------------------------------------------------------------------------
# independent monitor: dict semantics + BST / balance check from the dump

def _parse_tree(tokens):
    """pre-order with '.' for NULL -> nested tuples (key, value, balance, left, right); iterative"""
    pos = [0]

    def node(depth):
        if pos[0] >= len(tokens):
            raise ValueError("dump ends early")
        tok = tokens[pos[0]]
        pos[0] += 1
        if tok == ".":
            return None
        if depth > 200:
            raise ValueError("dump deeper than 200 levels")
        kv, b = tok.rsplit(":", 1)
        k, v = kv.split("=")
        l = node(depth + 1)
        r = node(depth + 1)
        return (int(k), int(v), int(b), l, r)
    t = node(0)
    if pos[0] != len(tokens):
        raise ValueError("trailing tokens in dump")
    return t


def _check_tree(t, lo, hi, out):
    """returns height; raises ValueError on a violated clause; collects key->value in out"""
    if t is None:
        return 0
    k, v, b, l, r = t
    if (lo is not None and not lo < k) or (hi is not None and not k < hi):
        raise ValueError("search-tree order violated at key %d" % k)
    if k in out:
        raise ValueError("key %d stored twice" % k)
    out[k] = v
    hl = _check_tree(l, lo, k, out)
    hr = _check_tree(r, k, hi, out)
    if abs(hr - hl) > 1:
        raise ValueError("subtree heights of key %d differ by %d" % (k, hr - hl))
    if b != hr - hl:
        raise ValueError("recorded balance of key %d is %d, heights give %d" % (k, b, hr - hl))
    return 1 + max(hl, hr)


def _expect(lines, i, want, what):
    got = lines[i] if i < len(lines) else None
    if got != want:
        return "%s: implementation answered %r, a map gives %r" % (what, got, want)
    return None


def _cb_flags(w, first, n=2):
    """callback flags of a removal (default: all passed)"""
    fl = [x != "0" for x in w[first:first + n]]
    return fl if len(fl) == n else [True] * n


def monitor(case, lines):
    """dict semantics + BST / balance check from the dump + the ownership rule of the free callbacks: the key /
    value block of a removed association goes through its callback exactly once iff a callback was passed
    (the 'own' line counts the calls); with NULL callbacks the association must go all the same."""
    if not lines:
        return "no output"
    for ln in lines:
        if ln.startswith("LEAK") or ln.startswith("EXN"):
            return "driver reported: " + ln
    head = case.lines[0].split()
    if lines[0] != "init ok":
        return "init returned %r" % lines[0]
    kind = head[0]
    ref = {}
    i = 1
    # allocation failure may be injected: the node pool cannot grow (header word const) or the malloc switch is
    # set for the next insert (failat j).  Then -- and only then -- an insert of a new key may report failure;
    # whichever it reports, the structure must afterwards answer like the map that follows the reports.
    is_const = "const" in head[1:]
    may_fail = [False]

    def ins_result(tag, k, v, got):
        """-> (error | None); updates ref according to what the implementation reported"""
        inj = is_const or may_fail[0]
        may_fail[0] = False
        dup = (kind != "trie") and k in ref
        if got == tag + " 1" and not dup:
            ref[k] = v
            return None
        if got == tag + " 0" and (dup or inj):
            return None
        want = tag + (" 0" if dup else " 1")
        return "implementation answered %r, a map gives %r%s" % (got, want, " (or a reported allocation failure)" if inj else "")

    def tree_lines(what):
        tl = lines[i] if i < len(lines) else ""
        if not tl.startswith("t"):
            return "%s: no tree dump" % what
        try:
            got = {}
            _check_tree(_parse_tree(tl.split()[1:]), None, None, got)
        except ValueError as ex:
            return "%s: %s" % (what, ex)
        if got != ref:
            miss = sorted(set(ref) - set(got))[:3]
            extra = sorted(set(got) - set(ref))[:3]
            wrong = sorted(k2 for k2 in ref if k2 in got and got[k2] != ref[k2])[:3]
            return "%s: tree contents differ from the map (missing %s, unexpected %s, wrong value %s)" % (what, miss, extra, wrong)
        if _expect(lines, i + 1, "chk ok", what + " structure walk"):
            return "%s: driver walk of the real nodes: %r" % (what, lines[i + 1] if i + 1 < len(lines) else None)
        return None
    for n, op in enumerate(case.lines[1:], 1):
        w = op.split()
        what = "op %d (%s)" % (n, op)
        if w[0] == "failat":
            may_fail[0] = True
            continue
        if kind == "avl":
            if w[0] == "check":
                e = tree_lines(what)
                if e:
                    return e
                i += 2
                continue
            k = int(w[1])
            quiet = w[0] in ("insq", "remq")
            own = None
            if w[0] in ("ins", "insq"):
                e = ins_result("ins", k, int(w[2]), lines[i] if i < len(lines) else None)
                if e:
                    return "%s: %s" % (what, e)
                want = lines[i]
            elif w[0] == "find":
                want = "find %s" % (ref[k] if k in ref else "none")
            else:
                fk, fv = _cb_flags(w, 2)
                want = "rem %d" % (1 if k in ref else 0)
                own = "own %d %d" % ((1 if fk else 0, 1 if fv else 0) if k in ref else (0, 0))
                ref.pop(k, None)
            e = _expect(lines, i, want, what)
            if e:
                return e
            i += 1
            if own is not None:
                e = _expect(lines, i, own, what + " ownership (callback calls for the removed key / value)")
                if e:
                    return e
                i += 1
            if not quiet:
                e = tree_lines(what)
                if e:
                    return e
                i += 2
        elif kind == "ht":
            own = None
            if w[0] == "dump":
                want = " ".join(["d"] + ["%d=%d" % kv for kv in sorted(ref.items())])
            elif w[0] == "clear":
                fk, fv = _cb_flags(w, 1)
                want = "clear %d" % len(ref)
                own = "own %d %d" % (len(ref) if fk else 0, len(ref) if fv else 0)
                ref.clear()
            elif w[0] in ("hash", "where"):
                # the hash value and the bucket index are not part of the property: they are compared
                # between model and implementation only (the tie of Model.str_hash / ht_idx to the
                # source); the map only says whether the key is stored at all
                k = int(w[1])
                got = lines[i] if i < len(lines) else ""
                gw = got.split()
                size = int(head[2]) if int(head[2]) >= 8 else 10007
                ok = len(gw) == 2 and gw[0] == w[0] and (
                    (w[0] == "hash" and gw[1].isdigit()) or
                    (w[0] == "where" and ((gw[1] == "none") == (k not in ref)) and
                     (gw[1] == "none" or (gw[1].isdigit() and int(gw[1]) < size))))
                want = got if ok else ("%s <%s>" % (w[0], "bucket index" if k in ref else "none"))
            else:
                k = int(w[1])
                if w[0] == "put":
                    e = ins_result("put", k, int(w[2]), lines[i] if i < len(lines) else None)
                    if e:
                        return "%s: %s" % (what, e)
                    want = lines[i]
                elif w[0] == "find":
                    want = "find %s" % (ref[k] if k in ref else "none")
                else:
                    fk, fv = _cb_flags(w, 2)
                    want = "rem %d" % (1 if k in ref else 0)
                    own = "own %d %d" % ((1 if fk else 0, 1 if fv else 0) if k in ref else (0, 0))
                    ref.pop(k, None)
            e = _expect(lines, i, want, what)
            if e:
                return e
            i += 1
            if own is not None:
                e = _expect(lines, i, own, what + " ownership (callback calls for the removed keys / values)")
                if e:
                    return e
                i += 1
            e = _expect(lines, i, "chk ok n=%d" % len(ref), what + " chain walk")
            if e:
                return e
            i += 1
        else:
            if w[0] == "dump":
                got = {}
                ln = lines[i] if i < len(lines) else ""
                if not ln.startswith("d"):
                    return "%s: no dump" % what
                for tok in ln.split()[1:]:
                    kk, vv = tok.split("=")
                    if kk in got:
                        return "%s: key %s listed twice" % (what, kk)
                    got[kk] = int(vv)
                if got != ref:
                    return "%s: trie contents %s differ from the map %s" % (what, sorted(got.items())[:6], sorted(ref.items())[:6])
            else:
                k = w[1]
                if w[0] == "ins":
                    e = ins_result("ins", k, int(w[2]), lines[i] if i < len(lines) else None)
                    if e:
                        e = "%s: %s" % (what, e)
                elif w[0] == "find":
                    e = _expect(lines, i, "find %s" % (ref[k] if k in ref else "none"), what)
                else:
                    (f,) = _cb_flags(w, 2, 1)
                    e = None
                    own = "own %d" % (1 if (f and k in ref) else 0)
                    if k in ref:
                        e = _expect(lines, i, "rem 1", what)
                        del ref[k]
                    elif (lines[i] if i < len(lines) else None) not in ("rem 0", "rem 1"):
                        e = "%s: answered %r" % (what, lines[i] if i < len(lines) else None)
                    if not e:
                        i += 1
                        e = _expect(lines, i, own, what + " ownership (callback calls for the removed value)")
                if e:
                    return e
            i += 1
    if i != len(lines):
        return "unexpected extra output: %r" % lines[i]
    return None


def nontrivial_key(case, lines):
    s = set(lines)
    if ("ins 1" in s or "put 1" in s) and (s & {"rem 1", "ins 0", "put 0"} or any(
            ln.startswith("find ") and ln != "find none" for ln in lines)):
        return "\n".join(case.lines)
    return None


_trees = set()


def tally(dist, case, lines):
    kind = case.lines[0].split()[0]
    dist["cases_" + kind] = dist.get("cases_" + kind, 0) + 1
    head = case.lines[0].split()
    if kind == "ht":
        key = "ht_hash=%s,size=%s" % (head[3], head[2])
        dist[key] = dist.get(key, 0) + 1
    if int(head[1]) > 0:
        dist["with_node_pool"] = dist.get("with_node_pool", 0) + 1
    ck = head[2] if (kind == "avl" and len(head) > 2) else (head[4] if (kind == "ht" and len(head) > 4) else "sgn")
    if kind != "trie":
        dist["cmp_" + ck] = dist.get("cmp_" + ck, 0) + 1
    if "const" in head[1:]:
        dist["cases_with_constant_size_pool"] = dist.get("cases_with_constant_size_pool", 0) + 1
    for op in case.lines[1:]:
        ww = op.split()
        if ww[0] == "failat":
            dist["malloc_failures_armed"] = dist.get("malloc_failures_armed", 0) + 1
        key = "%s_%s" % (kind, ww[0])
        dist[key] = dist.get(key, 0) + 1
        if ww[0] in ("rem", "remq", "clear") and "0" in ww[(1 if ww[0] == "clear" else 2):]:
            dist["removal_with_a_NULL_callback"] = dist.get("removal_with_a_NULL_callback", 0) + 1
        if kind == "trie" and len(ww) > 1 and len(ww[1]) >= 80:
            dist["trie_keys_ge_40_bytes"] = dist.get("trie_keys_ge_40_bytes", 0) + 1
    for ln in lines:
        if ln in ("ins 0", "put 0"):
            dist["duplicate_rejected"] = dist.get("duplicate_rejected", 0) + 1
        elif ln == "rem 0":
            dist["remove_absent"] = dist.get("remove_absent", 0) + 1
        elif ln == "find none":
            dist["find_absent"] = dist.get("find_absent", 0) + 1
        elif ln.startswith("t ") and kind == "avl":
            n = (len(ln.split()) - 2) // 2
            if n <= 12:
                _trees.add(ln)
            if n > dist.get("avl_max_nodes", 0):
                dist["avl_max_nodes"] = n
    if kind == "trie" and any(any(int(op.split()[1][j:j + 2], 16) >= 0x80 for j in range(0, len(op.split()[1]), 2))
                              for op in case.lines[1:] if len(op.split()) > 1 and op.split()[1] != "-"):
        dist["trie_cases_with_bytes_ge_0x80"] = dist.get("trie_cases_with_bytes_ge_0x80", 0) + 1
    dist["avl_distinct_trees_le_12_nodes"] = len(_trees)


MANIFEST = {
    "level_text": ("Unbounded Coq theorems over executable models that transcribe avl_tree.c (descent, retracing, the four "
                   "rotations with the code's balance-factor updates, removal by swapping down to a leaf), hash_table.c "
                   "(chained buckets, any hash function) and trie.c (per-byte children, lazy removal): search-tree order, exact "
                   "balance factors and |balance| <= 1 are preserved by every operation, and each structure answers every "
                   "history like a reference map.  Models tied to the C code by a differential run of the extracted models "
                   "against the sources compiled from the working tree under ASan/UBSan (with and without node pool), comparing "
                   "every result and the pre-order (key, value, balance) dump of the real tree, plus an independent Python "
                   "monitor (dict semantics, BST/height check from the dump) and a driver walk of parent links and chains.  "
                   "Heap-level models of the tree (left/right/parent) and of the chains (prev/next) are proved to refine the "
                   "functional models with consistent links for every history of operations (rotations, rebalance, insert, the "
                   "data-swap loop / unlink / retracing of remove, all hash-table operations)."),
    "design_ref": "DESIGN.md section 6 / C09",
    "level_note": ("Trusted: Coq kernel, extraction (ExtrOcamlBasic), the differential harness, the slicer/translator of the "
                   "second tie (lib/props/c09_slice.py, c09_ties.py; its output is proved equal to the model's decision functions).  Pointer structure (parent links, "
                   "chain splicing) is proved on hand-transcribed heap models and checked on the real nodes by the driver; "
                   "allocation is assumed to succeed."),
    "technique": ("Coq proof of invariant preservation and map refinement (structural induction); heap-level pointer models "
                  "proved to refine the functional ones (representation predicates, zipper for the parent-link loops) + "
                  "extracted-model differential run"),
}
