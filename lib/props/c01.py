"""C01 — channel / array blocking queue / double buffer: exactly-once in-order delivery, FULL only
when full, no overwrite of unread, payload visibility.  Plugin for bin/check."""
import os
import re
import vcommon as V

ID = "C01"
COQ_DIRS = ["C01"]
MODEL_BASE = "c01_model"
OCAML_DRIVER = "ocaml/c01_driver.ml"
OCAML_INCLUDES = ["ocaml/vsacc.ml.inc"]
C_DRIVER = "harness/drivers/c01_driver.c"
REPO_SOURCES = ["muggle/c/sync/channel.c", "muggle/c/sync/array_blocking_queue.c", "muggle/c/sync/double_buffer.c",
                "muggle/c/sync/synclock.c", "muggle/c/sync/spinlock.c", "muggle/c/sync/mutex.c",
                "muggle/c/sync/condition_variable.c", "muggle/c/base/thread.c", "muggle/c/base/utils.c"]
HEADER_LINES = 1
SHRINK = False          # a case is (scenario, schedule); schedules are not line-shrinkable
CASE_TIMEOUT = 5.0
MODEL_CASE_TIMEOUT = 5.0
RULE = ("scenarios = channel (4 writer-lock kinds x 3 reader modes x requested capacity 1..9 x 1..4 writers with scripts "
        "of tagged messages that force wrap-around and FULL, one reader), channel by RAW flags value ('chanflags': every one of the 256 flag "
        "bytes = 16 writer-lock selectors x 16 reader selectors incl. the invalid / out-of-range ones, plus flags with higher bits set, "
        "each with 2..3 concurrent writers -- one writer when the selector is WRITE_SINGLE -- capacity 3..8, messages that wrap), large rings "
        "(requested capacity 16, 17, 31, 32, 33, 64 in all 12 modes: 'stop' = the reader leaves after 0..5 messages and the writers "
        "fill the ring to capacity - 2 unread, are refused and give up after maxtry FULL results; 'first' = list schedule running the "
        "writers first so that the backlog reaches capacity - 2 before the reader drains; 'mix' = random schedule with an early-stopping "
        "reader or a full drain), adversarial MESSAGE VALUES in a third of the channel scenarios (NULL, (void*)-1, small integers equal "
        "to cursor values / the capacity, one harness object carried by several messages), single-threaded fill / drain of rings of up "
        "to 2^17 slots without the scheduler ('bigfill': cursors beyond 2^16, refusal exactly at capacity - 2, order), array blocking queue (capacity 1..4, 1..3 "
        "producers, 1..3 consumers) and double buffer (capacity 1..4, blocking and non-blocking, 1..3 writers), each "
        "under seeded random schedules (context-switch density 20/50/80/95 %, weak-CAS spurious failure 0/30 %, condvar "
        "spurious wake-up 0/20 %, futex wait interrupted (EINTR) / spuriously woken 0/20/40 % in the sync-reader and synclock-writer scenarios), hand-written list schedules and model-guided list schedules (walks of the extracted model that reach the proofs' case-split windows), run on the real code under the deterministic "
        "scheduler; every trace is replayed on the extracted model (trace acceptance) and checked by the independent "
        "monitor; non-trivial = the trace contains a FULL result, a cursor wrap-around, a futex/condvar sleep or a "
        "contended lock; distinct = distinct trace text")
TRUSTED_BASE = [
    "modelled, not verified: sequentially consistent interleaving of atomic operations plus release/acquire views for the plain data (message slots, harness payloads) as stand-in for C11 (DRF-SC assumed, not proved); the view model orders write -> read only (the relaxed load of read_cursor before a slot is reused leaves the previous lap's read and the new write formally unordered: reported as an observation); futex = atomic compare-and-block/wake, pthread mutex = exclusive ownership with acquire/release, condvar = Mesa with spurious wake-ups, as interposed by harness/vsched; real weak-memory reorderings cannot be exhibited on x86 under a serialised run",
    "memory orders of the 13 atomic sites (9 in channel.c, 2 in spinlock.c, 2 in synclock.c) are re-extracted from the executed code into coq/gen/Params_C01.v on every run and the theorems' side conditions (chan_mo_ok / chan_rd_mo_ok / lock_mo_ok) are discharged against them; the translator tie compares the memory-order arguments in the C text of every path with the same parameters",
    "harness/vsched/vs_hooks.h re-defines every muggle_atomic_* macro with the __atomic_*_n builtin and the call-site memory order: the macro BODIES of muggle/c/base/atomic.h are not compiled into the driver and not tied here (the slicer sees the expansion clang produces from the real atomic.h, i.e. the builtin and the order argument, but not that the builtin honours it); muggle_sync_wait / wake (sync_obj_futex.c) are the scheduler's",
    "muggle_channel_init (flag -> function-pointer dispatch, created mutexes / condvar, capacity rounding incl. muggle_next_pow_of_2 as used there) is re-extracted by RUNNING it for every flags value in [0, 512) and every requested capacity in [0, 1025] (harness/drivers/c01_dispatch.c + nm for the static functions' names) into coq/gen/Params_C01.v and proved equal to the model's mode table; trusted: the probe program, nm, and that the function a name denotes is the one the model transcribes (checked by trace acceptance for the 12 valid modes)",
]
ASSUMPTIONS = ["channel: exactly one reader thread; MUGGLE_CHANNEL_FLAG_WRITE_SINGLE => exactly one writer thread (documented usage)",
               "double buffer: one reader thread; array blocking queue: any number of producers and consumers"]
EVIDENCE_NOTES = [
    "writer lock: modelled CONCRETELY inside the channel model (coq/C01/Model.v re-uses the lock sub-automaton of coq/C04/Model.v: tas/yield for spinlock.c, weak CAS incl. spurious failure + futex wait/wake for synclock.c as repaired, pthread mutex = blocking ownership), so the lock events of the trace (tas/casw/fwait/fwake/clear/store/mlock/munlock) are model labels and need no mapping in the OCaml acceptor; mutual exclusion of the serialised region (i_excl, i_free) and the view hand-over through the lock stamp (v_lst, v_serial) are part of the C01 invariants and proved again here rather than imported from C04",
    "proved for every schedule, any number of writers, any capacity (1 and 2 included), all 4 x 3 modes, with the memory orders re-extracted from the code: chan_inv_reachable (A.5 SC invariant: cursors = history lengths mod capacity, unread <= capacity-2, slots hold accepted minus delivered, one writer in the serialised region, cached cursor interval), chan_inv_views_reachable (view invariants: through the write_cursor stamp in sync/busy modes, through read_mutex in the mutex mode), chan_exactly_once_in_order (delivered is a prefix of accepted, equal when drained), chan_per_writer_order (same-writer messages appear with increasing sequence numbers in accepted and delivered), chan_full_only_if_full, chan_no_overwrite, chan_payload_visible (no uncovered plain read; the message about to be returned is accepted and its payload write is in the reader's view); abq_fifo and dbuf_batches_in_order (any number of producers/consumers/writers, any capacity, spurious wake-ups); Examples of non-vacuity next to each (chan_nonvacuous, chan_mutex_nonvacuous, abq_nonvacuous, dbuf_nonvacuous)",
    "array blocking queue and double buffer carry views as well (mutex stamp, slot and payload versions, ghost uncovered-read counters): abq_payload_visible, dbuf_payload_visible (no uncovered plain read; the item / batch entry about to be consumed was put / written and its payload write is in the consumer's view) and dbuf_full_only_if_full (a write is refused or put to sleep only when the back buffer holds capacity items, the reader sleeps only when it is empty; ghost check computed from the histories) are theorems for every schedule, any number of threads, any capacity",
    "model-guided schedules (DESIGN.md 4.3): the guide mode of ocaml/c01_driver.ml explores the extracted channel model with biased random walks and emits the walks that reach the proofs' case-split windows (w1 reader commits read_cursor between a writer's cursor load and its full check / slot store; w2 reader loads write_cursor between slot store and publication; w3 cached read cursor refreshed in busy mode; w4 publication wraps write_cursor to 0 leaving capacity-2 unread; w5 a writer publishes between the reader's check and its futex sleep) as 'sched list' schedules; the generator adds them in both tiers and the tally reports, from the IMPLEMENTATION traces, how many guided schedules went through each window (guided_window_w1..w5, guided_target_hit) next to the counts over all schedules (window_w1..w5)",
    "futex waits: the model's fwait steps (reader on write_cursor, writers on the synclock) have the choices 'interrupted' (EINTR, trace c = 2) and 'spurious wake-up' (c = 3) besides sleeping; all theorems quantify over them; the acceptor maps c = 2 / 3 to these choices; two thirds of the sync-reader / synclock-writer scenarios use them and two list-schedule corpus cases force them on the first would-block waits",
    "muggle_channel_init is tied to the model by RE-EXTRACTION FROM THE EXECUTED CODE (the alternative to symbolic evaluation of the AST): harness/drivers/c01_dispatch.c, compiled from the working tree on every run, runs muggle_channel_init for every flags value in [0, 512) and for the requested capacities 0..1025 (+ requests that do not fit muggle_sync_t) and calls muggle_next_pow_of_2 around every power of two; the installed fn_lock / fn_unlock / fn_write / fn_wake / fn_read are resolved to the static functions' names with nm; the tables go into coq/gen/Params_C01.v; chan_dispatch_matches_model (complete sweep over the 512 flag values by vm_compute: return value, normalised flags, init_flags, created mutexes / condvar, five functions = the model's mode table flag_wk / flag_rm), chan_capacity_matches_model (refusals, capacity, initial cursors = model's initial state) and chan_capacity_rounding (for ALL requests: round_cap is the least power of two >= the request) and chan_dispatch_selects_flags_cfg (the installed functions are those of the configuration the flags theorems quantify over) are obligations; a behaviour-preserving restructuring of init (helpers, if-chains) leaves the tables unchanged",
    "flags quantifier: besides the 12 named modes the scenarios hand the RAW flags integer to muggle_channel_init ('chanflags <flags> ...' in harness/drivers/c01_driver.c; the cells are named after what init created, the driver does not decode the flags); the extracted model runs mk_cfg_flags (the mode table flag_wk / flag_rm of coq/C01/Dispatch.v) for the same integer and must accept the trace, the monitor decodes the flags from the documented meaning in channel.h (selector 0..3 / 0x00..0x20, anything else = mutex) independently of both; the quick tier runs all 256 flag bytes (input_distribution: flag_bytes_covered_of_256, selector_pairs_with_2plus_writers_of_240 = every (writer selector != WRITE_SINGLE, reader selector) pair with >= 2 concurrent writers, out_of_range_writer_selector_2plus_writers, flags_with_higher_bits) and search() sweeps them again with 2..4 writers under dense context switching (6 schedules per byte) when an obligation or the correspondence broke; corpus/C01/flags-*.case pin selectors 7, 15 and 11 + reader selector 8.  Theorems (coq/C01/ProofsFlags.v): chan_flags_exactly_once_in_order / chan_flags_payload_visible = the delivery theorems for EVERY integer flags value with the usage hypothesis only when flags & 15 = 3; chan_flags_writers_excluded = any other writer selector (0, 1, 2, 4..15) is a real lock for any number of writers (not the no-op kind, at most one writer between fn_lock and fn_unlock, nobody inside while the lock word is free); chan_flag_byte_exhaustive = the mode table reads the low byte only, selects the no-op lock exactly for selector 3 and sends out-of-range selectors to the mutex; chan_dispatch_selects_flags_cfg = for each of the 512 re-extracted rows the functions the CODE installed are those of mk_cfg_flags' configuration and no selector other than 3 installs the no-op lock; Examples chan_flags_nonvacuous (flags 0x07, writer 2 stopped at the mutex while writer 1 is inside) and chan_flags_nonvacuous_busy (0x2f, three writers)",
    "monitor: when the scheduler reports DEADLOCK / LIVELOCK in a channel scenario the first anomaly of the trace itself (cursor collision, FULL without full ring, wrong delivery, missing happens-before) is reported in front of the scheduler's verdict",
    "read-before-overwrite (consumer side of the hand-over): coq/C01/ModelRC.v observes the channel model with a ghost (product system; the channel state is stepped unchanged: xreach_proj) that gives every slot read of the reader an epoch, lets a store >= release publish the storer's knowledge of completed reads on the atomic cell (mutex unlock / condition wait: on the mutex), joins it on acquiring operations -- the writer's load of read_cursor is taken as the acquiring side whatever its memory order (the library loads it relaxed: observation, as before) -- and counts slot stores not ordered after every earlier read of the same slot; chan_no_overwrite_before_read_completes: the counter is 0 for every schedule, any number of writers, any capacity, all 12 modes, under chan_rd_mo_ok (release store of read_cursor in the sync / busy readers; mutex mode unconditional) and lock_mo_ok; chan_rd_mo_ok is part of mo_sufficient (obligation c01_memory_orders_sufficient); chan_read_release_necessary: with a relaxed store a schedule with an uncovered overwrite exists (same channel state: nothing is visible on a sequentially consistent run); the model_search explores the product under the extracted orders and returns that witness; the monitor checks the same on the implementation traces (_mon_rdhb: the reader's store of read_cursor after read k must be a release store and the writer reusing the slot must have loaded a cursor value stored at or after it)",
    "message values: the model has a value assignment g_val (message identity -> canonical code of the pointer value: own payload, NULL, (void*)-1, small integer, shared harness object) that occurs only in the reader's got / fld notes; chan_delivery_any_values (the delivery theorems for EVERY assignment; the NULL of a never-written slot is never returned as data), chan_state_value_independent / chan_trace_value_independent (parametricity: same schedule, any other assignment: same state, same operations); the drivers send such values ('v <tag>:<code>' lines), the monitor compares the received value codes positionally with the publication order; additional obligation chan_code_never_tests_payload from an AST scan (lib/props/c01_scan.py, clang JSON of channel.c / array_blocking_queue.c / double_buffer.c): a payload value (slot member data / datas[i], a void* parameter, a local assigned from one, through casts) is nowhere an operand of a comparison / arithmetic / logical / unary operator, converted to a truth value or an integer, a condition of if / while / for / ?: / switch, dereferenced, or handed to a function outside these files; it is a scan, not a proof about C",
    "field widths: the probe prints sizeof / signedness / integer-ness of muggle_channel_t.capacity, write_cursor, read_cursor, cached_r_cur, write_synclock, the array blocking queue's capacity / take_idx / put_idx / cnt, the double buffer's capacity / cnt / non_blocking and the slot element types; obligation chan_field_widths_match_model (the cursors are 32-bit unsigned: futex word, equality test with the cached cursor); the 'bigfill' scenarios make a narrower cursor field visible as a concrete failing input (FULL after 65534 of 131070)",
    "second tie (translator kind, DESIGN.md 4.4): lib/props/c01_slice.py slices the bodies of muggle_channel_write_sync / _busy / _mutex, muggle_channel_read_sync / _busy / _mutex (one loop iteration), the three wake functions, the public wrappers muggle_channel_write / muggle_channel_read and the array blocking queue's put / take (helpers inlined) out of the clang JSON AST of the C text of this run: every synchronisation operation (atomic load / store with its memory order, futex wait / wake, mutex lock / unlock, condition wait / notify, call through fn_lock / fn_write / fn_unlock / fn_wake / fn_read, helper call) becomes a labelled step appended to an event word in program order on each path, the index arithmetic and conditions between them become integer arithmetic with explicit 32-bit wrap (lib/leaftrans.py), a message is an opaque 64-bit value, the slots are a word array, calls of functions defined in the same file are inlined (helpers introduced or removed by a refactoring do not matter), a loop is cut after one iteration (on the 'not ready' path the function reports again = 1, which wait it entered and the futex's expected value; the event word is not compared there because how often the cursor is re-loaded before the cut depends on the loop's shape), break is structured with a flag, local aliases of the block array / of one block are followed; obligations chan_write_sync/_busy/_mutex_text_matches_model, chan_read_sync/_busy/_mutex_text_matches_model, chan_wake_text_matches_model, chan_wrappers_text_match_model, abq_text_matches_model: (i) generated = reference function (coq/C01/Slice.v, memory orders from code_params) on the whole domain -- capacity any power of two up to 2^31, cursors inside the ring, any slot contents, any message value -- by a decision tactic that does not look at the shape of the generated term (wraps discharged from the domain, x & (capacity-1) and x % capacity turned into the piecewise-linear ring successor, every conditional split, time-limited lia), (ii) the model's steps through the same function (cmicro / cop of Model.v, qmicro / qop of ModelQ.v) compute the same reference: result, cursor update, slot index, sequence of synchronisation operations with their memory orders.  An edit of a value, condition, memory order or synchronisation step on ANY path, also one no scenario reaches, breaks (i); trusted: clang 14 AST, the slicer and the translator.  NOT sliced: double_buffer.c (front / back pointer swap needs a different abstraction), muggle_channel_init (tied by re-extraction), the lock functions of spinlock.c / synclock.c (C04)",
    "coverage: the random, the model-guided and the corpus scenario families each cover all 12 modes x requested capacities {1, 2, 3, 4, 8} in the quick tier (input_distribution: modes_x_caps_covered_<family>_of_60 = 60)",
    "not theorems: freedom from lost wake-ups (property C03) is covered by the monitor and trace acceptance only",
    "chan_mo_necessary (coq/C01/ProofsView.v): with the store of write_cursor relaxed the model delivers the slot's previous content (NULL) under a concrete schedule, with the code's orders the same schedule delivers the message",
    "spurious condvar wake-ups (scheduler line 'W <tid> cvspur') are a model transition; ocaml/c01_driver.ml therefore carries its own copy of the shared acceptor (accept_trace_w) that replays W lines instead of echoing them; ocaml/vsacc.ml.inc is unchanged",
    "observation (not a violation): capacities 1 and 2 give a permanently full channel (usable slots = rounded capacity - 2), as the property's quantifier text says; the writer's relaxed load of read_cursor leaves the previous lap's slot read and the new slot write formally unordered under C11 (no SC interleaving shows a wrong value)",
]

MO = {"rlx": "Rlx", "con": "Con", "acq": "Acq", "rel": "Rel", "acqrel": "AcqRel", "sc": "SeqCst", "none": "MoNone"}
FIELDS = ["mo_ws_load", "mo_ws_store", "mo_wb_load", "mo_wb_store1", "mo_wb_store2", "mo_rs_load", "mo_rs_store",
          "mo_rb_load", "mo_rb_store", "mo_spin_tas", "mo_spin_clear", "mo_sync_cas", "mo_sync_store"]
WKINDS = ("mutex", "sync", "spin", "single")
RMODES = ("sync", "mutex", "busy")


def build_impl(ctx):
    return V.build_vsched_driver(ID, C_DRIVER, REPO_SOURCES)


def next_pow2(n):
    c = 1
    while c < n:
        c *= 2
    return c


def flag_modes(flags):
    """What a flags value of muggle_channel_init MEANS according to channel.h (the property's side,
    independent of the Coq model and of channel.c): bits 0..3 select the writer lock (0 mutex, 1 sync,
    2 spin, 3 single writer), bits 4..7 the reader mode (0 sync, 1 mutex, 2 busy); "if user set
    invalid write / read flag, use mutex"; higher bits are not looked at."""
    wk = {0: "mutex", 1: "sync", 2: "spin", 3: "single"}.get(flags & 0x0f, "mutex")
    rm = {0x00: "sync", 0x10: "mutex", 0x20: "busy"}.get(flags & 0xf0, "mutex")
    return wk, rm


def chan_scen(words):
    """Scenario words in the 'chan' layout (chan wk rm cap nread k..) for both channel families;
    None for the other structures."""
    if words and words[0] == "chan":
        return list(words)
    if words and words[0] == "chanflags":
        wk, rm = flag_modes(int(words[1]))
        return ["chan", wk, rm] + list(words[2:])
    return None


# ---------------------------------------------------------------------------
# parameters: memory orders observed at each atomic site

def _discovery_cases():
    out = []
    for i, (wk, rm) in enumerate([("spin", "sync"), ("sync", "sync"), ("spin", "busy"), ("sync", "busy"), ("single", "busy")]):
        for j, sd in enumerate((11, 12, 13)):
            ks = "6" if wk == "single" else "3 3"
            out.append(V.Case("disc-%s-%s-%d" % (wk, rm, j), ["chan %s %s 3 6 %s" % (wk, rm, ks), "sched rand %d 70 0 0" % (sd + i)]))
    return out


def _sites_of_trace(wk, rm, lines, seen):
    last = {}
    for ln in lines:
        w = ln.split()
        if len(w) < 5 or w[0] != "E":
            continue
        t, op, cell, mo = w[1], w[2], w[3], w[4]
        f = None
        if cell == "wlock":
            f = {"tas": "mo_spin_tas", "clear": "mo_spin_clear", "casw": "mo_sync_cas", "store": "mo_sync_store"}.get(op)
        elif cell == "rcur" and op == "load":
            f = "mo_ws_load" if rm == "sync" else "mo_wb_load"
        elif cell == "wcur" and op == "store":
            if rm == "sync":
                f = "mo_ws_store"
            else:
                f = "mo_wb_store2" if last.get(t) == ("load", "rcur") else "mo_wb_store1"
        elif cell == "wcur" and op == "load":
            f = "mo_rs_load" if rm == "sync" else "mo_rb_load"
        elif cell == "rcur" and op == "store":
            f = "mo_rs_store" if rm == "sync" else "mo_rb_store"
        if f:
            seen.setdefault(f, set()).add(mo)
        last[t] = (op, cell)


def observed_params(ctx):
    exe = build_impl(ctx)
    cases = _discovery_cases()
    res = V.run_batch(exe, cases, per_case_timeout=5.0)
    seen = {}
    for c in cases:
        r = res.get(c.name)
        if not r:
            continue
        w = c.lines[0].split()
        _sites_of_trace(w[1], w[2], r["lines"], seen)
    return seen


PROBE_C = "harness/drivers/c01_dispatch.c"
PROBE_SOURCES = ["muggle/c/sync/channel.c", "muggle/c/sync/synclock.c", "muggle/c/sync/spinlock.c", "muggle/c/sync/mutex.c",
                 "muggle/c/sync/condition_variable.c", "muggle/c/sync/sync_obj_futex.c", "muggle/c/base/thread.c",
                 "muggle/c/base/utils.c"]
_WK = {"mutex": "WMutex", "sync": "WSync", "spin": "WSpin", "single": "WSingle"}
_RM = {"sync": "RSync", "mutex": "RMutex", "busy": "RBusy"}


def _fn_term(slot, name):
    """Coq term for the function installed in a slot, from the static function's name
    (muggle_channel_write_<lock>_lock / _unlock, muggle_channel_write_<mode> / wake_<mode> / read_<mode>)."""
    if not name:
        return "FUnknown"
    m = re.match(r"muggle_channel_write_(mutex|sync|spin|single)(?:lock)?_(lock|unlock)$", name)
    if m:
        return "(%s %s)" % ("FLock" if m.group(2) == "lock" else "FUnlock", _WK[m.group(1)])
    m = re.match(r"muggle_channel_(write|wake|read)_(sync|mutex|busy)$", name)
    if m:
        return "(%s %s)" % ({"write": "FWrite", "wake": "FWake", "read": "FRead"}[m.group(1)], _RM[m.group(2)])
    return "FUnknown"


def dispatch_tables(ctx):
    """Runs muggle_channel_init (as compiled from the working tree) for every flags value and for
    the requested capacities; returns (coq text of the three tables, notes)."""
    notes = []
    try:
        exe = V.build_driver(ID, PROBE_C, PROBE_SOURCES, "dispatch_probe", san=False)
        rc, out, err = V.sh([exe], timeout=120)
        rc2, nmout, _ = V.sh(["nm", exe], timeout=60)
    except Exception as e:       # an unbuildable probe is a failed obligation, not a default
        return ("Definition code_dispatch_table : list dispatch_row := [].\n"
                "Definition code_capacity_table : list (Z * Z * Z * Z * Z * Z) := [].\n"
                "Definition code_pow2_table : list (Z * Z) := [].\n"
                "Definition code_field_widths : list (nat * Z * bool * bool) := [].\n",
                ["(* dispatch probe could not be built or run: %s *)" % str(e)[:200].replace("*)", "* )")])
    addr, byaddr = {}, {}
    for ln in nmout.split("\n"):
        w = ln.split()
        if len(w) == 3 and w[1] in "tT":
            addr[w[2]] = int(w[0], 16)
            byaddr.setdefault(int(w[0], 16), []).append(w[2])
    base = addr.get("muggle_channel_init")

    def name_of(off):
        if base is None or off == 0:
            return None
        names = [n for n in byaddr.get(base + off, []) if n.startswith("muggle_channel_")]
        return names[0] if len(names) == 1 else None
    drows, crows, nrows, wrows = [], [], [], []
    for ln in out.split("\n"):
        w = ln.split()
        if not w:
            continue
        if w[0] == "D" and len(w) == 14:
            f = [int(x) for x in w[1:]]
            fns = [_fn_term(i, name_of(o)) for i, o in enumerate(f[7:12])]
            drows.append("(%d, %d, %d, %d, (%s, %s, %s), (%s), %d)" % (
                f[0], f[1], f[2], f[3], *["true" if b else "false" for b in f[4:7]], ", ".join(fns), f[12]))
        elif w[0] == "C" and len(w) == 7:
            crows.append("(%s)" % ", ".join(w[1:]))
        elif w[0] == "N" and len(w) == 3:
            nrows.append("(%s, %s)" % (w[1], w[2]))
        elif w[0] == "W" and len(w) == 5:
            wrows.append("(%s%%nat, %s, %s, %s)" % (w[1], w[2], "true" if w[3] == "1" else "false", "true" if w[4] == "1" else "false"))
    if rc != 0 or len(drows) != 512:
        notes.append("(* dispatch probe: exit %d, %d of 512 flag rows *)" % (rc, len(drows)))

    def lst(rows, per=4):
        return "[" + ";\n   ".join("; ".join(rows[i:i + per]) for i in range(0, len(rows), per)) + "]"
    txt = ("(* muggle_channel_init run for every flags value in [0, 512) with requested capacity 4 *)\n"
           "Definition code_dispatch_table : list dispatch_row :=\n  " + lst(drows, 2) + ".\n"
           "(* (requested capacity, return value, capacity, write_cursor, read_cursor, cached_r_cur) *)\n"
           "Definition code_capacity_table : list (Z * Z * Z * Z * Z * Z) :=\n  " + lst(crows, 6) + ".\n"
           "(* (x, (muggle_sync_t)muggle_next_pow_of_2(x)) around every power of two *)\n"
           "Definition code_pow2_table : list (Z * Z) :=\n  " + lst(nrows, 8) + ".\n"
           "(* (field id, sizeof, signed, integer type) of the cursor / counter fields of muggle_channel_t,\n"
           "   muggle_array_blocking_queue_t, muggle_double_buffer_t / muggle_single_buffer_t and of the slot element types *)\n"
           "Definition code_field_widths : list (nat * Z * bool * bool) :=\n  " + lst(wrows, 4) + ".\n")
    return txt, notes


def gen_params(ctx):
    seen = observed_params(ctx)
    fields, notes = [], []
    for f in FIELDS:
        mos = seen.get(f, set())
        if len(mos) != 1:
            # an unobserved or ambiguous site is a failed obligation, not a default
            notes.append("(* site %s: observed %s *)" % (f, sorted(mos)))
            fields.append("%s := MoNone" % f)
        else:
            fields.append("%s := %s" % (f, MO.get(next(iter(mos)), "MoNone")))
    tables, tnotes = dispatch_tables(ctx)
    notes += tnotes
    # source scan (AST based): the channel / queue / double buffer never look at a payload value
    from props import c01_scan
    hits, err = c01_scan.scan()
    if err:
        notes.append("(* payload scan failed: %s *)" % err.replace("*)", "* )"))
    for h in hits[:20]:
        notes.append("(* payload value inspected: %s *)" % h.replace("*)", "* )"))
    tables += ("(* AST scan (lib/props/c01_scan.py) of channel.c, array_blocking_queue.c, double_buffer.c: number of places where a\n"
               "   payload value (slot member data / datas[i], a void* parameter, a local assigned from one) is compared, tested for\n"
               "   truth, converted to an integer, dereferenced, used in arithmetic or handed to a function outside these files;\n"
               "   999 = the scan could not be done *)\n"
               "Definition code_payload_tests : nat := %d.\n" % (999 if err else len(hits)))
    tables += _sliced_functions()
    return ("(* generated by lib/props/c01.py from the memory orders observed at each atomic site of\n"
            "   channel.c / spinlock.c / synclock.c on this run, and from muggle_channel_init run for every\n"
            "   flags value and requested capacity (harness/drivers/c01_dispatch.c); do not edit *)\n"
            "From MV Require Import C01.Model C01.Dispatch.\nLocal Open Scope Z_scope.\n" + "\n".join(notes) + ("\n" if notes else "") +
            "Definition code_params : params :=\n  {| " + ";\n     ".join(fields) + " |}.\n" + tables)


SLICED = [("muggle/c/sync/channel.c", "muggle_channel_" + f, "gen_chan_" + f) for f in
          ("write_sync", "wake_sync", "read_sync", "write_mutex", "wake_mutex", "read_mutex",
           "write_busy", "wake_busy", "read_busy", "write", "read")] + \
         [("muggle/c/sync/array_blocking_queue.c", "muggle_array_blocking_queue_" + f, "gen_abq_" + f) for f in
          ("put", "take")]


def _sliced_functions():
    """Second tie (DESIGN.md 4.4): the bodies of the channel's write / wake / read variants and of the public
    wrappers, sliced out of the clang AST of the C text of this run (lib/props/c01_slice.py) and translated by the
    shared translator lib/leaftrans.py.  A function that cannot be sliced is missing from the file: the obligation
    that mentions it breaks."""
    import leaftrans as L
    from props import c01_slice as S
    out = ["", "(* --- function bodies re-translated from muggle/c/sync/channel.c and array_blocking_queue.c on this run (lib/props/c01_slice.py) --- *)",
           "From MV Require Import Lib.Leaf."]
    flags = ["-std=gnu11", "-I" + V.REPO, "-I" + V.GEN_INC, "-DNDEBUG"]
    for rel, cname, gname in SLICED:
        try:
            out.append(S.translate_sliced(os.path.join(V.REPO, rel), cname, flags, gname)[0])
        except L.LeafError as e:
            out.append("(* slicer / translator error for %s: %s *)\n" % (cname, str(e).replace("*)", "* )")))
        except Exception as e:      # a broken AST must break the obligation, not the machinery
            out.append("(* slicer failure for %s: %s *)\n" % (cname, str(e)[:200].replace("*)", "* )")))
    return "\n".join(out) + "\n"


# ---------------------------------------------------------------------------
# cases

def _chan(name, wk, rm, cap, ks, sched, nread=None, maxtry=None):
    tot = sum(ks)
    if next_pow2(cap) <= 2:
        nread = 0 if nread is None else nread
        maxtry = 2 if maxtry is None else maxtry
    else:
        nread = tot if nread is None else nread
        maxtry = 0 if maxtry is None else maxtry
    lines = ["chan %s %s %d %d %s" % (wk, rm, cap, nread, " ".join(map(str, ks)))]
    if maxtry:
        lines.append("maxtry %d" % maxtry)
    lines.append("sched " + sched)
    return V.Case(name, lines, {"scen": lines[0]})


# pointer values a message can carry (codes shared with c01_driver.c and coq/C01/Model.v g_val): a message is an
# opaque void* for the channel
V_NULL, V_MINUS1 = -1, -3


def v_int(n):
    return -10 - n


def v_shared(k):
    return 9000 + k


def val_kind(code):
    return ("NULL" if code == V_NULL else "(void*)-1" if code == V_MINUS1 else "small-int" if code <= -10
            else "shared-object" if code >= 9000 else "own-object")


def case_vals(case):
    """tag -> value code from the 'v' lines of a case"""
    vals = {}
    for ln in case.lines:
        w = ln.split()
        if w and w[0] == "v":
            for p in w[1:]:
                a, b = p.split(":")
                vals[int(a)] = int(b)
    return vals


def _with_vals(case, rng, cap, ks, dense=False):
    """Adversarial message values: NULL, (void*)-1, small integers equal to cursor values / the capacity, one shared
    object carried by several messages (repeats); the first message of writer 1 is NULL in half of the cases (an
    unwritten slot also reads as NULL)."""
    c2 = next_pow2(cap)
    pool = [V_NULL, V_NULL, V_MINUS1, v_int(1), v_int(c2), v_int(max(1, c2 - 1)), v_int(rng.range(1, c2)),
            v_shared(0), v_shared(0), v_shared(rng.below(8))]
    ps = []
    for i, k in enumerate(ks):
        for j in range(k):
            if rng.chance(2 if dense else 1, 3) or (i == 0 and j == 0 and rng.chance(1, 2)):
                ps.append("%d:%d" % ((i + 1) * 100 + j, rng.choice(pool)))
    if ps:
        case.lines.insert(1, "v " + " ".join(ps))
    return case


def _bigfill(name, flags, cap, drain):
    lines = ["bigfill %d %d %d" % (flags, cap, drain)]
    return V.Case(name, lines, {"scen": lines[0]})


def _chanflags(name, flags, cap, ks, sched, nread=None, maxtry=None):
    """The channel scenario with the RAW flags integer (valid, invalid and out-of-range selectors)."""
    c = _chan(name, "x", "x", cap, ks, sched, nread, maxtry)
    w = c.lines[0].split()
    c.lines[0] = "chanflags %d %s" % (flags, " ".join(w[3:]))
    c.meta["scen"] = c.lines[0]
    return c


def _flag_cases(rng, prefix, flag_list, reps, sticks, nws=(2, 3), search=False):
    """For every flags value in flag_list: >= 2 concurrent writers (one when the writer selector is
    WRITE_SINGLE, the documented usage), capacity > 2 so that messages flow, enough messages to wrap."""
    out = []
    for f in flag_list:
        wk, rm = flag_modes(f)
        for rep in range(reps):
            nw = 1 if wk == "single" else rng.choice(list(nws))
            cap = rng.choice([3, 4, 5, 8])
            c2 = next_pow2(cap)
            per = max(2, (c2 + 1 + nw - 1) // nw)
            ks = [rng.range(per, per + 1) for _ in range(nw)]
            spur = rng.choice([0, 30]) if wk == "sync" else 0
            cvspur = rng.choice([0, 20]) if rm == "mutex" else 0
            fut = ""
            if (rm == "sync" or wk == "sync") and (search or rng.chance(1, 2)):
                fut = " %d %d" % (rng.choice([0, 20]), rng.choice([0, 20]))
            out.append(_chanflags("%s-%d-%d-%d" % (prefix, f, nw, rep), f, cap, ks,
                                  "rand %d %d %d %d%s" % (rng.below(1 << 30), rng.choice(list(sticks)), spur, cvspur, fut)))
    return out


def _abq(name, cap, ks, cs, sched):
    lines = ["abq %d %d %s %s" % (cap, len(ks), " ".join(map(str, ks)), " ".join(map(str, cs))), "sched " + sched]
    return V.Case(name, lines, {"scen": lines[0]})


def _dbuf(name, cap, nonblock, ks, sched):
    lines = ["dbuf %d %d %d %s" % (cap, nonblock, sum(ks), " ".join(map(str, ks))), "sched " + sched]
    return V.Case(name, lines, {"scen": lines[0]})


def corpus_cases(ctx):
    out = []
    # the writer runs alone until the ring is full (FULL at capacity - 2 unread), then the reader drains
    for rm in RMODES:
        out.append(_chan("corpus-fill-%s" % rm, "spin", rm, 4, [4], "list - " + " ".join(["1"] * 60 + ["0"] * 30)))
        out.append(_chan("corpus-fill-single-%s" % rm, "single", rm, 3, [5], "list - " + " ".join(["1"] * 40 + ["0"] * 12 + ["1"] * 30)))
    # two writers, reader asleep in the futex between its check and the wake-up
    out.append(_chan("corpus-sleeper", "sync", "sync", 4, [2, 2], "list - 0 0 0 0 0 0 1 1 1 1 1 1 1 1 2 2 2 2 2 2 2 2 2 2 0 0"))
    # the reader's first two futex waits that would block: interrupted (EINTR), then a spurious wake-up;
    # two writers on the synclock whose first would-block wait is interrupted as well
    out.append(_chan("corpus-futex-eintr", "spin", "sync", 4, [2], "list f0,w1 " + " ".join(["0"] * 12 + ["1"] * 30 + ["0"] * 20)))
    out.append(_chan("corpus-futex-eintr-synclock", "sync", "sync", 4, [2, 2],
                     "list f0,f1,w2 " + " ".join(["0"] * 8 + ["1"] * 4 + ["2"] * 8 + ["1"] * 20 + ["2"] * 20 + ["0"] * 20)))
    # every mode x requested capacity in COVER_CAPS once with a fixed schedule seed
    for wk in WKINDS:
        for rm in RMODES:
            for cap in COVER_CAPS:
                ks = [2] if wk == "single" else [2, 1]
                out.append(_chan("corpus-grid-%s-%s-%d" % (wk, rm, cap), wk, rm, cap, ks,
                                 "rand %d 60 0 0" % (1000 + 100 * WKINDS.index(wk) + 10 * RMODES.index(rm) + cap)))
    # permanently full rings
    for cap in (1, 2):
        for rm in RMODES:
            out.append(_chan("corpus-cap%d-%s" % (cap, rm), "mutex", rm, cap, [2, 1], "rand %d 50 0 0" % (cap * 7)))
    # spurious weak-CAS failure on the write synclock, spurious condvar wake-ups
    out.append(_chan("corpus-spur", "sync", "mutex", 5, [3, 3, 2], "rand 5 40 30 30"))
    # queue of capacity 1: every put after the first blocks; two producers asleep on not_full
    out.append(_abq("corpus-abq-cap1", 1, [2, 2], [4], "list - " + " ".join(["0"] * 30 + ["1"] * 30 + ["2"] * 60)))
    out.append(_abq("corpus-abq-spur", 2, [3, 2], [2, 3], "rand 21 50 0 40"))
    # double buffer: writers fill the back buffer, reader swaps; blocking and non-blocking
    out.append(_dbuf("corpus-dbuf-block", 2, 0, [3, 3], "list - " + " ".join(["1"] * 40 + ["2"] * 40 + ["0"] * 40)))
    out.append(_dbuf("corpus-dbuf-nonblock", 1, 1, [2, 2], "rand 22 80 0 20"))
    # regression files (corpus/C01/*.case): out-of-range flag selectors with two writers, ...
    import glob
    for f in sorted(glob.glob(os.path.join(V.VERIF, "corpus", ID, "*.case"))):
        c = V.Case.load(f)
        c.meta["scen"] = c.lines[0]
        out.append(c)
    return out


def generate(rng, tier):
    cases = []
    reps = 3 if tier == "quick" else 40
    n = 0
    for wk in WKINDS:
        for rm in RMODES:
            for cap in range(1, 10):
                for nw in (1, 2, 3, 4):
                    if wk == "single" and nw != 1:
                        continue
                    for rep in range(reps if wk != "single" else reps * 2):
                        c2 = next_pow2(cap)
                        if c2 <= 2:
                            ks = [rng.range(1, 3) for _ in range(nw)]
                        else:
                            # enough messages to wrap the ring and to hit FULL
                            per = max(1, (c2 + 2 + nw - 1) // nw)
                            ks = [rng.range(1, per + 2) for _ in range(nw)]
                        stick = rng.choice([20, 50, 80, 95])
                        spur = rng.choice([0, 30]) if wk == "sync" else 0
                        cvspur = rng.choice([0, 20]) if rm == "mutex" else 0
                        # futex-wait choices of the scheduler: a wait that would block is interrupted
                        # (EINTR) or ends by a spurious wake-up instead
                        fut = ""
                        if (rm == "sync" or wk == "sync") and rng.chance(2, 3):
                            fut = " %d %d" % (rng.choice([0, 20, 40]), rng.choice([0, 20, 40]))
                        cases.append(_chan("chan-%s-%s-%d-%d-%d" % (wk, rm, cap, nw, n), wk, rm, cap, ks,
                                           "rand %d %d %d %d%s" % (rng.below(1 << 30), stick, spur, cvspur, fut)))
                        n += 1
    # adversarial message values in a third of these scenarios (own stream: the schedules above stay as they were)
    vrng = rng.fork("values")
    for c in cases:
        if vrng.chance(1, 3):
            w = c.lines[0].split()
            _with_vals(c, vrng, int(w[3]), [int(x) for x in w[5:]])
    cases += _big_cases(rng.fork("big"), tier)
    # every flags BYTE muggle_channel_init distinguishes (16 writer selectors x 16 reader selectors: the 12 valid
    # combinations, the invalid ones that fall back to a mutex) with >= 2 concurrent writers, and flags with higher
    # bits set (not looked at by init)
    frng = rng.fork("flags")
    cases += _flag_cases(frng, "flags", list(range(256)), 1 if tier == "quick" else 12, (20, 50, 80))
    cases += _flag_cases(frng, "flagshi", [frng.below(256) + 256 * frng.range(1, 1 << 20) for _ in range(32 if tier == "quick" else 400)],
                         1, (20, 50, 80))
    cases += _guided_cases(rng, tier)
    qreps = 60 if tier == "quick" else 1500
    for i in range(qreps):
        cap = rng.range(1, 4)
        np_, nc = rng.range(1, 3), rng.range(1, 3)
        ks = [rng.range(1, 4) for _ in range(np_)]
        cs = [0] * nc
        for _ in range(sum(ks)):
            cs[rng.below(nc)] += 1
        sched = "rand %d %d 0 %d" % (rng.below(1 << 30), rng.choice([20, 50, 80, 95]), rng.choice([0, 20]))
        cases.append(_abq("abq-%d" % i, cap, ks, cs, sched))
        cap = rng.range(1, 4)
        nw = rng.range(1, 3)
        ks = [rng.range(1, 4) for _ in range(nw)]
        sched = "rand %d %d 0 %d" % (rng.below(1 << 30), rng.choice([20, 50, 80, 95]), rng.choice([0, 20]))
        cases.append(_dbuf("dbuf-%d" % i, cap, rng.below(2), ks, sched))
    return cases


COVER_CAPS = (1, 2, 3, 4, 8)
_COVER = {}
BIG_CAPS = (16, 17, 31, 32, 33, 64)      # requested; rounded 16, 32, 64 (usable 14, 30, 62)


def _split(total, nw, rng, maxk=64):
    ks = [total // nw] * nw
    for i in range(total - sum(ks)):
        ks[i % nw] += 1
    return [min(maxk, k) for k in ks]


def _big_cases(rng, tier, prefix="big", search=False):
    """Capacities 16..64 with backlogs up to capacity - 2 (FULL at the largest capacity must occur), readers that
    stop early (nread < accepted) and writers that give up (maxtry):
      stop   the reader reads a few messages and leaves; the writers fill the ring to capacity - 2 unread, are
             refused and give up after maxtry FULL results (any schedule)
      first  list schedule: the writers run first (each until it has sent its share / is refused), the reader drains
             afterwards: the backlog reaches capacity - 2 with the reader asleep or spinning, then wraps twice
      mix    random schedule, writers never give up, the reader stops early or drains"""
    out = []
    reps = 1 if tier == "quick" else 6
    n = 0
    for wk in WKINDS:
        for rm in RMODES:
            for cap in BIG_CAPS:
                c2 = next_pow2(cap)
                usable = c2 - 2
                for fam in ("stop", "first", "mix"):
                    if tier == "quick" and not search and fam == "mix" and cap not in (16, 64):
                        continue
                    for rep in range(reps):
                        nw = 1 if wk == "single" else rng.range(2, 4)
                        spur = rng.choice([0, 30]) if wk == "sync" else 0
                        cvspur = rng.choice([0, 20]) if rm == "mutex" else 0
                        fut = " %d %d" % (rng.choice([0, 20]), rng.choice([0, 20])) if (rm == "sync" or wk == "sync") and rng.chance(1, 2) else ""
                        rnd = "rand %d %d %d %d%s" % (rng.below(1 << 30), rng.choice([20, 50, 80, 95]), spur, cvspur, fut)
                        if fam == "stop":
                            nread = rng.range(0, 5)
                            total = min(64 * nw, usable + nread + rng.range(2, 6))
                            c = _chan("%s-stop-%s-%s-%d-%d" % (prefix, wk, rm, cap, n), wk, rm, cap, _split(total, nw, rng), rnd,
                                      nread=nread, maxtry=rng.range(1, 3))
                        elif fam == "first":
                            total = min(64 * nw, usable + rng.range(3, usable))
                            ks = _split(total, nw, rng)
                            # the writers run first, round robin among themselves (a refused writer spins on its retry
                            # point; a listed thread that is blocked or has finished hands its turn to the reader), then
                            # the reader drains (list exhausted: round robin over all threads)
                            order = [str(1 + i % nw) for i in range(min(1500, 10 * total + 20))] + ["0"] * 40
                            c = _chan("%s-first-%s-%s-%d-%d" % (prefix, wk, rm, cap, n), wk, rm, cap, ks, "list - " + " ".join(order))
                        else:
                            total = min(64 * nw, 2 * c2 + rng.range(0, 9))
                            ks = _split(total, nw, rng)
                            stop = rng.chance(1, 2)
                            c = _chan("%s-mix-%s-%s-%d-%d" % (prefix, wk, rm, cap, n), wk, rm, cap, ks, rnd,
                                      nread=(rng.range(1, usable) if stop else None), maxtry=(rng.range(2, 4) if stop else None))
                        if rng.chance(1, 4):
                            w = c.lines[0].split()
                            _with_vals(c, rng, cap, [int(x) for x in w[5:]])
                        out.append(c)
                        n += 1
    # cursors beyond 2^16: single-threaded fill / drain of rings of 2^17 slots (and small ones) in every reader mode
    for flags, cap, drain in ((0x23, 1 << 17, 70000), (0x03, 1 << 17, 5), (0x13, 65537, 65536), (0x21, 70000, 1),
                              (0x22, 65536, 65534), (0x23, 4096, 100), (0x20, 3, 1), (0x03, 300, 298)):
        out.append(_bigfill("%s-fill-%d-%d" % (prefix, flags, cap), flags, cap, drain))
    return out


WINDOWS = {
    "w1": "reader commits read_cursor while a writer is between its load of read_cursor and its full check / slot store",
    "w2": "reader loads write_cursor while a writer is between its slot store and the publication",
    "w3": "busy mode: cached read cursor refreshed",
    "w4": "publication wraps write_cursor to 0 and leaves capacity-2 messages unread",
    "w5": "a writer publishes while the reader is between its check and its futex sleep",
}


def _guided_cases(rng, tier):
    """Model-guided schedules (DESIGN.md 4.3): the extracted model is explored (guide mode of
    ocaml/c01_driver.ml) for walks that reach the proofs' case-split windows; the walks are
    replayed on the real code as list schedules."""
    exe = os.path.join(V.BUILD, ID, "model_driver")
    if not os.path.exists(exe):
        return []
    reps = 1 if tier == "quick" else 6
    reqs = []
    n = 0
    for wk in WKINDS:
        for rm in RMODES:
            all_targets = {"sync": ["w1", "w2", "w4", "w5"], "busy": ["w1", "w2", "w3", "w4"], "mutex": ["w4"]}[rm]
            # every mode x requested capacity in COVER_CAPS; capacities 1 and 2 (permanently full) have no window
            for cap in COVER_CAPS:
                c2 = next_pow2(cap)
                if c2 <= 2:
                    targets = ["any"]
                elif cap == 3 or tier != "quick":
                    targets = all_targets
                else:
                    targets = ["any"]
                for target in targets:
                    for rep in range(reps if target != "any" else 1):
                        nw = 1 if wk == "single" else rng.range(2, 3)
                        if c2 <= 2:
                            ks = [rng.range(1, 2) for _ in range(nw)]
                        else:
                            per = (c2 + 1 + nw - 1) // nw  # enough messages to wrap the ring and to refresh the cached cursor
                            ks = [rng.range(per, per + 1) for _ in range(nw)]
                        base = _chan("x", wk, rm, cap, ks, "rand 1 50 0 0")
                        head = [ln for ln in base.lines if not ln.startswith("sched ")]
                        reqs.append((V.Case("guide-%d" % n, head + ["guide %d %s %d" % (rng.below(1 << 30), target, 400 if target != "any" else 30)]),
                                     head, target, wk, rm))
                        n += 1
    res = V.run_batch(exe, [r[0] for r in reqs], per_case_timeout=10.0)
    out = []
    for c, scen, target, wk, rm in reqs:
        r = res.get(c.name)
        if not r or r["status"] != "ok":
            continue
        sched = [ln for ln in r["lines"] if ln.startswith("sched list ")]
        hits = [ln for ln in r["lines"] if ln.startswith("hits")]
        if not sched or len(sched[0]) > 3900:
            continue
        out.append(V.Case("guided-%s-%s-%s-%s" % (target, wk, rm, c.name[6:]), list(scen) + [sched[0]],
                          {"scen": scen[0], "target": target, "model_hits": hits[0].split()[1:] if hits else []}))
    return out


def windows_of_trace(case, lines):
    """Which case-split windows the IMPLEMENTATION trace went through (independent of the model)."""
    scen = chan_scen(case.lines[0].split())
    if scen is None:
        return set()
    rm, cap = scen[2], next_pow2(int(scen[3]))
    usable = max(0, cap - 2)
    hit = set()
    after_load = {}      # writer -> True between its load of read_cursor and its next event
    last_p = {}          # thread -> index of its last P line
    reader_loads = []    # indices of reader loads of write_cursor
    published = consumed = 0
    results, calls = {}, {}
    for ln in lines:
        w = ln.split()
        if w and w[0] == "R" and w[2] in ("ok", "full", "err"):
            results.setdefault(w[1], []).append(w[2])
    for i, ln in enumerate(lines):
        w = ln.split()
        if not w:
            continue
        if w[0] == "P":
            last_p[w[1]] = i
        elif w[0] == "E":
            t, op, cell = w[1], w[2], w[3]
            if t != "0":
                was = after_load.pop(t, False)
                if op == "load" and cell == "rcur":
                    after_load[t] = True
                    if rm == "busy":
                        hit.add("w3")
                del was
            if t == "0" and op == "store" and cell == "rcur":
                consumed += 1
                if any(after_load.values()):
                    hit.add("w1")
            if t == "0" and op == "load" and cell == "wcur":
                reader_loads.append(i)
            if op == "store" and cell == "wcur":
                published += 1
                p = last_p.get(t, -1)
                if any(p < j < i for j in reader_loads):
                    hit.add("w2")
                if w[5] == "0" and usable > 0 and published - consumed == usable:
                    hit.add("w4")
            if t == "0" and op == "fwait" and cell == "wcur" and w[7] == "0":
                hit.add("w5")
            if rm == "mutex" and cell == "rmx" and op == "munlock":
                if t == "0":
                    consumed += 1
                else:
                    k = calls.get(t, 0)
                    calls[t] = k + 1
                    if k < len(results.get(t, [])) and results[t][k] == "ok":
                        published += 1
                        if published % cap == 0 and usable > 0 and published - consumed == usable:
                            hit.add("w4")
    return hit


def search(rng, diverging, tier):
    out = []
    for i in range(4000):
        wk = rng.choice(WKINDS)
        rm = rng.choice(RMODES)
        nw = 1 if wk == "single" else rng.range(1, 4)
        cap = rng.range(1, 9)
        ks = [rng.range(1, 5) for _ in range(nw)]
        out.append(_chan("search-chan-%d" % i, wk, rm, cap, ks,
                         "rand %d %d %d %d %d %d" % (rng.below(1 << 30), rng.choice([10, 30, 50, 80, 95]),
                                                     rng.choice([0, 20, 50]), rng.choice([0, 30]),
                                                     rng.choice([0, 30]), rng.choice([0, 30]))))
    vrng = rng.fork("values")
    for c in out:
        if vrng.chance(1, 2):
            w = c.lines[0].split()
            _with_vals(c, vrng, int(w[3]), [int(x) for x in w[5:]], dense=True)
    out += _big_cases(rng.fork("big"), "thorough", prefix="search-big", search=True)
    # every flags byte with 2..4 concurrent writers under dense context switching: a writer-lock selector that no
    # longer selects a lock shows as a lost / duplicated message
    out += _flag_cases(rng, "search-flags", list(range(256)), 6, (10, 20, 30, 50), nws=(2, 3, 4), search=True)
    for i in range(1500):
        cap = rng.range(1, 4)
        ks = [rng.range(1, 4) for _ in range(rng.range(1, 3))]
        nc = rng.range(1, 3)
        cs = [0] * nc
        for _ in range(sum(ks)):
            cs[rng.below(nc)] += 1
        out.append(_abq("search-abq-%d" % i, cap, ks, cs, "rand %d %d 0 %d" % (rng.below(1 << 30), rng.choice([10, 50, 90]), rng.choice([0, 30]))))
        ks = [rng.range(1, 4) for _ in range(rng.range(1, 3))]
        out.append(_dbuf("search-dbuf-%d" % i, rng.range(1, 4), rng.below(2), ks,
                         "rand %d %d 0 %d" % (rng.below(1 << 30), rng.choice([10, 50, 90]), rng.choice([0, 30]))))
    return out


def model_cases(cases, impl_results):
    out = []
    for c in cases:
        r = impl_results.get(c.name)
        lines = list(c.lines) + ["TRACE"] + (list(r["lines"]) if r else [])
        out.append(V.Case(c.name, lines, c.meta))
    return out


def model_search(ctx):
    """A proof obligation about the memory orders broke: x86 under a serialised run cannot show the
    effect, so look for a history of the MODEL (channel model x read-before-overwrite observer), with the
    parameters extracted from the code, in which the hand-over is unsound (uncovered plain read / stale
    delivery / slot store not ordered after the read of the slot's previous message)."""
    txt = open(os.path.join(V.COQ, "gen", "Params_C01.v")).read()
    vals = []
    for f in FIELDS:
        m = re.search(r"%s := (\w+)" % f, txt)
        vals.append(m.group(1) if m else "MoNone")
    scens = ["chan spin sync 4 3 2 1", "chan sync sync 4 3 2 1", "chan single busy 4 4 4", "chan spin busy 4 4 2 2",
             "chan sync busy 3 4 2 2", "chan single sync 3 3 3",
             # enough messages to reuse a slot (read-before-overwrite needs a second lap)
             "chan single sync 4 6 6", "chan single busy 4 6 6", "chan spin sync 3 6 3 3", "chan sync busy 4 7 4 3"]
    cases = [V.Case("modelsearch-%d" % i, [s, "params " + " ".join(vals), "explore %d 400" % (ctx.seed + i)])
             for i, s in enumerate(scens)]
    res = ctx.run_model(cases)
    for c in cases:
        r = res.get(c.name)
        if r and r["lines"] and r["lines"][0].startswith("FOUND"):
            lines = [c.lines[0], c.lines[1]] + [ln for ln in r["lines"] if ln.startswith("modelsched")]
            return (V.Case(c.name, lines),
                    "model history under the memory orders extracted from the code (%s): %s" % (" ".join(vals), r["lines"][0][6:]))
    return None


# ---------------------------------------------------------------------------
# independent monitor (does not use the Coq model): works on the trace only

def monitor(case, lines):
    scen = case.lines[0].split()
    if any(ln.startswith("modelsched") for ln in case.lines):
        return ("model-level counterexample recorded in this case (memory orders as extracted from the code when it was "
                "found): a delivery without happens-before edge, or a slot store not ordered after the read of the slot's "
                "previous message, exists in the view model; see the model output")
    if scen[0] == "bigfill":
        return _mon_bigfill(scen, lines)
    for ln in lines:
        if ln.startswith("DEADLOCK") or ln.startswith("LIVELOCK"):
            # a channel that lost or duplicated a message usually ends with the reader waiting for ever: name the
            # first anomaly of the trace itself (cursor collision, wrong delivery, ...) before the scheduler's verdict
            first = None
            if scen[0] in ("chan", "chanflags") and lines[0].startswith("F init 0"):
                try:
                    first = _mon_chan(chan_scen(scen), case, lines, totals=False)
                except Exception:
                    first = None
            return ("%s; then the scheduler reported %s" % (first, ln)) if first else "scheduler reported %s" % ln
    if not lines or not lines[0].startswith("F init 0"):
        return "init failed: %r" % (lines[0] if lines else None)
    hb = _mon_hb(lines)
    if hb:
        return hb
    if scen[0] in ("chan", "chanflags"):
        return _mon_rdhb(chan_scen(scen), lines) or _mon_chan(chan_scen(scen), case, lines)
    if scen[0] == "abq":
        return _mon_abq(scen, lines)
    if scen[0] == "dbuf":
        return _mon_dbuf(scen, case, lines)
    return "unknown scenario"


class _VC(dict):
    def join(self, o):
        for k, v in o.items():
            if self.get(k, 0) < v:
                self[k] = v


def _mon_hb(lines):
    """Happens-before from the trace (vector clocks): release/acquire on atomic cells as logged,
    mutex unlock -> lock, condvar wait = unlock ... lock.  Every payload must have been written
    (note "put") before the consumer's access (note "got") in happens-before order."""
    vc, rel, wrote, held, cvm = {}, {}, {}, {}, {}
    ACQ = ("acq", "acqrel", "sc", "con")
    REL = ("rel", "acqrel", "sc")

    def clock(t):
        if t not in vc:
            vc[t] = _VC({t: 1})
        return vc[t]
    for ln in lines:
        w = ln.split()
        if not w:
            continue
        if w[0] == "E":
            t, op, cell, mo = w[1], w[2], w[3], w[4]
            c = clock(t)
            if op == "load":
                if mo in ACQ and cell in rel:
                    c.join(rel[cell])
            elif op in ("store", "clear"):
                rel[cell] = _VC(c) if mo in REL else _VC()
            elif op in ("tas", "xchg", "fadd", "fsub", "casw", "cass"):
                if mo in ACQ and cell in rel:
                    c.join(rel[cell])
                if not (op in ("casw", "cass") and w[7] != "1") and mo in REL:
                    rel.setdefault(cell, _VC()).join(c)
                # a relaxed read-modify-write continues the release sequence: nothing to do
            elif op == "mlock":
                if cell in rel:
                    c.join(rel[cell])
                held.setdefault(t, []).append(cell)
            elif op == "munlock":
                rel[cell] = _VC(c)
                if cell in held.get(t, []):
                    held[t].remove(cell)
            elif op == "cvwait":
                m = held.get(t, [None])[-1] if held.get(t) else None
                cvm[t] = m
                if m is not None:
                    rel[m] = _VC(c)
            elif op == "cvwoke":
                m = cvm.get(t)
                if m in rel:
                    c.join(rel[m])
            c[t] = c.get(t, 0) + 1
        elif w[0] == "R":
            t = w[1]
            c = clock(t)
            if w[2] == "put":
                wrote[w[3]] = (t, c.get(t, 0))
                c[t] = c.get(t, 0) + 1
            elif w[2] == "got" and w[3] in wrote:
                pt, ep = wrote[w[3]]
                if pt != t and c.get(pt, 0) < ep:
                    return ("payload of message %s (written by thread %s before the hand-over) is not ordered before the "
                            "access of the consumer thread %s: no happens-before path through the logged release/acquire "
                            "operations" % (w[3], pt, t))
    return None


def _valtxt(v):
    return ("NULL" if v == -1 else "(void*)-1" if v == -3 else "an unknown pointer" if v == -2 else
            "the small integer %d" % (-10 - v) if v <= -10 else "the shared object %d" % (v - 9000) if v >= 9000
            else "the payload of message %d" % v)


def _mon_bigfill(scen, lines):
    """single-threaded fill / drain of a large ring: refused exactly at capacity - 2 unread, everything read back in
    order (independent of the model: from the documented ring arithmetic)"""
    flags, req, drain = int(scen[1]), int(scen[2]), int(scen[3])
    cap = next_pow2(req)
    usable = max(0, cap - 2)
    if not lines or lines[0] != "F init 0 cap=%d" % cap:
        return "init: %r, expected capacity %d" % (lines[0] if lines else None, cap)
    m = re.match(r"F big fill1=(\d+) refused=(\d) fill2=(\d+) read=(\d+) bad=(-?\d+) wcur=(\d+) rcur=(\d+)$", lines[-1])
    if not m:
        return "no summary line: %r" % lines[-1]
    f1, ref, f2, rd, bad, wc, rc = [int(x) for x in m.groups()]
    d = min(drain, usable)
    if f1 != usable:
        return ("single writer, nothing read: the write was refused as FULL after %d accepted messages; the ring of %d slots "
                "holds %d (flags 0x%x)" % (f1, cap, usable, flags))
    if ref != 1:
        return "a second write at a full ring was accepted"
    if bad != -1:
        return "read number %d did not return message %d (order / overwrite)" % (bad, bad)
    if f2 != d:
        return "after reading %d of %d messages the writer was refused after %d further messages (expected %d)" % (d, usable, f2, d)
    if rd != f1 + f2:
        return "read %d messages of %d accepted" % (rd, f1 + f2)
    if wc != (f1 + f2) % cap or rc != (f1 + f2 - 1) % cap:
        return "final cursors %d / %d differ from accepted mod capacity / (read - 1) mod capacity" % (wc, rc)
    return None


def _mon_rdhb(scen, lines):
    """Read-before-overwrite (the consumer side of the hand-over): when a writer stores into a slot, the reader's
    read of the message that was in that slot before must be ordered before the store.  From the trace: the reader's
    store of read_cursor after its k-th slot read must be a release (or stronger) store, and the writer that reuses the
    slot must have read a read_cursor value stored at or after that one (its own load, or through the writer lock /
    the cached cursor; the writer's load is taken as the acquiring side whatever its memory order: the library loads
    it relaxed, which is recorded as an observation).  Mutex reader mode: ordered by read_mutex (checked by lock order)."""
    rm, cap = scen[2], next_pow2(int(scen[3]))
    if rm == "mutex" or cap <= 2:
        return None
    REL = ("rel", "acqrel", "sc")
    reads_committed = 0          # reader slot reads whose read_cursor store happened
    published_upto = 0           # reads published by a release store of read_cursor (release sequence broken by rlx)
    seen = {}                    # writer -> reads it knows to be complete
    lock_seen = 0                # knowledge handed over through the writer lock / the cached cursor
    holder_known = {}
    nstores = 0
    for ln in lines:
        w = ln.split()
        if not w or w[0] != "E":
            continue
        t, op, cell, mo = w[1], w[2], w[3], w[4]
        if cell == "rcur" and op == "store":
            reads_committed += 1
            published_upto = reads_committed if mo in REL else 0
        elif cell == "rcur" and op == "load":
            seen[t] = max(seen.get(t, 0), published_upto)
            lock_seen = max(lock_seen, seen[t])       # the cached cursor / the lock hand the knowledge on
        elif cell == "wcur" and op == "store":
            # publication number nstores (0-based) reuses the slot of publication nstores - cap: read number
            # nstores - cap + 1 (1-based) must be known complete to this writer
            need = nstores - cap + 1
            know = max(seen.get(t, 0), lock_seen)
            if need > 0 and know < need:
                return ("writer %s stored message number %d into slot %d although the reader's read of the previous message "
                        "in that slot (read number %d) is not ordered before the store: read_cursor was stored with memory "
                        "order weaker than release (or never loaded): no happens-before from the slot read to the overwrite"
                        % (t, nstores, nstores % cap, need))
            nstores += 1
    del holder_known
    return None


def _mon_chan(scen, case, lines, totals=True):
    wk, rm, reqcap, nread = scen[1], scen[2], int(scen[3]), int(scen[4])
    ks = [int(x) for x in scen[5:]]
    cap = next_pow2(reqcap)
    usable = max(0, cap - 2)
    vals = case_vals(case)

    def val_of(tag):
        return vals.get(tag, tag)
    if not lines[0].endswith("cap=%d" % cap):
        return "capacity after rounding: %s, expected %d" % (lines[0], cap)
    # pass 1: result of every muggle_channel_write call per thread, in call order
    results = {}
    for ln in lines:
        w = ln.split()
        if w and w[0] == "R" and w[2] in ("ok", "full", "err"):
            results.setdefault(w[1], []).append(w[2])
    callno = {}
    cur = {}            # thread -> tag being written
    published = []      # tags in publication order
    consumed = 0
    delivered = []
    wcur, rcur = 0, cap - 1
    at_load = {}        # thread -> (unread, wcur, value) at its load of read_cursor in this call
    oks, gaveup = [], []
    pending_fld = None
    for ln in lines:
        w = ln.split()
        if not w:
            continue
        if w[0] == "E":
            t, op, cell = w[1], w[2], w[3]
            if cell == "wcur" and op == "store":
                v = int(w[5])
                if v != (wcur + 1) % cap:
                    return "write_cursor stored %d after %d (capacity %d)" % (v, wcur, cap)
                wcur = v
                if t not in cur:
                    return "publication by thread %s outside a write call" % t
                published.append(cur[t])
                if len(published) - consumed >= cap:
                    return ("message %d published while %d accepted messages are unread in a ring of %d slots: an unread "
                            "slot was overwritten" % (cur[t], len(published) - consumed - 1, cap))
            elif cell == "rcur" and op == "store":
                v = int(w[5])
                if v != (rcur + 1) % cap:
                    return "read_cursor stored %d after %d (capacity %d)" % (v, rcur, cap)
                rcur = v
                consumed += 1
            elif cell == "rcur" and op == "load":
                if int(w[5]) != rcur:
                    return "load of read_cursor returned %s, last stored %d" % (w[5], rcur)
                at_load[t] = (len(published) - consumed, wcur, rcur)
            elif cell == "wcur" and op == "load":
                if int(w[5]) != wcur:
                    return "load of write_cursor returned %s, last stored %d" % (w[5], wcur)
            elif cell == "rmx" and op == "mlock" and t != "0":
                at_load[t] = (len(published) - consumed, None, None)
            elif cell == "rmx" and op == "munlock":
                if t == "0":
                    consumed += 1
                else:
                    k = callno.get(t, 0)
                    callno[t] = k + 1
                    res = results.get(t, [])
                    if k < len(res) and res[k] == "ok":
                        published.append(cur.get(t, -9))
                        if len(published) - consumed >= cap:
                            return ("message %s published while %d accepted messages are unread in a ring of %d slots: an "
                                    "unread slot was overwritten" % (cur.get(t), len(published) - consumed - 1, cap))
        elif w[0] == "R":
            t, what, v = w[1], w[2], int(w[3])
            if what == "put":
                cur[t] = v
                at_load.pop(t, None)
            elif what == "ok":
                oks.append(v)
                if rm != "mutex" and (not published or v not in published):
                    return "write of %d returned success without a publication of write_cursor" % v
                at_load.pop(t, None)
            elif what == "full":
                if t not in at_load:
                    return "FULL returned to thread %s for message %d without reading the read cursor in this call" % (t, v)
                unread, wc, rc = at_load.pop(t)
                if unread != usable:
                    return ("FULL returned for message %d although only %d of %d usable slots held unread messages at the "
                            "instant the writer read the cursors%s" % (
                                v, unread, usable, "" if wc is None else " (write_cursor=%d read_cursor=%d capacity=%d)" % (wc, rc, cap)))
            elif what == "giveup":
                gaveup.append(v)
            elif what == "err":
                return "muggle_channel_write returned error %d" % v
            elif what == "got":
                # v is the canonical code of the pointer VALUE received; the message it must be is the k-th published
                k = len(delivered)
                if k >= len(published):
                    return "read %d returned %s but only %d messages had been published" % (k, _valtxt(v), len(published))
                want = val_of(published[k])
                if v != want:
                    return ("read %d returned %s; publication order says message %d carrying %s (delivered so far %s, "
                            "published %s)" % (k, _valtxt(v), published[k], _valtxt(want), delivered, published))
                delivered.append(published[k])
                pending_fld = v
            elif what == "fld":
                # dereferenced only when the value is a harness object: own payload (tag + 1000, written by the
                # producer before the hand-over), shared object (code + 1000); otherwise reported as -1
                want = None if pending_fld is None else (pending_fld + 1000 if pending_fld >= 0 else -1)
                if want is None or v != want:
                    return "payload field behind %s read as %d, expected %s" % (
                        None if pending_fld is None else _valtxt(pending_fld), v, want)
                pending_fld = None
    # totals
    if not totals:
        return None
    if sorted(oks) != sorted(published):
        return "accepted messages %s differ from the publications %s" % (sorted(oks), sorted(published))
    if len(set(published)) != len(published):
        return "a message was published twice: %s" % published
    expected = []
    for i, k in enumerate(ks):
        expected += [(i + 1) * 100 + j for j in range(k)]
    if sorted(oks + gaveup) != sorted(expected):
        return "messages neither accepted nor given up: %s" % sorted(set(expected) - set(oks) - set(gaveup))
    for i in range(len(ks)):
        mine = [m for m in delivered if m // 100 == i + 1]
        if mine != sorted(mine):
            return "messages of writer %d delivered out of order: %s" % (i + 1, mine)
    if len(delivered) != nread:
        return "reader finished with %d of %d reads" % (len(delivered), nread)
    if nread == len(oks) and delivered != published:
        return "drained channel: delivered %s differs from accepted %s" % (delivered, published)
    f = [ln for ln in lines if ln.startswith("F acc=")]
    if not f:
        return "no summary line"
    m = re.match(r"F acc=(\d+) del=(\d+) wcur=(\d+) rcur=(\d+)", f[-1])
    if not m or int(m.group(1)) != len(oks) or int(m.group(2)) != len(delivered):
        return "summary %r differs from the trace (accepted %d, delivered %d)" % (f[-1], len(oks), len(delivered))
    if int(m.group(3)) != len(published) % cap or int(m.group(4)) != (len(delivered) - 1) % cap:
        return "final cursors %r differ from (accepted mod capacity, delivered - 1 mod capacity)" % f[-1]
    return None


def _mon_abq(scen, lines):
    cap, np_ = int(scen[1]), int(scen[2])
    ks = [int(x) for x in scen[3:3 + np_]]
    cs = [int(x) for x in scen[3 + np_:]]
    cur, put_order, pending, oks, got = {}, [], {}, [], []
    deq = 0
    pend_fld = None
    for ln in lines:
        w = ln.split()
        if not w:
            continue
        if w[0] == "E":
            t, op, cell = int(w[1]), w[2], w[3]
            infl = len(put_order) - deq
            if op == "cvsig" and cell == "cvne":
                if t >= np_ or t not in cur:
                    return "enqueue by thread %d outside a put call" % t
                put_order.append(cur[t])
                if infl + 1 > cap:
                    return "item %d enqueued while the queue already held %d of %d items" % (cur[t], infl, cap)
            elif op == "cvsig" and cell == "cvnf":
                if infl <= 0:
                    return "dequeue by thread %d from an empty queue" % t
                pending[t] = deq
                deq += 1
            elif op == "cvwait" and cell == "cvnf":
                if infl != cap:
                    return "put blocked although the queue held %d of %d items" % (infl, cap)
            elif op == "cvwait" and cell == "cvne":
                if infl != 0:
                    return "take blocked although the queue held %d items" % infl
        elif w[0] == "R":
            t, what, v = int(w[1]), w[2], int(w[3])
            if what == "put":
                cur[t] = v
            elif what == "ok":
                oks.append(v)
                if v not in put_order:
                    return "put of %d returned without an enqueue" % v
            elif what == "err":
                return "put returned error %d" % v
            elif what == "got":
                if t not in pending:
                    return "take returned %d to thread %d without a dequeue" % (v, t)
                k = pending.pop(t)
                if put_order[k] != v:
                    return "dequeue number %d returned item %d; enqueue order (lock order) says %d" % (k, v, put_order[k])
                got.append(v)
                pend_fld = v
            elif what == "fld":
                if pend_fld is None or v != pend_fld + 1000:
                    return "payload field of item %s read as %d" % (pend_fld, v)
                pend_fld = None
    expected = []
    for i, k in enumerate(ks):
        expected += [(i + 1) * 100 + j for j in range(k)]
    if sorted(oks) != sorted(expected) or sorted(put_order) != sorted(expected):
        return "items put %s / enqueued %s differ from the scripts %s" % (sorted(oks), sorted(put_order), expected)
    if len(got) != sum(cs) or sorted(got) != sorted(put_order[:len(got)]):
        return "items taken %s differ from the first %d enqueued %s" % (sorted(got), len(got), put_order)
    f = [ln for ln in lines if ln.startswith("F acc=")]
    m = re.match(r"F acc=(\d+) del=(\d+) cnt=(-?\d+) put=(\d+) take=(\d+)", f[-1]) if f else None
    if not m or int(m.group(1)) != len(oks) or int(m.group(2)) != len(got) or int(m.group(3)) != len(put_order) - deq \
            or int(m.group(4)) != len(put_order) % cap or int(m.group(5)) != deq % cap:
        return "summary %r differs from the trace (put %d, taken %d)" % (f[-1] if f else None, len(put_order), deq)
    return None


def _mon_dbuf(scen, case, lines):
    cap, nonblock, total = int(scen[1]), int(scen[2]), int(scen[3])
    ks = [int(x) for x in scen[4:]]
    cur, written, oks, gaveup, got = {}, [], [], [], []
    swapped = 0              # items handed to the reader by the swaps so far
    at_lock = {}
    expect = []              # the batch the reader must see next
    batch_left = None
    pend_fld = None
    for ln in lines:
        w = ln.split()
        if not w:
            continue
        if w[0] == "E":
            t, op, cell = int(w[1]), w[2], w[3]
            back = len(written) - swapped
            if op in ("mlock", "cvwoke") and t != 0 and w[5] == "0":
                at_lock[t] = back
            elif op == "cvsig" and cell == "cvne":
                if t not in cur:
                    return "append by thread %d outside a write call" % t
                written.append(cur[t])
                if back + 1 > cap:
                    return "item %d appended to a back buffer that already held %d of %d items" % (cur[t], back, cap)
            elif op == "cvsig" and cell == "cvnf":
                if t != 0:
                    return "swap by a writer thread"
                if back == 0:
                    return "reader swapped an empty back buffer"
                expect = written[swapped:]
                swapped = len(written)
            elif op == "cvwait" and cell == "cvnf":
                if nonblock:
                    return "non-blocking write went to sleep"
                if back != cap:
                    return "write blocked although the back buffer held %d of %d items" % (back, cap)
            elif op == "cvwait" and cell == "cvne":
                if back != 0:
                    return "read blocked although the back buffer held %d items" % back
        elif w[0] == "R":
            t, what, v = int(w[1]), w[2], int(w[3])
            if what == "put":
                cur[t] = v
            elif what == "ok":
                oks.append(v)
                if v not in written:
                    return "write of %d returned success without an append" % v
            elif what == "full":
                if not nonblock:
                    return "blocking write returned FULL"
                if at_lock.get(t) != cap:
                    return "FULL returned for %d although the back buffer held %s of %d items" % (v, at_lock.get(t), cap)
            elif what == "giveup":
                gaveup.append(v)
            elif what == "err":
                return "write returned error %d" % v
            elif what == "batch":
                if v != len(expect):
                    return "batch of %d items returned; %d items were written since the previous read: %s" % (v, len(expect), expect)
                batch_left = list(expect)
            elif what == "got":
                if not batch_left or batch_left[0] != v:
                    return "batch item %d, expected %s (write order under the lock)" % (v, batch_left[:1] if batch_left else None)
                batch_left.pop(0)
                got.append(v)
                pend_fld = v
            elif what == "fld":
                if pend_fld is None or v != pend_fld + 1000:
                    return "payload field of item %s read as %d" % (pend_fld, v)
                pend_fld = None
    expected = []
    for i, k in enumerate(ks):
        expected += [(i + 1) * 100 + j for j in range(k)]
    if sorted(oks) != sorted(written) or sorted(oks + gaveup) != sorted(expected):
        return "items accepted %s / appended %s / given up %s differ from the scripts %s" % (sorted(oks), sorted(written), gaveup, expected)
    if got != written[:len(got)] or (not gaveup and len(got) != total):
        return "items read %s are not the written items in order %s" % (got, written)
    f = [ln for ln in lines if ln.startswith("F acc=")]
    m = re.match(r"F acc=(\d+) del=(\d+) back=(\d+)", f[-1]) if f else None
    if not m or int(m.group(1)) != len(oks) or int(m.group(2)) != len(got) or int(m.group(3)) != len(written) - swapped:
        return "summary %r differs from the trace" % (f[-1] if f else None)
    return None


def nontrivial_key(case, lines):
    txt = "\n".join(lines)
    if (" full " in txt or "fwait" in txt or "cvwait" in txt or " tas wlock acq 1 " in txt
            or re.search(r"store wcur \w+ 0 ", txt)):
        return hash(txt)
    return None


_FCOVER = {}


def tally(dist, case, lines):
    raw = case.lines[0].split()
    scen = chan_scen(raw) or raw
    if raw[0] == "chanflags":
        # coverage of the flags values: distinct flag bytes run, and distinct (writer selector, reader selector)
        # pairs run with >= 2 concurrent writers (240 = all pairs whose writer selector is not WRITE_SINGLE)
        if dist.get("evaluated_chanflags", 0) == 0:
            _FCOVER.clear()
        f = int(raw[1])
        nwr = len(raw) - 4
        _FCOVER.setdefault("bytes", set()).add(f & 0xff)
        if nwr >= 2:
            _FCOVER.setdefault("pairs2", set()).add((f & 0x0f, (f >> 4) & 0x0f))
            if (f & 0x0f) > 3:
                dist["out_of_range_writer_selector_2plus_writers"] = dist.get("out_of_range_writer_selector_2plus_writers", 0) + 1
        if f > 0xff:
            dist["flags_with_higher_bits"] = dist.get("flags_with_higher_bits", 0) + 1
        dist["flag_bytes_covered_of_256"] = len(_FCOVER.get("bytes", ()))
        dist["selector_pairs_with_2plus_writers_of_240"] = len(_FCOVER.get("pairs2", ()))
        dist["evaluated_chanflags"] = dist.get("evaluated_chanflags", 0) + 1
    if scen[0] == "chan":
        fam = ("flags" if raw[0] == "chanflags" else "guided" if case.name.startswith("guided-")
               else "corpus" if case.name.startswith("corpus-") else "random")
        if int(scen[3]) in COVER_CAPS and fam != "flags":
            # coverage of the 12 modes x requested capacities {1, 2, 3, 4, 8} per scenario family (60 = complete)
            if dist.get("evaluated_chan", 0) == 0:
                _COVER.clear()
            _COVER.setdefault(fam, set()).add((scen[1], scen[2], int(scen[3])))
            dist["modes_x_caps_covered_%s_of_60" % fam] = len(_COVER[fam])
        dist["evaluated_chan"] = dist.get("evaluated_chan", 0) + 1
        guided = case.name.startswith("guided-")
        if guided:
            dist["guided_schedules"] = dist.get("guided_schedules", 0) + 1
        for wn in sorted(windows_of_trace(case, lines)):
            dist["window_%s" % wn] = dist.get("window_%s" % wn, 0) + 1
            if guided:
                dist["guided_window_%s" % wn] = dist.get("guided_window_%s" % wn, 0) + 1
        if guided and case.meta.get("target") in WINDOWS:
            dist["guided_targeted"] = dist.get("guided_targeted", 0) + 1
        if guided and case.meta.get("target") in windows_of_trace(case, lines):
            dist["guided_target_hit"] = dist.get("guided_target_hit", 0) + 1
    if scen[0] == "chan":
        c2 = next_pow2(int(scen[3]))
        nfull = sum(1 for ln in lines if ln.startswith("R ") and " full " in ln)
        ngive = sum(1 for ln in lines if ln.startswith("R ") and " giveup " in ln)
        noks = sum(1 for ln in lines if ln.startswith("R ") and " ok " in ln)
        if c2 >= 16:
            dist["capacity_%d_scenarios" % c2] = dist.get("capacity_%d_scenarios" % c2, 0) + 1
            if nfull:
                # the monitor has checked that every FULL happened at capacity - 2 unread: the backlog was reached
                dist["capacity_%d_scenarios_with_FULL_at_%d_unread" % (c2, c2 - 2)] = \
                    dist.get("capacity_%d_scenarios_with_FULL_at_%d_unread" % (c2, c2 - 2), 0) + 1
        if c2 > 2 and int(scen[4]) < noks:
            dist["reader_stops_early"] = dist.get("reader_stops_early", 0) + 1
        if c2 > 2 and ngive:
            dist["writer_gives_up_ring_not_degenerate"] = dist.get("writer_gives_up_ring_not_degenerate", 0) + 1
        for code in case_vals(case).values():
            kk = "message_value_" + val_kind(code)
            dist[kk] = dist.get(kk, 0) + 1
        for ln in lines:
            if ln.startswith("R 0 got "):
                v = int(ln.split()[3])
                if v < 0 or v >= 9000:
                    kk = "delivered_value_" + val_kind(v)
                    dist[kk] = dist.get(kk, 0) + 1
    if raw[0] == "bigfill":
        if next_pow2(int(raw[2])) > 65536:
            dist["bigfill_cursors_beyond_65536"] = dist.get("bigfill_cursors_beyond_65536", 0) + 1
    k = raw[0] + ("-%s-%s" % (scen[1], scen[2]) if scen[0] == "chan" else "")
    dist[k] = dist.get(k, 0) + 1
    dist["events"] = dist.get("events", 0) + sum(1 for ln in lines if ln.startswith("E "))
    for ln in lines:
        if ln.startswith("R ") and " full " in ln:
            dist["full_results"] = dist.get("full_results", 0) + 1
        elif ln.startswith("E ") and " store wcur " in ln and ln.split()[5] == "0":
            dist["wraps"] = dist.get("wraps", 0) + 1
        elif " fwait " in ln and ln.endswith(" 1"):
            dist["futex_sleeps"] = dist.get("futex_sleeps", 0) + 1
        elif " fwait " in ln and ln.endswith(" 2"):
            dist["futex_interrupted"] = dist.get("futex_interrupted", 0) + 1
        elif " fwait " in ln and ln.endswith(" 3"):
            dist["futex_spurious_wakeups"] = dist.get("futex_spurious_wakeups", 0) + 1
        elif " cvwait " in ln:
            dist["condvar_sleeps"] = dist.get("condvar_sleeps", 0) + 1
        elif ln.startswith("W "):
            dist["condvar_spurious"] = dist.get("condvar_spurious", 0) + 1
        elif ln.startswith("E ") and ln.endswith(" 0 1 2"):
            dist["spurious_cas"] = dist.get("spurious_cas", 0) + 1


MANIFEST = {
    "level_text": ("Coq theorems over an executable interleaving model of channel.c (all 4 writer-lock kinds x 3 reader "
                   "modes, any number of writers, any capacity incl. the permanently full capacities 1 and 2, every "
                   "schedule incl. spurious weak-CAS failures and condvar wake-ups): delivered is a prefix of accepted "
                   "(equal when drained), FULL only at capacity-2 unread at the instant of the writer's cursor load, no slot "
                   "holding an unread message is overwritten, every slot/payload read by the reader is covered by its view "
                   "(release/acquire, memory orders re-extracted from the code each run).  Tie: the real code runs under a "
                   "deterministic scheduler (hooked atomics, emulated futex/mutex/condvar) and every trace is replayed on "
                   "the extracted model; an independent monitor checks order, FULL, overwrite, payload and a vector-clock "
                   "happens-before on the traces."),
    "design_ref": "DESIGN.md sections 4.2, 4.3, 6/C01, Appendix A.5",
    "level_note": ("Trusted: Coq kernel, extraction, vsched scheduler and its futex/mutex/condvar semantics, SC+views memory "
                   "model as stand-in for C11 (DRF-SC assumed); weak-memory effects exist only in the model."),
    "technique": "Coq invariant proofs over all interleavings (N writers) + deterministic-scheduler trace acceptance by the extracted model",
}
