"""C18 coverage tie: which functions of the library can acquire a resource of the property's fault class?

On every run the clang JSON AST of EVERY .c file under muggle/c is read (cached per file by source text + header
hash + flags); for each function definition the set of directly called functions is recorded (callee position of a
CallExpr that names a function; a call through a pointer is recorded as <indirect>).  A function ACQUIRES when a
primitive of PRIMITIVES is reachable from its body through that call graph (static callees resolved in their own
translation unit first).  The allocating ENTRY POINTS are the acquiring functions with external linkage.

The same walk over harness/drivers/c18_driver.c yields the library functions that the instance table drives with the
faults armed (reachable inside the driver from a function used as `.op` of g_inst[]).

Both lists are written into coq/gen/Params_C18.v; coq/C18/Coverage.v holds the hand-written, justified exclusion
list and ProofsGen.v / Properties_C18.v the obligation: every allocating entry point is driven under faults or
excluded with a reason, and no exclusion is stale."""
import hashlib
import json
import os
import subprocess
from concurrent.futures import ThreadPoolExecutor

PRIMITIVES = ["malloc", "calloc", "realloc", "aligned_alloc", "posix_memalign", "strdup", "fopen", "fdopen", "socket",
              "socketpair", "pipe", "pipe2", "eventfd", "epoll_create", "epoll_create1", "open", "openat", "creat",
              "shm_open", "shmget", "shmat", "mmap", "opendir", "dup", "dup2", "accept", "accept4", "dlopen", "popen",
              "timerfd_create", "signalfd", "inotify_init", "inotify_init1", "kqueue"]


class CovError(Exception):
    pass


def _strip(n):
    while n.get("kind") in ("ImplicitCastExpr", "ParenExpr", "CStyleCastExpr") and n.get("inner"):
        n = n["inner"][0]
    return n


def _calls(node, acc):
    if isinstance(node, dict):
        if node.get("kind") == "CallExpr" and node.get("inner"):
            f = _strip(node["inner"][0])
            rd = f.get("referencedDecl") if f.get("kind") == "DeclRefExpr" else None
            if rd is not None and rd.get("kind") == "FunctionDecl":
                acc.add(rd["name"])
            else:
                acc.add("<indirect>")
        for c in node.get("inner") or ():
            _calls(c, acc)
    elif isinstance(node, list):
        for c in node:
            _calls(c, acc)


def _file_graph(path, cflags):
    """[(name, is_static, sorted callees)] for every function DEFINED in the translation unit of `path`
    (definitions coming from headers included: they are static inline helpers and take part in the graph)."""
    cmd = ["clang", "-fsyntax-only", "-w"] + list(cflags) + ["-Xclang", "-ast-dump=json", path]
    p = subprocess.run(cmd, stdout=subprocess.PIPE, stderr=subprocess.PIPE, text=True, timeout=300)
    if p.returncode != 0 or not p.stdout.strip():
        raise CovError("clang failed on %s: %s" % (path, p.stderr.strip().split("\n")[-1][:200] if p.stderr else "no output"))
    tu = json.loads(p.stdout)
    out = []
    for d in tu.get("inner", []):
        if d.get("kind") != "FunctionDecl":
            continue
        body = [c for c in d.get("inner", []) if c.get("kind") == "CompoundStmt"]
        if not body:
            continue
        acc = set()
        _calls(body, acc)
        loc = d.get("loc", {})
        loc = loc.get("expansionLoc", loc)
        out.append([d["name"], d.get("storageClass") == "static", sorted(acc), "includedFrom" not in loc])
    return out, tu


def file_graph(path, cflags, cache_dir, hdr_hash, want_tu=False):
    txt = open(path, "rb").read().decode("utf-8", "replace")
    h = hashlib.sha256((txt + hdr_hash + " ".join(cflags) + "cg3").encode()).hexdigest()
    cf = os.path.join(cache_dir, h + ".cg.json")
    if os.path.exists(cf) and not want_tu:
        return json.load(open(cf)), None
    g, tu = _file_graph(path, cflags)
    os.makedirs(cache_dir, exist_ok=True)
    tmp = cf + ".tmp%d" % os.getpid()
    with open(tmp, "w") as f:
        json.dump(g, f)
    os.replace(tmp, cf)
    return g, tu


class Graph:
    def __init__(self):
        self.ext = {}        # name -> set(callees)        functions with external linkage (merged over files)
        self.stat = {}       # (file, name) -> set(callees)
        self.where = {}      # name -> [files]
        self.main_static = set()   # (file, name) of static functions defined in the .c file itself

    def add_file(self, rel, g):
        for name, is_static, callees, is_main in g:
            if is_static:
                self.stat.setdefault((rel, name), set()).update(callees)
                if is_main:
                    self.main_static.add((rel, name))
            else:
                self.ext.setdefault(name, set()).update(callees)
                self.where.setdefault(name, [])
                if rel not in self.where[name]:
                    self.where[name].append(rel)

    def acquiring(self, prims):
        """{node: primitive path} for every node from which a primitive is reachable."""
        prims = set(prims)
        memo = {}

        def visit(node, stack):
            if node in memo:
                return memo[node]
            if node in stack:
                return None
            rel = node[0]
            callees = self.stat[node] if node[0] is not None else self.ext[node[1]]
            res = None
            for c in sorted(callees):
                if c in prims:
                    res = [c]
                    break
            if res is None:
                for c in sorted(callees):
                    nxt = (rel, c) if (rel is not None and (rel, c) in self.stat) else ((None, c) if c in self.ext else None)
                    if nxt is None and rel is None:
                        # an extern function calling a static one of its own file(s)
                        for f in self.where.get(node[1], []):
                            if (f, c) in self.stat:
                                nxt = (f, c)
                                break
                    if nxt is None:
                        continue
                    r = visit(nxt, stack | {node})
                    if r is not None:
                        res = [c] + r
                        break
            # a result computed while a cycle was cut may be incomplete only towards "None"; recompute roots later
            memo[node] = res
            return res
        out = {}
        for n in self.ext:
            memo_key = (None, n)
            r = visit(memo_key, frozenset())
            if r is not None:
                out[n] = r
        # second pass to repair nodes answered None inside a cut cycle
        changed = True
        while changed:
            changed = False
            for n in list(self.ext):
                if n in out:
                    continue
                memo.clear()
                memo.update({(None, k): v for k, v in out.items()})
                r = visit((None, n), frozenset())
                if r is not None:
                    out[n] = r
                    changed = True
            break
        return out


def repo_graph(repo, cflags, cache_dir, hdr_hash):
    root = os.path.join(repo, "muggle/c")
    files = []
    for dp, dn, fn in sorted(os.walk(root)):
        dn.sort()
        for f in sorted(fn):
            if f.endswith(".c"):
                files.append(os.path.join(dp, f))
    errors = []

    def one(p):
        try:
            return file_graph(p, cflags, cache_dir, hdr_hash)[0]
        except Exception as e:      # a file that does not parse is an ERROR of the obligation, never a silent skip
            errors.append("%s: %s" % (os.path.relpath(p, repo), str(e)[:200]))
            return []
    with ThreadPoolExecutor(max_workers=12) as ex:
        graphs = list(ex.map(one, files))
    G = Graph()
    for p, g in zip(files, graphs):
        G.add_file(os.path.relpath(p, root), g)
    return G, errors, [os.path.relpath(p, root) for p in files]


# ---------------------------------------------------------------------------------------------------------------
def callbacks(G, acq_ext, prims):
    """static functions of the library's own .c files that acquire and are not called directly by any function of
    their translation unit: they are entered through a function pointer (handler->write, evloop callbacks)."""
    prims = set(prims)
    called = {}
    for (rel, name), cal in G.stat.items():
        for c in cal:
            called.setdefault(rel, set()).add(c)
    for name, cal in G.ext.items():
        for rel in G.where.get(name, []):
            called.setdefault(rel, set()).update(cal)
    out = {}

    def reach(node, seen):
        rel, name = node
        cal = G.stat[node] if rel is not None else G.ext[name]
        for c in sorted(cal):
            if c in prims:
                return [c]
        for c in sorted(cal):
            nxt = (rel, c) if (rel is not None and (rel, c) in G.stat) else ((None, c) if c in G.ext else None)
            if nxt is not None and nxt not in seen:
                seen.add(nxt)
                r = reach(nxt, seen)
                if r:
                    return [c] + r
        return None
    for (rel, name) in sorted(G.stat):
        if (rel, name) not in G.main_static:
            continue
        if name in called.get(rel, ()):
            continue
        r = reach((rel, name), set())
        if r:
            out[name] = (rel, r)
    return out


def driver_ops(driver_c, cflags, table="g_inst", field=2):
    """(names of the driver functions used as `.op` in the instance table, driver call graph)"""
    g, tu = _file_graph(driver_c, cflags)
    ops = []

    def ref(n):
        n = _strip(n)
        if n.get("kind") == "DeclRefExpr":
            return n["referencedDecl"]["name"]
        if n.get("kind") in ("ImplicitValueInitExpr",):
            return None
        for c in n.get("inner") or ():
            r = ref(c)
            if r:
                return r
        return None
    found = False
    for d in tu.get("inner", []):
        if d.get("kind") == "VarDecl" and d.get("name") == table:
            found = True
            init = [c for c in d.get("inner", []) if c.get("kind") == "InitListExpr"]
            if not init:
                raise CovError("instance table %s has no initialiser" % table)
            for row in init[0].get("inner", []):
                if row.get("kind") != "InitListExpr":
                    continue
                cells = row.get("inner", [])
                if len(cells) <= field:
                    raise CovError("short row in %s" % table)
                r = ref(cells[field])
                if not r:
                    raise CovError("row of %s without an op function" % table)
                ops.append(r)
    if not found:
        raise CovError("instance table %s not found in %s" % (table, driver_c))
    return sorted(set(ops)), {name: set(cal) for name, st, cal, *_ in g}


def closure(start, edges):
    seen, todo = set(), list(start)
    while todo:
        x = todo.pop()
        if x in seen:
            continue
        seen.add(x)
        todo.extend(edges.get(x, ()))
    return seen


def coq_str(x):
    return '"' + x.replace('"', '""') + '"'


def params_text(repo, cflags, cache_dir, hdr_hash, driver_c, driver_flags):
    """the coverage part of coq/gen/Params_C18.v"""
    errors = []
    try:
        G, errs, files = repo_graph(repo, cflags, cache_dir, hdr_hash)
        errors += errs
    except Exception as e:
        G, files = Graph(), []
        errors.append("call graph: %s" % str(e)[:200])
    acq = G.acquiring(PRIMITIVES) if G.ext else {}
    cbs = callbacks(G, acq, PRIMITIVES) if G.ext else {}
    driven, reach_pairs = [], []
    try:
        ops, dg = driver_ops(driver_c, driver_flags)
        dfuncs = closure(ops, dg)                       # driver functions reachable from an .op
        called = set()
        for f in dfuncs:
            called |= dg.get(f, set())
        driven = sorted(c for c in called if c in G.ext)
        # library-internal reachability through direct calls (extern -> extern / its file's statics)
        lib_edges = {}
        for name, cal in G.ext.items():
            tgt = set()
            stack, seen = list(cal), set()
            while stack:
                c = stack.pop()
                if c in seen:
                    continue
                seen.add(c)
                if c in G.ext:
                    tgt.add(c)
                    continue
                for rel in G.where.get(name, []):
                    if (rel, c) in G.stat:
                        stack.extend(G.stat[(rel, c)])
            lib_edges[name] = tgt
        for d in driven:
            for e in sorted(closure([d], lib_edges)):
                if e != d and e in acq:
                    reach_pairs.append((e, d))
    except Exception as e:
        errors.append("driver: %s" % str(e)[:200])
    out = ["", "(* ---- coverage: allocating entry points of the library, from the clang AST of all %d .c files under muggle/c ----" % len(files),
           "   acquisition primitives: %s *)" % " ".join(PRIMITIVES),
           "From Coq Require Import String.", "Open Scope string_scope.",
           "Definition cov_errors : list string := [%s]." % "; ".join(coq_str(e) for e in errors),
           "Definition cov_files : nat := %d." % len(files),
           "(* (function with external linkage, file: call path to the primitive) *)",
           "Definition alloc_entry_points : list (string * string) :=\n  [ %s ]." % ";\n    ".join(
               "(%s, %s)" % (coq_str(n), coq_str("%s: %s" % (",".join(G.where[n]), " > ".join(acq[n])))) for n in sorted(acq)),
           "(* static functions entered only through a function pointer *)",
           "Definition alloc_callbacks : list (string * string) :=\n  [ %s ]." % ";\n    ".join(
               "(%s, %s)" % (coq_str(n), coq_str("%s: %s" % (cbs[n][0], " > ".join(cbs[n][1])))) for n in sorted(cbs)),
           "(* library functions called by the driver functions that run with the faults armed (the .op column of g_inst) *)",
           "Definition driven_under_faults : list string :=\n  [ %s ]." % ";\n    ".join(coq_str(n) for n in driven),
           "(* (allocating entry point, driven function from which it is reachable through direct calls) *)",
           "Definition driven_reach : list (string * string) :=\n  [ %s ]." % ";\n    ".join(
               "(%s, %s)" % (coq_str(a), coq_str(b)) for a, b in reach_pairs),
           "Close Scope string_scope."]
    return "\n".join(out) + "\n"
