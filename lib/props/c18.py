"""C18 — allocation failure is reported, leak-free and crash-free; destroy releases all."""
import os
import sys

sys.path.insert(0, os.path.dirname(os.path.abspath(__file__)))

import vcommon as V

ID = "C18"
COQ_DIRS = ["C18"]
MODEL_BASE = "c18_model"
OCAML_DRIVER = "ocaml/c18_driver.ml"
C_DRIVER = "harness/drivers/c18_driver.c"
EXTRA_C = ["harness/faultinj/faultinj.c"]
REPO_SOURCES = V.all_repo_sources()          # the whole library, compiled from the working tree
WRAPPED = ["malloc", "calloc", "realloc", "aligned_alloc", "posix_memalign", "free",
           "eventfd", "epoll_create", "epoll_create1", "pipe", "pipe2", "socket", "socketpair", "accept", "accept4", "close",
           "fopen", "fclose", "fwrite", "fflush"]
LINK_FLAGS = ["-Wl,--wrap=" + w for w in WRAPPED]
HEADER_LINES = 3
SHRINK = False                                # a case is (instance, fault set): nothing to delete
CASE_TIMEOUT = 6.0

# name, model id, acquisition calls on the success path, contract flags used by the MONITOR
# (independent of the Coq model):
#   reports  False = the C function is void by design (logging): failure cannot be returned
#   strict   True  = after a failed call exactly the blocks held before the call are live
#            False = the object may keep blocks it owns (trie prefix nodes); destroy must free them
#   dfail    True  = "safe to destroy": destroy is called after a reported failure as well
INSTANCES = [
    ("channel_init_mutex", 0, 4, True, True, True),
    ("channel_init_nolock", 1, 1, True, True, True),
    ("ring_buffer_init", 2, 1, True, True, True),
    ("ma_ring_thread_ctx_init", 3, 3, True, True, True),
    ("double_buffer_init", 4, 2, True, True, True),
    ("array_blocking_queue_init", 5, 1, True, True, True),
    ("memory_pool_init", 6, 3, True, True, True),
    ("memory_pool_ensure_space", 7, 3, True, True, True),
    ("memory_pool_alloc_grow", 8, 3, True, True, True),
    ("sowr_memory_pool_init", 9, 1, True, True, True),
    ("ts_memory_pool_init", 10, 2, True, True, True),
    ("ring_memory_pool_init", 11, 1, True, True, True),
    ("pointer_slot_init", 12, 2, True, True, True),
    ("bytes_buffer_init", 13, 1, True, True, True),
    ("flow_ctl_init", 14, 1, True, True, True),
    ("array_list_init", 15, 1, True, True, True),
    ("array_list_ensure_capacity", 16, 1, True, True, True),
    ("array_list_append_grow", 17, 1, True, True, True),
    ("avl_tree_init_pool", 18, 4, True, True, True),
    ("avl_tree_insert", 19, 1, True, True, True),
    ("avl_tree_insert_pool_grow", 20, 3, True, True, True),
    ("hash_table_init_pool", 21, 5, True, True, True),
    ("hash_table_put", 22, 1, True, True, True),
    ("heap_init", 23, 1, True, True, True),
    ("heap_ensure_capacity", 24, 1, True, True, True),
    ("heap_insert_grow", 25, 1, True, True, True),
    ("linked_list_init_pool", 26, 4, True, True, True),
    ("linked_list_append", 27, 1, True, True, True),
    ("queue_init_pool", 28, 4, True, True, True),
    ("queue_enqueue", 29, 1, True, True, True),
    ("stack_init", 30, 1, True, True, True),
    ("stack_ensure_capacity", 31, 1, True, True, True),
    ("stack_push_grow", 32, 1, True, True, True),
    ("trie_init_pool", 33, 4, True, True, True),
    ("trie_insert_1", 34, 1, True, True, True),
    ("trie_insert_3", 35, 3, True, False, True),
    ("merge_sort", 36, 1, True, True, True),
    ("ev_signal_init", 37, 1, True, True, True),
    ("evloop_new_epoll", 38, 6, True, True, True),
    ("evloop_new_poll", 39, 6, True, True, True),
    ("evloop_new_select", 40, 4, True, True, True),
    ("evloop_new_epoll_mempool", 41, 10, True, True, True),
    ("evloop_add_ctx", 42, 1, True, True, True),
    ("socket_evloop_handle_init", 43, 2, True, True, True),
    ("socket_evloop_add_ctx", 44, 1, True, True, True),
    ("async_logger_init", 45, 2, True, True, False),
    ("async_logger_log", 46, 2, False, True, True),
    ("channel_init_default", 47, 2, True, True, True),
    ("array_list_insert_grow", 48, 1, True, True, True),
    ("linked_list_insert", 49, 1, True, True, True),
    ("linked_list_append_pool_grow", 50, 3, True, True, True),
    ("hash_table_put_pool_grow", 51, 3, True, True, True),
    ("queue_enqueue_pool_grow", 52, 3, True, True, True),
    ("trie_insert_pool_grow", 53, 3, True, True, True),
    ("memory_pool_alloc_grow_capped", 54, 3, True, True, True),
    ("evloop_add_ctx_poll", 55, 1, True, True, True),
    ("evloop_add_ctx_select", 56, 1, True, True, True),
    ("evloop_add_ctx_mempool_grow", 57, 3, True, True, True),
    ("socket_evloop_pipe_init", 58, 1, True, True, True),
    # callbacks of the socket event-loop handle are void; on_wake RELEASES the handed-over context when it
    # cannot be registered, so fewer blocks are live after the failed call than before it (strict = False)
    ("socket_evloop_on_read_accept", 59, 2, False, True, True),
    ("socket_evloop_on_wake", 60, 1, False, False, True),
    ("channel_init_rmutex", 61, 3, True, True, True),
    # log handlers owning a FILE* (fopen/fclose interposed; fwrite/fflush/fclose on a closed handle stops the run).
    # write_rotate: a failed re-open during rotation is not reported by write() and leaves the file closed
    # (fewer handles live than before the call): reports = False, strict = False
    ("log_file_handler_init", 77, 1, True, True, True),
    ("log_file_rotate_handler_init", 78, 1, True, True, True),
    ("log_file_rotate_handler_write_rotate", 79, 2, False, False, True),
    # the logger asks the attached handlers whether any accepts the level before it allocates: async_logger_log (46) runs with
    # a sink handler that accepts the message; here the only handler refuses it, so the call must make no acquisition (att = 0)
    ("async_logger_log_filtered", 80, 0, True, True, True),
    # ---- entry points added by the coverage obligation (every allocating function with external linkage is driven
    # or excluded with a reason: coq/C18/Coverage.v, theorem every_allocating_entry_point_accounted_for)
    ("fast_flow_ctl_init", 300, 1, True, True, True),
    ("log_file_time_rot_handler_init", 301, 1, True, True, True),
    # a failed re-open during a time rotation is only printed by write() and leaves the handler without a file
    ("log_file_time_rot_handler_write_rotate", 302, 2, False, False, True),
    ("log_console_handler_init", 303, 0, True, True, True),
    ("log_simple_init", 304, 1, True, True, True),
    # repaired (fixes/C18-log-complicated-init-reports-failure.patch): the failed file handler is reported
    ("log_complicated_init", 305, 1, True, True, True),
    ("socket_create", 306, 1, True, True, True), ("tcp_listen", 307, 1, True, True, True),
    ("tcp_connect", 308, 1, True, True, True), ("tcp_bind", 309, 1, True, True, True),
    ("tcp_bind_connect", 310, 1, True, True, True), ("udp_bind", 311, 1, True, True, True),
    ("udp_connect", 312, 1, True, True, True), ("mcast_join", 313, 1, True, True, True),
    ("socketpair", 314, 1, True, True, True), ("heap_sort", 315, 1, True, True, True),
    ("ma_ring_thread_ctx_get", 316, 3, True, True, True), ("os_fopen", 317, 1, True, True, True),
]
# instances whose operation is void / a callback: it never reports failure, so there is nothing to retry
NO_RETRY = {"socket_evloop_add_ctx", "async_logger_log", "async_logger_log_filtered", "socket_evloop_on_read_accept",
            "socket_evloop_on_wake", "log_file_rotate_handler_write_rotate", "log_file_time_rot_handler_write_rotate"}
# instances with CONTINUED USE after the operation (or its retry) succeeded: more pushes / inserts / allocs up to and
# beyond the old capacity, contents compared with the reference (driver: .cont; model: s_cont)
CONT = {"memory_pool_ensure_space", "memory_pool_alloc_grow", "memory_pool_alloc_grow_capped",
        "array_list_ensure_capacity", "array_list_append_grow", "array_list_insert_grow",
        "heap_ensure_capacity", "heap_insert_grow", "stack_ensure_capacity", "stack_push_grow",
        "avl_tree_insert", "avl_tree_insert_pool_grow", "hash_table_put", "hash_table_put_pool_grow",
        "linked_list_append", "linked_list_insert", "linked_list_append_pool_grow",
        "queue_enqueue", "queue_enqueue_pool_grow", "trie_insert_1", "trie_insert_3", "trie_insert_pool_grow",
        "evloop_add_ctx", "evloop_add_ctx_poll", "evloop_add_ctx_select", "evloop_add_ctx_mempool_grow"}
# boundary contents on the success path: (name, id, calls, number of caller-owned values stored in the container).
# destroy runs with a counted free callback; a reported failure is retried without faults before destroy.
CONTENT = [
    ("trie_content_empty_key", 62, 1, 2), ("trie_content_empty_key_pool", 63, 0, 3),
    ("trie_content_single_empty", 64, 1, 1), ("avl_tree_content", 65, 1, 4), ("avl_tree_content_single", 66, 1, 1),
    ("hash_table_content", 67, 1, 3), ("hash_table_content_single", 68, 1, 1),
    ("linked_list_content_head", 69, 1, 3), ("linked_list_content_pool_full", 70, 0, 2),
    ("queue_content", 71, 1, 3), ("queue_content_pool_full", 72, 0, 2),
    ("array_list_content_index0_full", 73, 0, 4), ("array_list_content_index0_grow", 74, 1, 5),
    ("heap_content_grow", 75, 1, 5), ("stack_content_full", 76, 0, 4),
]
NVALS = {c[0]: c[3] for c in CONTENT}          # instances with values: freed == NVALS after destroy (both futures)
CONT = CONT | {c[0] for c in CONTENT}
INSTANCES = INSTANCES + [(c[0], c[1], c[2], True, True, True) for c in CONTENT]
# constructors (no pre-built object): also run with the object storage filled with 0xA5 instead of 0x00
CTORS = ["channel_init_mutex", "channel_init_nolock", "channel_init_default", "channel_init_rmutex", "ring_buffer_init",
         "double_buffer_init", "array_blocking_queue_init", "memory_pool_init", "sowr_memory_pool_init",
         "ts_memory_pool_init", "ring_memory_pool_init", "pointer_slot_init", "bytes_buffer_init", "flow_ctl_init",
         "array_list_init", "avl_tree_init_pool", "hash_table_init_pool", "heap_init", "linked_list_init_pool",
         "queue_init_pool", "stack_init", "trie_init_pool", "ev_signal_init", "socket_evloop_handle_init",
         "socket_evloop_pipe_init", "async_logger_init", "log_file_handler_init", "log_file_rotate_handler_init",
         "fast_flow_ctl_init", "log_file_time_rot_handler_init", "log_console_handler_init"]
# cleanup blocks / failure handlers ("labels", numbered in coq/C18/Instances.v by H n) -> where they are in the C code
LABEL_NAMES = {
    11: "memory_pool_init: data_bufs NULL", 12: "memory_pool_init: ptr_buf NULL", 13: "memory_pool_init: data_bufs[0] NULL",
    14: "ensure_space: new_bufs NULL", 15: "ensure_space: new data buffer NULL", 16: "ensure_space: new_ptr_buf NULL",
    17: "memory_pool_alloc: ensure_space failed", 20: "channel_init_except:", 21: "channel_init: write_mutex NULL",
    22: "channel_init: read_mutex NULL", 23: "channel_init: read_cv NULL", 24: "channel_init: blocks NULL",
    25: "ring_buffer_init: blocks NULL", 26: "ma_ring thread_ctx_init: ring NULL", 27: "ma_ring thread_ctx_init: buffer NULL",
    28: "ma_ring thread_ctx_init: insert_thread_ctx failed", 29: "ma_ring insert_thread_ctx: node NULL",
    30: "double_buffer_init: buf[0].datas NULL", 31: "double_buffer_init: buf[1].datas NULL", 32: "array_blocking_queue_init: datas NULL",
    33: "sowr_memory_pool_init: blocks NULL", 34: "ts_memory_pool_init: data or ptrs NULL", 35: "pointer_slot_init: slots or pp_slots NULL",
    36: "ring_memory_pool_init: blocks NULL", 37: "bytes_buffer_init: buffer NULL", 38: "flow_ctl_init: arr NULL",
    40: "array_list/heap/stack init: nodes NULL", 41: "ensure_capacity: new_nodes NULL", 42: "insert/append/push: ensure_capacity failed",
    43: "dsaa init: pool struct NULL", 44: "dsaa init: memory_pool_init failed", 45: "node allocation NULL",
    46: "insert/append/put/enqueue: node NULL", 47: "insert (pool): memory_pool_alloc failed",
    48: "trie_insert: 1st node NULL", 49: "trie_insert: 2nd node NULL", 50: "trie_insert: 3rd node NULL",
    51: "hash_table_init: nodes NULL", 52: "hash_table_init(cap 0): nodes NULL", 53: "merge_sort: arr NULL",
    54: "ev_signal_init: eventfd failed", 55: "muggle_evloop_init_except:", 56: "evloop_init: ctx_list NULL",
    57: "evloop_init: linked_list_init failed", 58: "evloop_init: ev_signal NULL", 59: "evloop_init: ev_signal_init failed",
    60: "evloop_init_epoll_except:", 61: "init_epoll: epoll_create failed", 62: "init_epoll: events NULL",
    63: "muggle_evloop_init_poll_except:", 64: "init_poll: fds NULL", 65: "init_poll: nodes NULL",
    66: "evloop_new: evloop NULL", 67: "evloop_new: evloop_init failed", 68: "evloop_new: back-end init failed",
    69: "evloop_add_ctx: linked_list_append failed", 70: "muggle_socket_evloop_handle_init_except:",
    71: "socket_evloop_handle_init: ctx_queue NULL", 72: "socket_evloop_handle_init: queue_init(0) failed (dead)",
    73: "socket_evloop_handle_init: mtx NULL", 74: "async_logger_init: channel_init failed", 75: "async_logger_log: msg NULL",
    76: "async_logger_log: payload NULL", 77: "socket_evloop_pipe_init: pipe failed", 78: "on_read accept: cb_alloc NULL",
    79: "on_read accept: evloop_add_ctx failed", 80: "on_wake: evloop_add_ctx failed (context released)",
    81: "rotate: re-open (fopen) failed", 82: "rotate handler write: rotate failed (ignored)",
    83: "log_file_handler_init: fopen failed", 84: "log_file_rotate_handler_init: fopen failed",
    85: "fast_flow_ctl_init: arr NULL", 86: "time_rot rotate: fopen failed", 87: "time_rot_handler_init: rotate failed",
    88: "time_rot handler write: rotate failed (printed only)", 89: "log_simple_init: rotate handler init failed",
    90: "log_complicated_init: time_rot handler init failed", 91: "muggle_os_fopen: fopen failed",
    92: "socket_create: socket failed", 93: "tcp_listen: no socket", 94: "tcp_connect: no socket", 95: "tcp_bind: no socket",
    96: "tcp_bind_connect: tcp_bind failed", 97: "udp_bind: no socket", 98: "udp_connect: no socket",
    99: "mcast_join: socket failed", 100: "socketpair failed", 101: "heap_sort: heap_init failed",
    157: "evloop_init: linked_list_init(0) failed (dead)", 168: "evloop_new: select init failed (dead)",
}

BY_NAME = {t[0]: t for t in INSTANCES}
KNOWN_VOID = "void-socket-evloop-add-ctx"
# instances whose ONLY recorded defect is the missing failure report: every other clause is still checked for them,
# and the "reported SUCCESS" message is produced LAST (when nothing else is wrong with the case)
KNOWN_UNREPORTED = {"socket_evloop_add_ctx": KNOWN_VOID}

RULE = ("complete enumeration: for each of the %d instances (public constructor / grower / inserter + its destroy) the "
        "no-fault run and every single-fault position k = 1 .. (calls on the success path)+3, each in TWO futures (A: destroy "
        "follows the operation directly; B 'mode retry': a reported failure is retried without faults, the object is used "
        "further - pushes / inserts / allocs up to and beyond the old capacity, contents compared with a reference - and then "
        "destroyed), plus multi-fault sets: "
        "quick = seeded sets of size 2..3 per instance, thorough = ALL pairs {i<j<=calls+1} and seeded triples; a case is "
        "non-trivial when a fault was actually hit (k <= calls attempted); the tally lists, per instance, the cleanup "
        "labels entered by the compared cases (every label of every instance is entered; theorem every_cleanup_label_reached); "
        "distinct = distinct (instance, fault set)" % len(INSTANCES))
TRUSTED_BASE = [
    "fault injection by linker interposition (-Wl,--wrap) of malloc/calloc/realloc/aligned_alloc/posix_memalign/free and "
    "eventfd/epoll_create/epoll_create1/pipe/pipe2/socket/close in the objects compiled from the repository; allocations made "
    "inside libc (pthread_create, stdio) are not interposed and not in the property's fault class",
    "live accounting = blocks and descriptors obtained through the interposed calls since the scenario began and not yet released",
    "two ties between the C text and the protocol programs: (1) a TRANSLATOR (lib/props/c18_trans.py, clang JSON AST -> protocol "
    "term, regenerated into coq/gen/Params_C18.v on every run) for 32 init / grow / destroy scenarios - the generated programs "
    "themselves are proved to satisfy the property (wf_scn by vm_compute + the generic soundness theorem) and to behave like the "
    "hand-written instances; trusted there: the translator's classification of statements (acquire / release / NULL store / test / "
    "call / return class; calls without acquisition assumed to succeed; callees that walk an empty container and undecided scalar "
    "conditions listed per scenario in the generated file); (2) the hand-written transcription of every instance, tied to the code "
    "by the differential run (return class, calls attempted, live counts before/after the call and after destroy, for every k)",
    "modelled, not verified: pthread mutex/condvar initialisation and thread creation never fail (not allocation / fd-creating calls)",
    "coverage tie (lib/props/c18_cov.py): the call graph is read from the clang JSON AST of every .c file under muggle/c (direct calls "
    "only: a call through a function pointer is not followed - acquiring static callbacks are listed separately and must each have a "
    "driving instance); 'driven under faults' = library functions called, inside harness/drivers/c18_driver.c, from a function used in "
    "the .op column of its instance table; the exclusion list with its reasons is hand-written (coq/C18/Coverage.v)",
    "'the failed call changed nothing' on the implementation side = byte-for-byte comparison of the object's struct, the arrays it "
    "points to and its nodes with a snapshot taken before the call, plus an element-for-element comparison of the contents with a "
    "reference kept by the driver; on the model side = every resource live before the call is still live and still pointed to",
]
ASSUMPTIONS = [
    "caller-provided object storage is run both zero-filled and 0xA5-filled before each constructor: the outcome must not depend on it "
    "(the model has pointer fields start as NULL, which is what the constructors' own memset / unconditional assignments establish)",
    "a fault is a failing malloc/calloc/realloc/aligned_alloc or eventfd/epoll_create/pipe/socket call made by the library itself",
]
EVIDENCE_NOTES = [
    "covered by instances: muggle_channel_init (4 flag sets)/destroy, muggle_ring_buffer_init/destroy, "
    "muggle_ma_ring_thread_ctx_init/get/cleanup, muggle_double_buffer_init/destroy, muggle_array_blocking_queue_init/destroy, "
    "muggle_memory_pool_init/ensure_space/alloc(grow, capped)/destroy, muggle_sowr_memory_pool_init/destroy, muggle_ts_memory_pool_init/"
    "destroy, muggle_ring_memory_pool_init/destroy, muggle_pointer_slot_init/destroy, muggle_bytes_buffer_init/destroy, "
    "muggle_flow_ctl_init/destroy, muggle_fast_flow_ctl_init/destroy, muggle_array_list_init/ensure_capacity/append(grow)/insert(grow)/"
    "destroy, muggle_heap_init/ensure_capacity/insert(grow)/destroy, muggle_stack_init/ensure_capacity/push(grow)/destroy, "
    "muggle_avl_tree_init(pool)/insert(malloc node, pool growth)/destroy, muggle_hash_table_init(pool)/put(malloc node, pool growth)/"
    "destroy, muggle_linked_list_init(pool)/append/insert/destroy, muggle_queue_init(pool)/enqueue/destroy, muggle_trie_init(pool)/"
    "insert(1 and 3 nodes, pool growth)/destroy, muggle_merge_sort, muggle_heap_sort, muggle_ev_signal_init/destroy (eventfd), "
    "muggle_evloop_new (epoll, poll, select, epoll+mempool)/delete incl. muggle_evloop_init_{epoll,poll,select}, muggle_evloop_add_ctx "
    "(3 back-ends, mempool growth), muggle_socket_evloop_handle_init/destroy, muggle_socket_evloop_pipe_init/destroy (pipe()), "
    "muggle_socket_evloop_add_ctx, the accept path of muggle_socket_evloop_on_read, muggle_socket_evloop_on_wake, "
    "muggle_async_logger_init/destroy, muggle_async_logger_log, muggle_log_file_handler_init, muggle_log_file_rotate_handler_init / "
    "write (rotation), muggle_log_file_time_rot_handler_init / write (rotation), muggle_log_console_handler_init (no acquisition: "
    "att = 0 is compared), muggle_log_simple_init, muggle_log_complicated_init, muggle_os_fopen, muggle_socket_create, muggle_tcp_listen / "
    "tcp_connect / tcp_bind / tcp_bind_connect / udp_bind / udp_connect / mcast_join (loopback, numeric host: one socket() per call), "
    "muggle_socketpair",
    "COVERAGE OBLIGATION (theorem every_allocating_entry_point_accounted_for): on every run the clang AST of all .c files under muggle/c "
    "is read; every function with external linkage from which malloc/calloc/realloc/aligned_alloc/posix_memalign/strdup/fopen/fdopen/"
    "socket/socketpair/pipe/pipe2/eventfd/epoll_create(1)/open/openat/creat/shm_open/shmget/shmat/mmap/opendir/dup/dup2/accept(4)/dlopen/"
    "popen/timerfd_create/signalfd/inotify_init/kqueue is reachable through direct calls must be called by a driver function that runs "
    "with the faults armed, or be excluded with a written reason in coq/C18/Coverage.v (at present: muggle_evloop_init_epoll/_poll - entered "
    "through muggle_evloop_new's back-end table and enumerated there; muggle_socket_evloop_handle_alloc - the default cb_alloc, failed by "
    "instance 59; muggle_dl_load, muggle_os_listdir, muggle_stacktrace_get - os/ is outside the modules the property quantifies over; "
    "muggle_shm_open, muggle_shm_ringbuf_open - shmget/shmat are not in the property's fault class); acquiring static callbacks "
    "(handler->write of the two rotating handlers, the evloop's cb_read) must each name their driving instance; a stale exclusion or an "
    "unparsable source file also breaks the obligation",
    "NOT covered by instances, with the reason: functions that make no acquisition according to that call graph - ring_buffer / channel / "
    "double_buffer / array_blocking_queue data paths, sowr/ts/ring pool alloc/free, muggle_pointer_slot_insert/remove (fixed "
    "arrays), bytes_buffer read/write (fixed buffer, no growth), muggle_hash_table_put bucket array (never grows), dsaa "
    "constructors with capacity 0, event_fd.c / event_context.c / event.c, muggle_ma_ring_backend_run (thread creation only), "
    "muggle_evloop_init_select, sync logger; a pool with MUGGLE_MEMORY_POOL_CONSTANT_SIZE refuses growth without attempting an "
    "allocation (a refusal, not an allocation failure); the pipe/socket variants of event_signal.c are not compiled on Linux (eventfd "
    "build); allocations made inside libc (getaddrinfo, opendir, backtrace_symbols, stdio buffers, pthread_create) are not interposable",
    "array_blocking_queue_init / double_buffer_init / ring_buffer_init leak or half-initialise only when pthread mutex/condvar "
    "initialisation fails, and muggle_async_logger_init leaks its channel only when muggle_thread_create fails; both are outside the "
    "property's fault class (allocation or fd-creating call) and are not injected",
    "SAFE TO RETRY / CONTINUED USE: every instance whose operation can report failure is run in a second future ('mode retry'): the failed "
    "call is retried without faults on the same object (constructors: on the same storage), must succeed, and destroy must then release "
    "everything.  Growers / inserters (memory pool ensure_space / alloc growth, array_list / heap / stack ensure_capacity and growing "
    "insert / append / push, avl / hash table / linked list / queue / trie insert with malloc'ed nodes and with node-pool growth, "
    "evloop_add_ctx) additionally CONTINUE: 20 more elements are stored in the array containers (beyond the old AND the new capacity: "
    "further growth), pools are filled to their grown capacity with pattern-filled blocks that must be distinct and intact, node containers "
    "get two more elements (pooled ones: remove + insert), everything is read back and compared with a reference kept by the driver, with "
    "ASan on exact-size heap blocks.  After EVERY reported failure the object's struct, arrays and nodes are compared byte for byte with a "
    "snapshot taken before the call ('unchanged yes'); the model's counterpart is o_kept",
    "WAIVED CLAUSES, each with its reason - reports = False (the failure cannot be returned): async_logger_log (46; void by design: "
    "logging), socket_evloop_on_read accept path (59) and socket_evloop_on_wake (60) (event-loop callbacks return void; the failure is "
    "handled by releasing the connection), log_file_rotate_handler write (79) and log_file_time_rot_handler write (302) (write() returns "
    "the formatted length; a failed re-open during a rotation is only printed to stderr and the handler is left without a file).  For "
    "these no-crash / no-leak / destroy-releases-all are still required.  async_logger_log_filtered (80) no longer waives it (the call "
    "makes no acquisition; att = 0 is compared).  strict = False (live set may differ after the failed call): trie_insert_3 (35; the "
    "prefix nodes created before the failing node stay in the trie - they are reachable, reused by the retry and freed by destroy: "
    "contents, retry, continued use and destroy are checked, only the byte-for-byte snapshot is not), socket_evloop_on_wake (60; the "
    "handed-over context is RELEASED when it cannot be registered: fewer blocks live than before), rotate-handler writes (79, 302; the "
    "old file was closed before the failing fopen: fewer handles live).  dfail = False: async_logger_init (45) - its destroy sends a "
    "sentinel through the channel and joins the writer thread, neither of which exists after a failed init, so the API offers no "
    "destroy for a logger whose init failed; the waiver is shrunk: the failed init is now RETRIED on the same storage, must succeed, "
    "and destroy runs after the retry (future B)",
    "THE KNOWN CLASS is no longer removed wholesale: for instance 44 (void muggle_socket_evloop_add_ctx) the monitor checks every other "
    "clause first (leak, crash, destroy) and produces the 'reported SUCCESS' text last; theorem known_class_instances_leak_free_crash_free / "
    "all_instances_hold_partial state the property without its reporting clause for it (no_report), under every fault function",
    "REPAIRED DEFECT found by the coverage round: muggle_log_complicated_init ignored the result of "
    "muggle_log_file_time_rot_handler_init; when that fopen failed it returned 0 and attached a handler without a file "
    "(fixes/C18-log-complicated-init-reports-failure.patch; instance 305 models the repaired code, instance 195 the unchanged code, "
    "refuted with witness k = 1: lemma log_complicated_init_orig_returns_success_on_failed_fopen).  "
    "OBSERVATIONS outside the property's scope (not claimed, listed in Coverage.v): muggle_os_listdir dereferences an unchecked "
    "file-name malloc and silently drops an entry whose node malloc failed; muggle_shm_open leaks the segment it created when shmat "
    "fails; muggle_log_simple_init leaves the console handler attached to the default logger when the file handler fails, so a retry "
    "attaches it a second time (no resource is lost; lines are then printed twice)",
    "GENERATED from the C text by the translator (scenario = instance id): muggle_channel_init/destroy (4 flag sets: ids 0, 1, 47, 61), "
    "muggle_ring_buffer_init/destroy (2), muggle_double_buffer_init/destroy (4, loop unrolled), muggle_array_blocking_queue_init/"
    "destroy (5), muggle_memory_pool_init/destroy (6), sowr / ts / ring pool, pointer_slot, bytes_buffer, flow_ctl init/destroy (9-14), "
    "array_list / heap / stack init + ensure_capacity + destroy (15, 16, 23, 24, 30, 31), avl / hash_table / linked_list / queue / trie "
    "init with node pool + destroy, with muggle_memory_pool_init/destroy translated in place (18, 21, 26, 28, 33), muggle_ev_signal_init/"
    "destroy (37), muggle_socket_evloop_handle_init/destroy (43), muggle_log_file_handler / _rotate_handler init/destroy (77, 78), "
    "muggle_fast_flow_ctl_init/destroy (300), muggle_log_file_time_rot_handler_init/destroy incl. its rotate (301), "
    "muggle_evloop_init_epoll/destroy_epoll (201), _poll (202), static muggle_evloop_init/destroy (203).  HAND-WRITTEN only: "
    "muggle_memory_pool_ensure_space / alloc (array element with a variable index), muggle_evloop_new/delete (back-end through a "
    "function-pointer table), ma_ring thread context (thread-local static, waits for the back-end thread), async logger (thread), "
    "socket_evloop_pipe (pipe yields two descriptors), all insert / put / push / enqueue / add_ctx operations, callbacks on_read / "
    "on_wake, rotate-handler writes, the socket helpers, log_simple / complicated_init, boundary-content instances.  An unsupported "
    "construct in a function of the generated set makes gen_errors non-empty = broken obligation generated_programs_complete",
    "FILE* handles are a third resource class: fopen counts as an acquisition call and can be failed, fclose releases; fwrite / "
    "fflush / fclose on a handle that was already closed (use after close, double close) stops the run and is a violation",
    "boundary-content instances (ids 62-76): containers pre-built with caller-owned heap values and contents that reach code the "
    "plain instances never touch - the EMPTY trie key (root.children[0]) with and without node pool, a single element, insertion at "
    "index 0 / at the head, a rejected duplicate (avl, hash table), node pool / array exactly full at destroy, growth with stored "
    "values; destroy runs with a counted free callback (monitor: zero live and release count == values stored, i.e. each value "
    "released exactly once - a second release is a double free under ASan; the value a FAILED operation did not store is released by "
    "the caller and counted); both futures are run",
    "muggle_log_simple_init / muggle_log_complicated_init attach function-local static handlers to the library's static default "
    "logger and the library has no call that detaches them; the driver's destroy for these two instances calls each attached "
    "handler's destroy and empties the default logger",
]



# ---------------------------------------------------------------------------------------------------------------
# TRANSLATOR tie: for these scenarios (id = the instance it doubles; ids >= 200 have no hand-written instance) the
# resource-protocol program is regenerated from the C text (clang JSON AST) on every run into coq/gen/Params_C18.v;
# coq/C18/ProofsGen.v then proves (vm_compute) that every generated scenario is accepted by wf_scn - hence, by the
# generic theorems, satisfies the property under every fault function - and behaves like the hand-written instance
# that the differential run compares with the implementation.  `neutral`: callees that walk the (empty) container;
# `hints`: scalar conditions the argument values do not decide.
GEN_SPECS = {
 6: dict(op=("memory/memory_pool.c","muggle_memory_pool_init",{"init_capacity":4,"block_size":16}), destroy=("memory/memory_pool.c","muggle_memory_pool_destroy",{})),
 15: dict(op=("dsaa/array_list.c","muggle_array_list_init",{"capacity":4}), destroy=("dsaa/array_list.c","muggle_array_list_destroy",{}), neutral=["muggle_array_list_clear"]),
 16: dict(pre=[("dsaa/array_list.c","muggle_array_list_init",{"capacity":4})], op=("dsaa/array_list.c","muggle_array_list_ensure_capacity",{"capacity":16}), destroy=("dsaa/array_list.c","muggle_array_list_destroy",{}), neutral=["muggle_array_list_clear"], hints={"p_array_list->capacity >= capacity": False}),
 23: dict(op=("dsaa/heap.c","muggle_heap_init",{"capacity":4}), destroy=("dsaa/heap.c","muggle_heap_destroy",{}), neutral=["muggle_heap_clear"]),
 24: dict(pre=[("dsaa/heap.c","muggle_heap_init",{"capacity":4})], op=("dsaa/heap.c","muggle_heap_ensure_capacity",{"capacity":16}), destroy=("dsaa/heap.c","muggle_heap_destroy",{}), neutral=["muggle_heap_clear"], hints={"p_heap->capacity >= capacity": False}),
 30: dict(op=("dsaa/stack.c","muggle_stack_init",{"capacity":4}), destroy=("dsaa/stack.c","muggle_stack_destroy",{}), neutral=["muggle_stack_clear"]),
 31: dict(pre=[("dsaa/stack.c","muggle_stack_init",{"capacity":4})], op=("dsaa/stack.c","muggle_stack_ensure_capacity",{"capacity":16}), destroy=("dsaa/stack.c","muggle_stack_destroy",{}), neutral=["muggle_stack_clear"], hints={"p_stack->capacity >= capacity": False}),
 18: dict(op=("dsaa/avl_tree.c","muggle_avl_tree_init",{"capacity":8}), destroy=("dsaa/avl_tree.c","muggle_avl_tree_destroy",{}), neutral=["muggle_avl_tree_clear"]),
 21: dict(op=("dsaa/hash_table.c","muggle_hash_table_init",{"capacity":8,"table_size":16}), destroy=("dsaa/hash_table.c","muggle_hash_table_destroy",{}), neutral=["muggle_hash_table_clear"]),
 26: dict(op=("dsaa/linked_list.c","muggle_linked_list_init",{"capacity":8}), destroy=("dsaa/linked_list.c","muggle_linked_list_destroy",{}), neutral=["muggle_linked_list_clear"]),
 28: dict(op=("dsaa/queue.c","muggle_queue_init",{"capacity":8}), destroy=("dsaa/queue.c","muggle_queue_destroy",{}), neutral=["muggle_queue_clear"]),
 33: dict(op=("dsaa/trie.c","muggle_trie_init",{"capacity":8}), destroy=("dsaa/trie.c","muggle_trie_destroy",{}), neutral=["muggle_trie_erase_node"]),
 0: dict(op=("sync/channel.c","muggle_channel_init",{"capacity":8,"flags":16}), destroy=("sync/channel.c","muggle_channel_destroy",{})),
 1: dict(op=("sync/channel.c","muggle_channel_init",{"capacity":8,"flags":35}), destroy=("sync/channel.c","muggle_channel_destroy",{})),
 47: dict(op=("sync/channel.c","muggle_channel_init",{"capacity":8,"flags":0}), destroy=("sync/channel.c","muggle_channel_destroy",{})),
 61: dict(op=("sync/channel.c","muggle_channel_init",{"capacity":8,"flags":18}), destroy=("sync/channel.c","muggle_channel_destroy",{})),
 2: dict(op=("sync/ring_buffer.c","muggle_ring_buffer_init",{"capacity":8,"flag":0}), destroy=("sync/ring_buffer.c","muggle_ring_buffer_destroy",{})),
 4: dict(op=("sync/double_buffer.c","muggle_double_buffer_init",{"capacity":8,"non_blocking":0}), destroy=("sync/double_buffer.c","muggle_double_buffer_destroy",{})),
 5: dict(op=("sync/array_blocking_queue.c","muggle_array_blocking_queue_init",{"capacity":8}), destroy=("sync/array_blocking_queue.c","muggle_array_blocking_queue_destroy",{})),
 9: dict(op=("memory/sowr_memory_pool.c","muggle_sowr_memory_pool_init",{"capacity":8,"data_size":16}), destroy=("memory/sowr_memory_pool.c","muggle_sowr_memory_pool_destroy",{})),
 10: dict(op=("memory/threadsafe_memory_pool.c","muggle_ts_memory_pool_init",{"capacity":8,"data_size":16}), destroy=("memory/threadsafe_memory_pool.c","muggle_ts_memory_pool_destroy",{})),
 11: dict(op=("memory/ring_memory_pool.c","muggle_ring_memory_pool_init",{"capacity":8,"data_size":16}), destroy=("memory/ring_memory_pool.c","muggle_ring_memory_pool_destroy",{})),
 12: dict(op=("memory/pointer_slot.c","muggle_pointer_slot_init",{"capacity":8}), destroy=("memory/pointer_slot.c","muggle_pointer_slot_destroy",{})),
 13: dict(op=("memory/bytes_buffer.c","muggle_bytes_buffer_init",{"capacity":64}), destroy=("memory/bytes_buffer.c","muggle_bytes_buffer_destroy",{})),
 14: dict(op=("time/flow_controller.c","muggle_flow_ctl_init",{"time_range_sec":1,"n":4,"init_forward_sec":0}), destroy=("time/flow_controller.c","muggle_flow_ctl_destroy",{})),
 37: dict(op=("event/event_signal.c","muggle_ev_signal_init",{}), destroy=("event/event_signal.c","muggle_ev_signal_destroy",{})),
 43: dict(op=("net/socket_evloop_handle.c","muggle_socket_evloop_handle_init",{}), destroy=("net/socket_evloop_handle.c","muggle_socket_evloop_handle_destroy",{}), neutral=["muggle_queue_clear"]),
 77: dict(op=("log/log_file_handler.c","muggle_log_file_handler_init",{}), destroy=("log/log_file_handler.c","muggle_log_file_handler_destroy",{})),
 78: dict(op=("log/log_file_rotate_handler.c","muggle_log_file_rotate_handler_init",{"max_bytes":64,"backup_count":2}), destroy=("log/log_file_rotate_handler.c","muggle_log_file_rotate_handler_destroy",{}), hints={"handler->offset >= handler->max_bytes": False}),
 201: dict(op=("event/internal/event_loop_epoll.c","muggle_evloop_init_epoll",{}), destroy=("event/internal/event_loop_epoll.c","muggle_evloop_destroy_epoll",{})),
 202: dict(op=("event/internal/event_loop_poll.c","muggle_evloop_init_poll",{}), destroy=("event/internal/event_loop_poll.c","muggle_evloop_destroy_poll",{})),
 300: dict(op=("time/fast_flow_controller.c","muggle_fast_flow_ctl_init",{"time_range_sec":1,"n":4,"init_forward_sec":0}), destroy=("time/fast_flow_controller.c","muggle_fast_flow_ctl_destroy",{})),
 301: dict(op=("log/log_file_time_rot_handler.c","muggle_log_file_time_rot_handler_init",{"rotate_unit":115,"rotate_mod":1,"use_local_time":0}), destroy=("log/log_file_time_rot_handler.c","muggle_log_file_time_rot_handler_destroy",{})),
 203: dict(op=("event/event_loop.c","muggle_evloop_init",{}), destroy=("event/event_loop.c","muggle_evloop_destroy",{}), neutral=["muggle_linked_list_clear"], hints={"args->use_mem_pool": False}),
}


def gen_params(ctx):
    import c18_trans as T
    import glob, shutil
    for d in glob.glob(os.path.join(V.BUILD, "C18", "c18_scratch_*")):      # left behind by driver processes that crashed
        try:
            shutil.rmtree(d) if os.path.isdir(d) else os.remove(d)
        except OSError:
            pass
    V.gen_config_header()
    cflags = ["-std=gnu11", "-DNDEBUG", "-D" + V.GUARD, "-DMUGGLE_C_EXPORTS", "-I" + V.REPO, "-I" + V.GEN_INC]
    loader = T.AstLoader(V.REPO, cflags, os.path.join(V.BUILD, "C18", "astcache"), V.headers_hash())
    txt = T.params_file(loader, GEN_SPECS, V.REPO)
    # coverage tie: allocating entry points of the WHOLE library + what the driver's instance table drives under faults
    import c18_cov as C
    txt += C.params_text(V.REPO, cflags, os.path.join(V.BUILD, "C18", "cgcache"), V.headers_hash(),
                         os.path.join(V.VERIF, C_DRIVER), cflags + ["-I" + os.path.join(V.VERIF, "harness")])
    return txt


def _mk(name, ks, tag, fill=None, retry=False):
    """retry=False: the destroy follows the operation directly (future A, "safe to destroy");
    retry=True: a reported failure is retried without faults, the object is used further, then destroyed (future B)"""
    t = BY_NAME[name]
    lines = ["inst %s %d" % (name, t[1])]
    if fill:
        lines.append("fill %s" % fill)      # ignored by the model: the outcome must not depend on it
        tag += "-" + fill
    if retry:
        lines.append("mode retry")
        tag += "-retry"
    lines.append("faults" + "".join(" %d" % k for k in ks))
    return V.Case("%s-%s" % (name, tag), lines, {"inst": name, "ks": list(ks), "retry": bool(retry)})


def corpus_cases(ctx):
    # the fault positions at which the unchanged tree was found to violate the property
    # (C18_NO_CORPUS=1: leave them out, to see the enumeration find them by itself)
    if os.environ.get("C18_NO_CORPUS"):
        return []
    return [_mk("channel_init_mutex", [1], "corpus-k1"), _mk("evloop_new_epoll", [2], "corpus-k2"),
            _mk("avl_tree_init_pool", [2], "corpus-k2"), _mk("queue_init_pool", [1], "corpus-k1"),
            _mk("hash_table_init_pool", [5], "corpus-k5"), _mk("async_logger_log", [2], "corpus-k2")]


def generate(rng, tier):
    cases = []
    for name, iid, n, reports, strict, dfail in INSTANCES:
        cases.append(_mk(name, [], "nofault"))
        for k in range(1, n + 4):
            cases.append(_mk(name, [k], "k%d" % k))
        if name not in NO_RETRY:      # future B: failure, retry, continued use, destroy (k <= n + 1: a fault can be hit)
            for k in range(1, n + 2):
                cases.append(_mk(name, [k], "k%d" % k, retry=True))
        if name in CTORS:      # uninitialised (0xA5) object storage: a field the failed constructor never wrote is garbage
            cases.append(_mk(name, [], "nofault", "a5"))
            for k in range(1, n + 2):
                cases.append(_mk(name, [k], "k%d" % k, "a5"))
                cases.append(_mk(name, [k], "k%d" % k, "a5", retry=True))
    # multi-fault part: quick = seeded fault SETS of size 2..3 per instance; thorough = ALL pairs
    # {i, j} with 1 <= i < j <= calls+1, plus seeded triples
    seen = set()

    def add(name, ks):
        ks = tuple(sorted(set(ks)))
        if len(ks) >= 2 and (name, ks) not in seen:
            seen.add((name, ks))
            cases.append(_mk(name, list(ks), "m" + "_".join(map(str, ks))))
            if name not in NO_RETRY:
                cases.append(_mk(name, list(ks), "m" + "_".join(map(str, ks)), retry=True))
            if name in CTORS:
                cases.append(_mk(name, list(ks), "m" + "_".join(map(str, ks)), "a5"))
    for name, iid, n, reports, strict, dfail in INSTANCES:
        top = n + 1
        if tier == "quick":
            for _ in range(6):
                size = rng.range(2, 3)
                add(name, [rng.range(1, top + 1) for _ in range(size)])
                if sum(1 for x in seen if x[0] == name) >= 4:
                    break
        else:
            for i in range(1, top + 1):
                for j in range(i + 1, top + 1):
                    add(name, [i, j])
            for _ in range(12):
                add(name, [rng.range(1, top + 1) for _ in range(3)])
    return cases


def search(rng, diverging, tier):
    out = []
    for name, iid, n, reports, strict, dfail in INSTANCES:
        for i in range(12):
            ks = sorted(set(rng.range(1, n + 2) for _ in range(rng.range(1, 3))))
            out.append(_mk(name, ks, "search%d-" % i + "_".join(map(str, ks)), retry=(i % 2 == 1 and name not in NO_RETRY)))
    return out


def _parse(case, lines):
    m = case.meta
    if not m or "inst" not in m:
        w = case.lines[0].split()
        ks = []
        retry = False
        for ln in case.lines[1:]:
            if ln.startswith("faults"):
                ks = [int(x) for x in ln.split()[1:]]
            if ln.split() == ["mode", "retry"]:
                retry = True
        m = {"inst": w[1], "ks": ks, "retry": retry}
    return m


def monitor(case, lines):
    """Independent oracle of the property: what the implementation printed must show failure reported when a fault
    was hit, nothing leaked, the object unchanged by the failed call, safe to destroy (future A) and safe to retry
    and to keep using (future B), destroy releases all.  For the instances of KNOWN_UNREPORTED the missing failure
    report is the recorded finding: every OTHER clause is checked first and that message comes last."""
    m = _parse(case, lines)
    t = BY_NAME.get(m["inst"])
    if t is None:
        return "unknown instance %s" % m["inst"]
    name, iid, n, reports, strict, dfail = t
    nv = NVALS.get(name, 0)
    mode_retry = bool(m.get("retry"))
    lines = list(lines)
    if len(lines) < 3 or not lines[0].startswith("pre live=") or not lines[1].startswith("op rc=") \
            or not lines[-1].startswith("destroy "):
        return "unexpected output %r" % (lines,)
    extra = {}
    for ln in lines[2:-1]:
        key = ln.split()[0]
        if key not in ("unchanged", "retry", "cont") or key in extra:
            return "unexpected output %r" % (lines,)
        extra[key] = ln
    try:
        base = int(lines[0].split("=")[1])
        f = dict(x.split("=") for x in lines[1].split()[1:])
        rc, att, live = f["rc"], int(f["att"]), int(f["live"])
        skipped = " skipped " in lines[-1]
        d = dict(x.split("=") for x in lines[-1].split() if "=" in x)
        dlive = int(d["live"])
        freed = int(d["freed"]) if "freed" in d else None
    except (ValueError, KeyError, IndexError):
        return "unparsable output %r" % (lines,)
    hit = sorted(k for k in m["ks"] if 1 <= k <= att)
    where = "%s faults=%s%s (hit %s of %d calls)" % (name, m["ks"], " mode=retry" if mode_retry else "", hit, att)
    unreported = None
    if hit:
        if reports and rc != "fail":
            unreported = "%s: allocation %d failed but the call reported SUCCESS" % (where, hit[0])
            if name not in KNOWN_UNREPORTED:
                return unreported
        if strict and live != base:
            return "%s: %d block(s)/fd(s) live after the failed call, %d were live before it (leak)" % (where, live, base)
        if rc == "fail":
            if extra.get("unchanged") != "unchanged yes":
                return "%s: the failed call CHANGED the object (%s)" % (where, extra.get("unchanged"))
            if mode_retry:
                if extra.get("retry") != "retry rc=ok":
                    return "%s: the failed call was retried without faults and did not succeed (%r)" % (where, extra.get("retry"))
            elif "retry" in extra:
                return "%s: unexpected retry line" % where
            if dfail and skipped and not mode_retry:
                return "%s: destroy was not run" % where
        ok_now = (rc == "ok") or (mode_retry and extra.get("retry") == "retry rc=ok")
        if ok_now and name in CONT:
            c = extra.get("cont", "")
            if not c.startswith("cont rc=ok "):
                return "%s: continued use of the object after the %s failed (%r)" % (
                    where, "operation" if rc == "ok" else "retry", c)
        if ok_now and skipped:
            return "%s: destroy was not run" % where
        if dlive != 0:
            return "%s: %d block(s)/fd(s) still live after failed call%s" % (
                where, dlive, "" if skipped else (" + retry + continued use + destroy" if mode_retry else " + destroy"))
        if nv and not skipped and freed != nv:
            return "%s: %s of the %d stored values were released (each must be released exactly once)" % (where, freed, nv)
        if unreported:
            return unreported
    else:
        if rc != "ok":
            return "%s: no fault was hit but the call reported failure" % where
        if skipped:
            return "%s: destroy was not run after success" % where
        if name in CONT and not extra.get("cont", "").startswith("cont rc=ok "):
            return "%s: continued use of the object after the operation failed (%r)" % (where, extra.get("cont"))
        if dlive != 0:
            return "%s: %d block(s)/fd(s) still live after success + destroy (destroy does not release all)" % (where, dlive)
        if live < base:
            return "%s: fewer live blocks after a successful call (%d) than before (%d)" % (where, live, base)
        if nv and freed != nv:
            return "%s: destroy released %s of the %d stored values through the free callback (each must be released exactly once)" % (
                where, freed, nv)
    return None


def known_class(case, failure_text):
    m = _parse(case, [])
    if m["inst"] in KNOWN_UNREPORTED and failure_text and "reported SUCCESS" in failure_text:
        return KNOWN_UNREPORTED[m["inst"]]
    return None


def nontrivial_key(case, lines):
    m = _parse(case, lines)
    try:
        att = int(dict(x.split("=") for x in lines[1].split()[1:])["att"])
    except Exception:
        return None
    if any(1 <= k <= att for k in m["ks"]):
        return "%s %s%s" % (m["inst"], m["ks"], " retry" if m.get("retry") else "")
    return None


_LABELS = None      # {model id: {"all": [labels], k: [labels entered when the k-th call fails; 0 = no fault]}}
_DEAD = []
_REACHED = {}


def _label_table():
    """Asks the extracted model (model_driver, case 'labels-table') which cleanup blocks each instance's
    operation has and which of them a no-fault / single-fault run enters."""
    global _LABELS, _DEAD
    if _LABELS is not None:
        return _LABELS
    _LABELS = {}
    exe = os.path.join(V.BUILD, "C18", "model_driver")
    if not os.path.exists(exe):
        return _LABELS
    rc, out, err = V.sh([exe], inp="CASE labels\nlabels-table\nEND\n", timeout=60)
    for ln in out.split("\n"):
        w = ln.split()
        if len(w) >= 1 and w[0] == "dead":
            _DEAD = [int(x) for x in w[1:]]
        elif len(w) >= 3 and w[0] == "L":
            t = _LABELS.setdefault(int(w[1]), {"all": []})
            if w[2] == "all":
                t["all"] = sorted(set(int(x) for x in w[3:]))
            elif w[2] == "k":
                t[int(w[3])] = [int(x) for x in w[4:]]
    return _LABELS


def tally(dist, case, lines):
    m = _parse(case, lines)
    key = "faults=%d" % min(len(m["ks"]), 3)
    dist[key] = dist.get(key, 0) + 1
    att = None
    if len(lines) >= 2 and lines[1].startswith("op rc="):
        k2 = "rc=" + lines[1].split()[1].split("=")[1]
        dist[k2] = dist.get(k2, 0) + 1
        try:
            att = int(dict(x.split("=") for x in lines[1].split()[1:])["att"])
        except Exception:
            att = None
    dist["instances"] = len(INSTANCES)
    # coverage table: instance -> cleanup labels entered in cases that ran on the implementation and were
    # compared with the model (a case with first hit h enters the blocks the model enters for fault h,
    # by multi_fault_reduces_to_first; any disagreement is reported as a divergence by the check)
    t = BY_NAME.get(m["inst"])
    tab = _label_table()
    if t is None or att is None or t[1] not in tab:
        return
    hit = sorted(k for k in m["ks"] if 1 <= k <= att)
    h = hit[0] if hit else 0
    r = _REACHED.setdefault(m["inst"], set())
    r.update(tab[t[1]].get(h, []))
    allb = tab[t[1]]["all"]
    dead = [x for x in allb if x in _DEAD]
    missing = [x for x in allb if x not in r and x not in _DEAD]
    dist["labels " + m["inst"]] = "%d/%d reached=%s%s%s" % (
        len([x for x in allb if x in r]), len(allb) - len(dead), sorted(x for x in allb if x in r),
        (" dead=%s" % dead) if dead else "", (" MISSING=%s" % missing) if missing else "")
    done = [n for n in _REACHED if not [x for x in tab[BY_NAME[n][1]]["all"]
                                         if x not in _REACHED[n] and x not in _DEAD]]
    dist["labels_fully_covered_instances"] = "%d of %d" % (len(done), len(INSTANCES))


MANIFEST = {
    "level_text": ("Generic Coq theorems over a small resource-protocol language (Alloc/Free/SetNull/Use/IfNull/IfSet/Call/Ret with "
                   "tracked pointer variables): the outcome of a run depends only on the fault positions it consulted, so the finite "
                   "decision tree explored by the checker wf_scn covers every fault function; a scenario accepted by wf_scn reports "
                   "failure, leaks nothing, does not crash/hang/double-free and is safe to destroy under EVERY fault set, and behaves "
                   "under any fault set as under its first hit.  99 instances transcribe the anchored constructors / growers / "
                   "inserters / destroys literally (wf_scn = true by vm_compute for the repaired code; the 18 transcriptions of the "
                   "unchanged defective code are refuted with a witness k; every failing operation is followed in two futures: destroy at "
                   "once, and retry + continued use + destroy).  Tied to the C code on every run by complete single-fault "
                   "enumeration + seeded multi-fault sets on the library compiled from the working tree with the allocator and "
                   "fd-creating calls interposed (ASan/UBSan on), compared line by line with the extracted model, plus an independent "
                   "monitor (failure reported, zero live after failure / after destroy, object unchanged by the failed call, retry and "
                   "continued use succeed, no crash/hang).  A coverage obligation regenerated from the clang AST of the whole library "
                   "keeps the instance table complete: every allocating function with external linkage is driven or excluded with a reason."),
    "design_ref": "DESIGN.md section 6 / C18",
    "level_note": ("Trusted: Coq kernel, extraction, the hand transcription of each function (checked by the differential run for every "
                   "fault position), the --wrap fault injector and accounting; caller storage is zero-initialised; mutex/condvar/"
                   "thread creation are not failed.  Known finding: void muggle_socket_evloop_add_ctx cannot report a failed enqueue."),
    "technique": "translator C (clang AST) -> protocol program, checked by wf_scn + soundness theorem on every run; Coq: locality of the interpreter + complete decision-tree exploration lifted to all fault functions; "
                 "fault-injection differential run (complete k enumeration) + monitor",
}
