"""C18 — allocation failure is reported, leak-free and crash-free; destroy releases all."""
import os
import sys

sys.path.insert(0, os.path.dirname(os.path.abspath(__file__)))

import vcommon as V

ID = "C18"
COQ_DIRS = ["C18"]
MODEL_BASE = "c18_model"
OCAML_DRIVER = "ocaml/c18_driver.ml"
C_DRIVER = "harness/drivers/c18_driver.c"
EXTRA_C = ["harness/faultinj/faultinj.c"]
REPO_SOURCES = V.all_repo_sources()          # the whole library, compiled from the working tree
WRAPPED = ["malloc", "calloc", "realloc", "aligned_alloc", "posix_memalign", "free",
           "eventfd", "epoll_create", "epoll_create1", "pipe", "pipe2", "socket", "accept", "accept4", "close",
           "fopen", "fclose", "fwrite", "fflush"]
LINK_FLAGS = ["-Wl,--wrap=" + w for w in WRAPPED]
HEADER_LINES = 3
SHRINK = False                                # a case is (instance, fault set): nothing to delete
CASE_TIMEOUT = 6.0

# name, model id, acquisition calls on the success path, contract flags used by the MONITOR
# (independent of the Coq model):
#   reports  False = the C function is void by design (logging): failure cannot be returned
#   strict   True  = after a failed call exactly the blocks held before the call are live
#            False = the object may keep blocks it owns (trie prefix nodes); destroy must free them
#   dfail    True  = "safe to destroy": destroy is called after a reported failure as well
INSTANCES = [
    ("channel_init_mutex", 0, 4, True, True, True),
    ("channel_init_nolock", 1, 1, True, True, True),
    ("ring_buffer_init", 2, 1, True, True, True),
    ("ma_ring_thread_ctx_init", 3, 3, True, True, True),
    ("double_buffer_init", 4, 2, True, True, True),
    ("array_blocking_queue_init", 5, 1, True, True, True),
    ("memory_pool_init", 6, 3, True, True, True),
    ("memory_pool_ensure_space", 7, 3, True, True, True),
    ("memory_pool_alloc_grow", 8, 3, True, True, True),
    ("sowr_memory_pool_init", 9, 1, True, True, True),
    ("ts_memory_pool_init", 10, 2, True, True, True),
    ("ring_memory_pool_init", 11, 1, True, True, True),
    ("pointer_slot_init", 12, 2, True, True, True),
    ("bytes_buffer_init", 13, 1, True, True, True),
    ("flow_ctl_init", 14, 1, True, True, True),
    ("array_list_init", 15, 1, True, True, True),
    ("array_list_ensure_capacity", 16, 1, True, True, True),
    ("array_list_append_grow", 17, 1, True, True, True),
    ("avl_tree_init_pool", 18, 4, True, True, True),
    ("avl_tree_insert", 19, 1, True, True, True),
    ("avl_tree_insert_pool_grow", 20, 3, True, True, True),
    ("hash_table_init_pool", 21, 5, True, True, True),
    ("hash_table_put", 22, 1, True, True, True),
    ("heap_init", 23, 1, True, True, True),
    ("heap_ensure_capacity", 24, 1, True, True, True),
    ("heap_insert_grow", 25, 1, True, True, True),
    ("linked_list_init_pool", 26, 4, True, True, True),
    ("linked_list_append", 27, 1, True, True, True),
    ("queue_init_pool", 28, 4, True, True, True),
    ("queue_enqueue", 29, 1, True, True, True),
    ("stack_init", 30, 1, True, True, True),
    ("stack_ensure_capacity", 31, 1, True, True, True),
    ("stack_push_grow", 32, 1, True, True, True),
    ("trie_init_pool", 33, 4, True, True, True),
    ("trie_insert_1", 34, 1, True, True, True),
    ("trie_insert_3", 35, 3, True, False, True),
    ("merge_sort", 36, 1, True, True, True),
    ("ev_signal_init", 37, 1, True, True, True),
    ("evloop_new_epoll", 38, 6, True, True, True),
    ("evloop_new_poll", 39, 6, True, True, True),
    ("evloop_new_select", 40, 4, True, True, True),
    ("evloop_new_epoll_mempool", 41, 10, True, True, True),
    ("evloop_add_ctx", 42, 1, True, True, True),
    ("socket_evloop_handle_init", 43, 2, True, True, True),
    ("socket_evloop_add_ctx", 44, 1, True, True, True),
    ("async_logger_init", 45, 2, True, True, False),
    ("async_logger_log", 46, 2, False, True, True),
    ("channel_init_default", 47, 2, True, True, True),
    ("array_list_insert_grow", 48, 1, True, True, True),
    ("linked_list_insert", 49, 1, True, True, True),
    ("linked_list_append_pool_grow", 50, 3, True, True, True),
    ("hash_table_put_pool_grow", 51, 3, True, True, True),
    ("queue_enqueue_pool_grow", 52, 3, True, True, True),
    ("trie_insert_pool_grow", 53, 3, True, True, True),
    ("memory_pool_alloc_grow_capped", 54, 3, True, True, True),
    ("evloop_add_ctx_poll", 55, 1, True, True, True),
    ("evloop_add_ctx_select", 56, 1, True, True, True),
    ("evloop_add_ctx_mempool_grow", 57, 3, True, True, True),
    ("socket_evloop_pipe_init", 58, 1, True, True, True),
    # callbacks of the socket event-loop handle are void; on_wake RELEASES the handed-over context when it
    # cannot be registered, so fewer blocks are live after the failed call than before it (strict = False)
    ("socket_evloop_on_read_accept", 59, 2, False, True, True),
    ("socket_evloop_on_wake", 60, 1, False, False, True),
    ("channel_init_rmutex", 61, 3, True, True, True),
    # log handlers owning a FILE* (fopen/fclose interposed; fwrite/fflush/fclose on a closed handle stops the run).
    # write_rotate: a failed re-open during rotation is not reported by write() and leaves the file closed
    # (fewer handles live than before the call): reports = False, strict = False
    ("log_file_handler_init", 77, 1, True, True, True),
    ("log_file_rotate_handler_init", 78, 1, True, True, True),
    ("log_file_rotate_handler_write_rotate", 79, 2, False, False, True),
    # the logger asks the attached handlers whether any accepts the level before it allocates: async_logger_log (46) runs with
    # a sink handler that accepts the message; here the only handler refuses it, so the call must make no acquisition (att = 0)
    ("async_logger_log_filtered", 80, 0, False, True, True),
]
# boundary contents on the success path: (name, id, calls, number of caller-owned values stored in the container).
# destroy runs with a counted free callback; a reported failure is retried without faults before destroy.
CONTENT = [
    ("trie_content_empty_key", 62, 1, 2), ("trie_content_empty_key_pool", 63, 0, 3),
    ("trie_content_single_empty", 64, 1, 1), ("avl_tree_content", 65, 1, 4), ("avl_tree_content_single", 66, 1, 1),
    ("hash_table_content", 67, 1, 3), ("hash_table_content_single", 68, 1, 1),
    ("linked_list_content_head", 69, 1, 3), ("linked_list_content_pool_full", 70, 0, 2),
    ("queue_content", 71, 1, 3), ("queue_content_pool_full", 72, 0, 2),
    ("array_list_content_index0_full", 73, 0, 4), ("array_list_content_index0_grow", 74, 1, 5),
    ("heap_content_grow", 75, 1, 5), ("stack_content_full", 76, 0, 4),
]
NVALS = {c[0]: c[3] for c in CONTENT}          # instances with values: retry after failure, freed == NVALS after destroy
INSTANCES = INSTANCES + [(c[0], c[1], c[2], True, True, True) for c in CONTENT]
# constructors (no pre-built object): also run with the object storage filled with 0xA5 instead of 0x00
CTORS = ["channel_init_mutex", "channel_init_nolock", "channel_init_default", "channel_init_rmutex", "ring_buffer_init",
         "double_buffer_init", "array_blocking_queue_init", "memory_pool_init", "sowr_memory_pool_init",
         "ts_memory_pool_init", "ring_memory_pool_init", "pointer_slot_init", "bytes_buffer_init", "flow_ctl_init",
         "array_list_init", "avl_tree_init_pool", "hash_table_init_pool", "heap_init", "linked_list_init_pool",
         "queue_init_pool", "stack_init", "trie_init_pool", "ev_signal_init", "socket_evloop_handle_init",
         "socket_evloop_pipe_init", "async_logger_init", "log_file_handler_init", "log_file_rotate_handler_init"]
# cleanup blocks / failure handlers ("labels", numbered in coq/C18/Instances.v by H n) -> where they are in the C code
LABEL_NAMES = {
    11: "memory_pool_init: data_bufs NULL", 12: "memory_pool_init: ptr_buf NULL", 13: "memory_pool_init: data_bufs[0] NULL",
    14: "ensure_space: new_bufs NULL", 15: "ensure_space: new data buffer NULL", 16: "ensure_space: new_ptr_buf NULL",
    17: "memory_pool_alloc: ensure_space failed", 20: "channel_init_except:", 21: "channel_init: write_mutex NULL",
    22: "channel_init: read_mutex NULL", 23: "channel_init: read_cv NULL", 24: "channel_init: blocks NULL",
    25: "ring_buffer_init: blocks NULL", 26: "ma_ring thread_ctx_init: ring NULL", 27: "ma_ring thread_ctx_init: buffer NULL",
    28: "ma_ring thread_ctx_init: insert_thread_ctx failed", 29: "ma_ring insert_thread_ctx: node NULL",
    30: "double_buffer_init: buf[0].datas NULL", 31: "double_buffer_init: buf[1].datas NULL", 32: "array_blocking_queue_init: datas NULL",
    33: "sowr_memory_pool_init: blocks NULL", 34: "ts_memory_pool_init: data or ptrs NULL", 35: "pointer_slot_init: slots or pp_slots NULL",
    36: "ring_memory_pool_init: blocks NULL", 37: "bytes_buffer_init: buffer NULL", 38: "flow_ctl_init: arr NULL",
    40: "array_list/heap/stack init: nodes NULL", 41: "ensure_capacity: new_nodes NULL", 42: "insert/append/push: ensure_capacity failed",
    43: "dsaa init: pool struct NULL", 44: "dsaa init: memory_pool_init failed", 45: "node allocation NULL",
    46: "insert/append/put/enqueue: node NULL", 47: "insert (pool): memory_pool_alloc failed",
    48: "trie_insert: 1st node NULL", 49: "trie_insert: 2nd node NULL", 50: "trie_insert: 3rd node NULL",
    51: "hash_table_init: nodes NULL", 52: "hash_table_init(cap 0): nodes NULL", 53: "merge_sort: arr NULL",
    54: "ev_signal_init: eventfd failed", 55: "muggle_evloop_init_except:", 56: "evloop_init: ctx_list NULL",
    57: "evloop_init: linked_list_init failed", 58: "evloop_init: ev_signal NULL", 59: "evloop_init: ev_signal_init failed",
    60: "evloop_init_epoll_except:", 61: "init_epoll: epoll_create failed", 62: "init_epoll: events NULL",
    63: "muggle_evloop_init_poll_except:", 64: "init_poll: fds NULL", 65: "init_poll: nodes NULL",
    66: "evloop_new: evloop NULL", 67: "evloop_new: evloop_init failed", 68: "evloop_new: back-end init failed",
    69: "evloop_add_ctx: linked_list_append failed", 70: "muggle_socket_evloop_handle_init_except:",
    71: "socket_evloop_handle_init: ctx_queue NULL", 72: "socket_evloop_handle_init: queue_init(0) failed (dead)",
    73: "socket_evloop_handle_init: mtx NULL", 74: "async_logger_init: channel_init failed", 75: "async_logger_log: msg NULL",
    76: "async_logger_log: payload NULL", 77: "socket_evloop_pipe_init: pipe failed", 78: "on_read accept: cb_alloc NULL",
    79: "on_read accept: evloop_add_ctx failed", 80: "on_wake: evloop_add_ctx failed (context released)",
    81: "rotate: re-open (fopen) failed", 82: "rotate handler write: rotate failed (ignored)",
    83: "log_file_handler_init: fopen failed", 84: "log_file_rotate_handler_init: fopen failed",
    157: "evloop_init: linked_list_init(0) failed (dead)", 168: "evloop_new: select init failed (dead)",
}

BY_NAME = {t[0]: t for t in INSTANCES}
KNOWN_VOID = "void-socket-evloop-add-ctx"

RULE = ("complete enumeration: for each of the %d instances (public constructor / grower / inserter + its destroy) the "
        "no-fault run and every single-fault position k = 1 .. (calls on the success path)+3, plus multi-fault sets: "
        "quick = seeded sets of size 2..3 per instance, thorough = ALL pairs {i<j<=calls+1} and seeded triples; a case is "
        "non-trivial when a fault was actually hit (k <= calls attempted); the tally lists, per instance, the cleanup "
        "labels entered by the compared cases (every label of every instance is entered; theorem every_cleanup_label_reached); "
        "distinct = distinct (instance, fault set)" % len(INSTANCES))
TRUSTED_BASE = [
    "fault injection by linker interposition (-Wl,--wrap) of malloc/calloc/realloc/aligned_alloc/posix_memalign/free and "
    "eventfd/epoll_create/epoll_create1/pipe/pipe2/socket/close in the objects compiled from the repository; allocations made "
    "inside libc (pthread_create, stdio) are not interposed and not in the property's fault class",
    "live accounting = blocks and descriptors obtained through the interposed calls since the scenario began and not yet released",
    "two ties between the C text and the protocol programs: (1) a TRANSLATOR (lib/props/c18_trans.py, clang JSON AST -> protocol "
    "term, regenerated into coq/gen/Params_C18.v on every run) for 32 init / grow / destroy scenarios - the generated programs "
    "themselves are proved to satisfy the property (wf_scn by vm_compute + the generic soundness theorem) and to behave like the "
    "hand-written instances; trusted there: the translator's classification of statements (acquire / release / NULL store / test / "
    "call / return class; calls without acquisition assumed to succeed; callees that walk an empty container and undecided scalar "
    "conditions listed per scenario in the generated file); (2) the hand-written transcription of every instance, tied to the code "
    "by the differential run (return class, calls attempted, live counts before/after the call and after destroy, for every k)",
    "modelled, not verified: pthread mutex/condvar initialisation and thread creation never fail (not allocation / fd-creating calls)",
]
ASSUMPTIONS = [
    "caller-provided object storage is run both zero-filled and 0xA5-filled before each constructor: the outcome must not depend on it "
    "(the model has pointer fields start as NULL, which is what the constructors' own memset / unconditional assignments establish)",
    "a fault is a failing malloc/calloc/realloc/aligned_alloc or eventfd/epoll_create/pipe/socket call made by the library itself",
]
EVIDENCE_NOTES = [
    "covered by instances: muggle_channel_init (3 flag sets)/destroy, muggle_ring_buffer_init/destroy, "
    "muggle_ma_ring_thread_ctx_init/cleanup, muggle_double_buffer_init/destroy, muggle_array_blocking_queue_init/destroy, "
    "muggle_memory_pool_init/ensure_space/alloc(grow)/destroy, muggle_sowr_memory_pool_init/destroy, muggle_ts_memory_pool_init/"
    "destroy, muggle_ring_memory_pool_init/destroy, muggle_pointer_slot_init/destroy, muggle_bytes_buffer_init/destroy, "
    "muggle_flow_ctl_init/destroy, muggle_array_list_init/ensure_capacity/append(grow)/destroy, muggle_heap_init/ensure_capacity/"
    "insert(grow)/destroy, muggle_stack_init/ensure_capacity/push(grow)/destroy, muggle_avl_tree_init(pool)/insert(malloc node, "
    "pool growth)/destroy, muggle_hash_table_init(pool)/put/destroy, muggle_linked_list_init(pool)/append/destroy, "
    "muggle_queue_init(pool)/enqueue/destroy, muggle_trie_init(pool)/insert(1 and 3 nodes)/destroy, muggle_merge_sort, "
    "muggle_ev_signal_init/destroy (eventfd), muggle_evloop_new (epoll, poll, select, epoll+mempool)/delete incl. "
    "muggle_evloop_init_{epoll,poll,select}, muggle_evloop_add_ctx, muggle_socket_evloop_handle_init/destroy, "
    "muggle_socket_evloop_add_ctx, muggle_async_logger_init/destroy, muggle_async_logger_log; added in the coverage round: "
    "muggle_channel_init (WRITE_SPIN|READ_MUTEX), muggle_array_list_insert(grow), muggle_linked_list_insert, node-from-full-pool "
    "growth through muggle_linked_list_append / muggle_hash_table_put / muggle_queue_enqueue / muggle_trie_insert / "
    "muggle_evloop_add_ctx (mempool), muggle_memory_pool_alloc with max_delta_cap set, muggle_evloop_add_ctx on the poll and "
    "select back-ends, muggle_socket_evloop_pipe_init/destroy (pipe()), the TCP_LISTEN accept path of "
    "muggle_socket_evloop_on_read (loopback listener, cb_alloc and evloop_add_ctx failures; accept() is tracked, never failed), "
    "muggle_socket_evloop_on_wake (registration of a handed-over context fails: it is released)",
    "NOT covered by instances, with the reason: functions that make no interposable acquisition - ring_buffer / channel / "
    "double_buffer / array_blocking_queue data paths, sowr/ts/ring pool alloc/free, muggle_pointer_slot_insert/remove (fixed "
    "arrays), bytes_buffer read/write (fixed buffer, no growth), muggle_hash_table_put bucket array (never grows), dsaa "
    "constructors with capacity 0, event_fd.c / event_context.c / event.c, muggle_ma_ring_backend_run (thread creation only), "
    "log handler inits (console/file/rotate/time-rot: fopen inside libc is not interposed; no malloc), sync logger; a pool with "
    "MUGGLE_MEMORY_POOL_CONSTANT_SIZE refuses growth without attempting an allocation (a refusal, not an allocation failure); the "
    "pipe/socket variants of event_signal.c are not compiled on Linux (eventfd build); fast_flow_controller is not anchored; "
    "retry-after-failure is not exercised (only destroy-after-failure); the only thread-context init/cleanup pair in the anchored "
    "files is muggle_ma_ring_thread_ctx_init/cleanup (covered)",
    "array_blocking_queue_init / double_buffer_init / ring_buffer_init leak or half-initialise only when pthread mutex/condvar "
    "initialisation fails; that is outside the property's fault class (allocation or fd-creating call) and is not injected",
    "GENERATED from the C text by the translator (scenario = instance id): muggle_channel_init/destroy (4 flag sets: ids 0, 1, 47, 61), "
    "muggle_ring_buffer_init/destroy (2), muggle_double_buffer_init/destroy (4, loop unrolled), muggle_array_blocking_queue_init/"
    "destroy (5), muggle_memory_pool_init/destroy (6), sowr / ts / ring pool, pointer_slot, bytes_buffer, flow_ctl init/destroy (9-14), "
    "array_list / heap / stack init + ensure_capacity + destroy (15, 16, 23, 24, 30, 31), avl / hash_table / linked_list / queue / trie "
    "init with node pool + destroy, with muggle_memory_pool_init/destroy translated in place (18, 21, 26, 28, 33), muggle_ev_signal_init/"
    "destroy (37), muggle_socket_evloop_handle_init/destroy (43), muggle_log_file_handler / _rotate_handler init/destroy (77, 78), "
    "muggle_evloop_init_epoll/destroy_epoll (201), _poll (202), static muggle_evloop_init/destroy (203).  HAND-WRITTEN only: "
    "muggle_memory_pool_ensure_space / alloc (array element with a variable index), muggle_evloop_new/delete (back-end through a "
    "function-pointer table), ma_ring thread context (thread-local static, waits for the back-end thread), async logger (thread), "
    "socket_evloop_pipe (pipe yields two descriptors), all insert / put / push / enqueue / add_ctx operations, callbacks on_read / "
    "on_wake, rotate-handler write, boundary-content instances.  An unsupported construct in a function of the generated set makes "
    "gen_errors non-empty = broken obligation generated_programs_complete",
    "FILE* handles are a third resource class: fopen counts as an acquisition call and can be failed, fclose releases; fwrite / "
    "fflush / fclose on a handle that was already closed (use after close, double close) stops the run and is a violation",
    "boundary-content instances (ids 62-76): containers pre-built with caller-owned heap values and contents that reach code the "
    "plain instances never touch - the EMPTY trie key (root.children[0]) with and without node pool, a single element, insertion at "
    "index 0 / at the head, a rejected duplicate (avl, hash table), node pool / array exactly full at destroy, growth with stored "
    "values; destroy runs with a counted free callback (monitor: zero live and callback count == values stored, i.e. each value "
    "released exactly once - a second release is a double free under ASan); a reported failure is followed by a fault-free retry "
    "that must succeed ('safe to retry')",
    "trie_insert of a multi-byte key keeps the prefix nodes it created when a later node allocation fails; they stay owned by "
    "the trie and are released by destroy (monitor: zero live after destroy; the strict 'live unchanged' clause is not applied)",
    "async_logger_init: destroy is NOT called after a reported failure (its destroy joins a thread that was never created); "
    "async_logger_log is void by design, so only no-crash / no-leak / destroy-releases-all are required of it",
]



# ---------------------------------------------------------------------------------------------------------------
# TRANSLATOR tie: for these scenarios (id = the instance it doubles; ids >= 200 have no hand-written instance) the
# resource-protocol program is regenerated from the C text (clang JSON AST) on every run into coq/gen/Params_C18.v;
# coq/C18/ProofsGen.v then proves (vm_compute) that every generated scenario is accepted by wf_scn - hence, by the
# generic theorems, satisfies the property under every fault function - and behaves like the hand-written instance
# that the differential run compares with the implementation.  `neutral`: callees that walk the (empty) container;
# `hints`: scalar conditions the argument values do not decide.
GEN_SPECS = {
 6: dict(op=("memory/memory_pool.c","muggle_memory_pool_init",{"init_capacity":4,"block_size":16}), destroy=("memory/memory_pool.c","muggle_memory_pool_destroy",{})),
 15: dict(op=("dsaa/array_list.c","muggle_array_list_init",{"capacity":4}), destroy=("dsaa/array_list.c","muggle_array_list_destroy",{}), neutral=["muggle_array_list_clear"]),
 16: dict(pre=[("dsaa/array_list.c","muggle_array_list_init",{"capacity":4})], op=("dsaa/array_list.c","muggle_array_list_ensure_capacity",{"capacity":16}), destroy=("dsaa/array_list.c","muggle_array_list_destroy",{}), neutral=["muggle_array_list_clear"], hints={"p_array_list->capacity >= capacity": False}),
 23: dict(op=("dsaa/heap.c","muggle_heap_init",{"capacity":4}), destroy=("dsaa/heap.c","muggle_heap_destroy",{}), neutral=["muggle_heap_clear"]),
 24: dict(pre=[("dsaa/heap.c","muggle_heap_init",{"capacity":4})], op=("dsaa/heap.c","muggle_heap_ensure_capacity",{"capacity":16}), destroy=("dsaa/heap.c","muggle_heap_destroy",{}), neutral=["muggle_heap_clear"], hints={"p_heap->capacity >= capacity": False}),
 30: dict(op=("dsaa/stack.c","muggle_stack_init",{"capacity":4}), destroy=("dsaa/stack.c","muggle_stack_destroy",{}), neutral=["muggle_stack_clear"]),
 31: dict(pre=[("dsaa/stack.c","muggle_stack_init",{"capacity":4})], op=("dsaa/stack.c","muggle_stack_ensure_capacity",{"capacity":16}), destroy=("dsaa/stack.c","muggle_stack_destroy",{}), neutral=["muggle_stack_clear"], hints={"p_stack->capacity >= capacity": False}),
 18: dict(op=("dsaa/avl_tree.c","muggle_avl_tree_init",{"capacity":8}), destroy=("dsaa/avl_tree.c","muggle_avl_tree_destroy",{}), neutral=["muggle_avl_tree_clear"]),
 21: dict(op=("dsaa/hash_table.c","muggle_hash_table_init",{"capacity":8,"table_size":16}), destroy=("dsaa/hash_table.c","muggle_hash_table_destroy",{}), neutral=["muggle_hash_table_clear"]),
 26: dict(op=("dsaa/linked_list.c","muggle_linked_list_init",{"capacity":8}), destroy=("dsaa/linked_list.c","muggle_linked_list_destroy",{}), neutral=["muggle_linked_list_clear"]),
 28: dict(op=("dsaa/queue.c","muggle_queue_init",{"capacity":8}), destroy=("dsaa/queue.c","muggle_queue_destroy",{}), neutral=["muggle_queue_clear"]),
 33: dict(op=("dsaa/trie.c","muggle_trie_init",{"capacity":8}), destroy=("dsaa/trie.c","muggle_trie_destroy",{}), neutral=["muggle_trie_erase_node"]),
 0: dict(op=("sync/channel.c","muggle_channel_init",{"capacity":8,"flags":16}), destroy=("sync/channel.c","muggle_channel_destroy",{})),
 1: dict(op=("sync/channel.c","muggle_channel_init",{"capacity":8,"flags":35}), destroy=("sync/channel.c","muggle_channel_destroy",{})),
 47: dict(op=("sync/channel.c","muggle_channel_init",{"capacity":8,"flags":0}), destroy=("sync/channel.c","muggle_channel_destroy",{})),
 61: dict(op=("sync/channel.c","muggle_channel_init",{"capacity":8,"flags":18}), destroy=("sync/channel.c","muggle_channel_destroy",{})),
 2: dict(op=("sync/ring_buffer.c","muggle_ring_buffer_init",{"capacity":8,"flag":0}), destroy=("sync/ring_buffer.c","muggle_ring_buffer_destroy",{})),
 4: dict(op=("sync/double_buffer.c","muggle_double_buffer_init",{"capacity":8,"non_blocking":0}), destroy=("sync/double_buffer.c","muggle_double_buffer_destroy",{})),
 5: dict(op=("sync/array_blocking_queue.c","muggle_array_blocking_queue_init",{"capacity":8}), destroy=("sync/array_blocking_queue.c","muggle_array_blocking_queue_destroy",{})),
 9: dict(op=("memory/sowr_memory_pool.c","muggle_sowr_memory_pool_init",{"capacity":8,"data_size":16}), destroy=("memory/sowr_memory_pool.c","muggle_sowr_memory_pool_destroy",{})),
 10: dict(op=("memory/threadsafe_memory_pool.c","muggle_ts_memory_pool_init",{"capacity":8,"data_size":16}), destroy=("memory/threadsafe_memory_pool.c","muggle_ts_memory_pool_destroy",{})),
 11: dict(op=("memory/ring_memory_pool.c","muggle_ring_memory_pool_init",{"capacity":8,"data_size":16}), destroy=("memory/ring_memory_pool.c","muggle_ring_memory_pool_destroy",{})),
 12: dict(op=("memory/pointer_slot.c","muggle_pointer_slot_init",{"capacity":8}), destroy=("memory/pointer_slot.c","muggle_pointer_slot_destroy",{})),
 13: dict(op=("memory/bytes_buffer.c","muggle_bytes_buffer_init",{"capacity":64}), destroy=("memory/bytes_buffer.c","muggle_bytes_buffer_destroy",{})),
 14: dict(op=("time/flow_controller.c","muggle_flow_ctl_init",{"time_range_sec":1,"n":4,"init_forward_sec":0}), destroy=("time/flow_controller.c","muggle_flow_ctl_destroy",{})),
 37: dict(op=("event/event_signal.c","muggle_ev_signal_init",{}), destroy=("event/event_signal.c","muggle_ev_signal_destroy",{})),
 43: dict(op=("net/socket_evloop_handle.c","muggle_socket_evloop_handle_init",{}), destroy=("net/socket_evloop_handle.c","muggle_socket_evloop_handle_destroy",{}), neutral=["muggle_queue_clear"]),
 77: dict(op=("log/log_file_handler.c","muggle_log_file_handler_init",{}), destroy=("log/log_file_handler.c","muggle_log_file_handler_destroy",{})),
 78: dict(op=("log/log_file_rotate_handler.c","muggle_log_file_rotate_handler_init",{"max_bytes":64,"backup_count":2}), destroy=("log/log_file_rotate_handler.c","muggle_log_file_rotate_handler_destroy",{}), hints={"handler->offset >= handler->max_bytes": False}),
 201: dict(op=("event/internal/event_loop_epoll.c","muggle_evloop_init_epoll",{}), destroy=("event/internal/event_loop_epoll.c","muggle_evloop_destroy_epoll",{})),
 202: dict(op=("event/internal/event_loop_poll.c","muggle_evloop_init_poll",{}), destroy=("event/internal/event_loop_poll.c","muggle_evloop_destroy_poll",{})),
 203: dict(op=("event/event_loop.c","muggle_evloop_init",{}), destroy=("event/event_loop.c","muggle_evloop_destroy",{}), neutral=["muggle_linked_list_clear"], hints={"args->use_mem_pool": False}),
}


def gen_params(ctx):
    import c18_trans as T
    V.gen_config_header()
    cflags = ["-std=gnu11", "-DNDEBUG", "-D" + V.GUARD, "-DMUGGLE_C_EXPORTS", "-I" + V.REPO, "-I" + V.GEN_INC]
    loader = T.AstLoader(V.REPO, cflags, os.path.join(V.BUILD, "C18", "astcache"), V.headers_hash())
    return T.params_file(loader, GEN_SPECS, V.REPO)


def _mk(name, ks, tag, fill=None):
    t = BY_NAME[name]
    lines = ["inst %s %d" % (name, t[1])]
    if fill:
        lines.append("fill %s" % fill)      # ignored by the model: the outcome must not depend on it
        tag += "-" + fill
    lines.append("faults" + "".join(" %d" % k for k in ks))
    return V.Case("%s-%s" % (name, tag), lines, {"inst": name, "ks": list(ks)})


def corpus_cases(ctx):
    # the fault positions at which the unchanged tree was found to violate the property
    # (C18_NO_CORPUS=1: leave them out, to see the enumeration find them by itself)
    if os.environ.get("C18_NO_CORPUS"):
        return []
    return [_mk("channel_init_mutex", [1], "corpus-k1"), _mk("evloop_new_epoll", [2], "corpus-k2"),
            _mk("avl_tree_init_pool", [2], "corpus-k2"), _mk("queue_init_pool", [1], "corpus-k1"),
            _mk("hash_table_init_pool", [5], "corpus-k5"), _mk("async_logger_log", [2], "corpus-k2")]


def generate(rng, tier):
    cases = []
    for name, iid, n, reports, strict, dfail in INSTANCES:
        cases.append(_mk(name, [], "nofault"))
        for k in range(1, n + 4):
            cases.append(_mk(name, [k], "k%d" % k))
        if name in CTORS:      # uninitialised (0xA5) object storage: a field the failed constructor never wrote is garbage
            cases.append(_mk(name, [], "nofault", "a5"))
            for k in range(1, n + 2):
                cases.append(_mk(name, [k], "k%d" % k, "a5"))
    # multi-fault part: quick = seeded fault SETS of size 2..3 per instance; thorough = ALL pairs
    # {i, j} with 1 <= i < j <= calls+1, plus seeded triples
    seen = set()

    def add(name, ks):
        ks = tuple(sorted(set(ks)))
        if len(ks) >= 2 and (name, ks) not in seen:
            seen.add((name, ks))
            cases.append(_mk(name, list(ks), "m" + "_".join(map(str, ks))))
            if name in CTORS:
                cases.append(_mk(name, list(ks), "m" + "_".join(map(str, ks)), "a5"))
    for name, iid, n, reports, strict, dfail in INSTANCES:
        top = n + 1
        if tier == "quick":
            for _ in range(6):
                size = rng.range(2, 3)
                add(name, [rng.range(1, top + 1) for _ in range(size)])
                if sum(1 for x in seen if x[0] == name) >= 4:
                    break
        else:
            for i in range(1, top + 1):
                for j in range(i + 1, top + 1):
                    add(name, [i, j])
            for _ in range(12):
                add(name, [rng.range(1, top + 1) for _ in range(3)])
    return cases


def search(rng, diverging, tier):
    out = []
    for name, iid, n, reports, strict, dfail in INSTANCES:
        for i in range(12):
            ks = sorted(set(rng.range(1, n + 2) for _ in range(rng.range(1, 3))))
            out.append(_mk(name, ks, "search%d-" % i + "_".join(map(str, ks))))
    return out


def _parse(case, lines):
    m = case.meta
    if not m or "inst" not in m:
        w = case.lines[0].split()
        ks = []
        for ln in case.lines[1:]:
            if ln.startswith("faults"):
                ks = [int(x) for x in ln.split()[1:]]
        m = {"inst": w[1], "ks": ks}
    return m


def monitor(case, lines):
    """Independent oracle of the property: what the implementation printed must show
    failure reported when a fault was hit, nothing leaked, destroy releases all."""
    m = _parse(case, lines)
    t = BY_NAME.get(m["inst"])
    if t is None:
        return "unknown instance %s" % m["inst"]
    name, iid, n, reports, strict, dfail = t
    nv = NVALS.get(name, 0)
    retry_line = None
    if len(lines) == 4 and lines[2].startswith("retry rc="):
        retry_line = lines[2]
        lines = [lines[0], lines[1], lines[3]]
    if len(lines) != 3 or not lines[0].startswith("pre live=") or not lines[1].startswith("op rc=") \
            or not lines[2].startswith("destroy "):
        return "unexpected output %r" % (lines,)
    try:
        base = int(lines[0].split("=")[1])
        f = dict(x.split("=") for x in lines[1].split()[1:])
        rc, att, live = f["rc"], int(f["att"]), int(f["live"])
        skipped = " skipped " in lines[2]
        d = dict(x.split("=") for x in lines[2].split() if "=" in x)
        dlive = int(d["live"])
        freed = int(d["freed"]) if "freed" in d else None
    except (ValueError, KeyError, IndexError):
        return "unparsable output %r" % (lines,)
    hit = sorted(k for k in m["ks"] if 1 <= k <= att)
    where = "%s faults=%s (hit %s of %d calls)" % (name, m["ks"], hit, att)
    if hit:
        if reports and rc != "fail":
            return "%s: allocation %d failed but the call reported SUCCESS" % (where, hit[0])
        if strict and live != base:
            return "%s: %d block(s)/fd(s) live after the failed call, %d were live before it (leak)" % (where, live, base)
        if rc == "fail" and dfail and skipped:
            return "%s: destroy was not run" % where
        if nv:
            if retry_line != "retry rc=ok":
                return "%s: the failed call was retried without faults and did not succeed (%r)" % (where, retry_line)
        if dlive != 0:
            return "%s: %d block(s)/fd(s) still live after failed call%s" % (
                where, dlive, "" if skipped else (" + retry + destroy" if nv else " + destroy"))
        if nv and freed != nv:
            return "%s: destroy released %s of the %d stored values through the free callback" % (where, freed, nv)
    else:
        if rc != "ok":
            return "%s: no fault was hit but the call reported failure" % where
        if skipped:
            return "%s: destroy was not run after success" % where
        if dlive != 0:
            return "%s: %d block(s)/fd(s) still live after success + destroy (destroy does not release all)" % (where, dlive)
        if live < base:
            return "%s: fewer live blocks after a successful call (%d) than before (%d)" % (where, live, base)
        if nv and freed != nv:
            return "%s: destroy released %s of the %d stored values through the free callback (each must be released exactly once)" % (
                where, freed, nv)
    return None


def known_class(case, failure_text):
    m = _parse(case, [])
    if m["inst"] == "socket_evloop_add_ctx" and failure_text and "reported SUCCESS" in failure_text:
        return KNOWN_VOID
    return None


def nontrivial_key(case, lines):
    m = _parse(case, lines)
    try:
        att = int(dict(x.split("=") for x in lines[1].split()[1:])["att"])
    except Exception:
        return None
    if any(1 <= k <= att for k in m["ks"]):
        return "%s %s" % (m["inst"], m["ks"])
    return None


_LABELS = None      # {model id: {"all": [labels], k: [labels entered when the k-th call fails; 0 = no fault]}}
_DEAD = []
_REACHED = {}


def _label_table():
    """Asks the extracted model (model_driver, case 'labels-table') which cleanup blocks each instance's
    operation has and which of them a no-fault / single-fault run enters."""
    global _LABELS, _DEAD
    if _LABELS is not None:
        return _LABELS
    _LABELS = {}
    exe = os.path.join(V.BUILD, "C18", "model_driver")
    if not os.path.exists(exe):
        return _LABELS
    rc, out, err = V.sh([exe], inp="CASE labels\nlabels-table\nEND\n", timeout=60)
    for ln in out.split("\n"):
        w = ln.split()
        if len(w) >= 1 and w[0] == "dead":
            _DEAD = [int(x) for x in w[1:]]
        elif len(w) >= 3 and w[0] == "L":
            t = _LABELS.setdefault(int(w[1]), {"all": []})
            if w[2] == "all":
                t["all"] = sorted(set(int(x) for x in w[3:]))
            elif w[2] == "k":
                t[int(w[3])] = [int(x) for x in w[4:]]
    return _LABELS


def tally(dist, case, lines):
    m = _parse(case, lines)
    key = "faults=%d" % min(len(m["ks"]), 3)
    dist[key] = dist.get(key, 0) + 1
    att = None
    if len(lines) >= 2 and lines[1].startswith("op rc="):
        k2 = "rc=" + lines[1].split()[1].split("=")[1]
        dist[k2] = dist.get(k2, 0) + 1
        try:
            att = int(dict(x.split("=") for x in lines[1].split()[1:])["att"])
        except Exception:
            att = None
    dist["instances"] = len(INSTANCES)
    # coverage table: instance -> cleanup labels entered in cases that ran on the implementation and were
    # compared with the model (a case with first hit h enters the blocks the model enters for fault h,
    # by multi_fault_reduces_to_first; any disagreement is reported as a divergence by the check)
    t = BY_NAME.get(m["inst"])
    tab = _label_table()
    if t is None or att is None or t[1] not in tab:
        return
    hit = sorted(k for k in m["ks"] if 1 <= k <= att)
    h = hit[0] if hit else 0
    r = _REACHED.setdefault(m["inst"], set())
    r.update(tab[t[1]].get(h, []))
    allb = tab[t[1]]["all"]
    dead = [x for x in allb if x in _DEAD]
    missing = [x for x in allb if x not in r and x not in _DEAD]
    dist["labels " + m["inst"]] = "%d/%d reached=%s%s%s" % (
        len([x for x in allb if x in r]), len(allb) - len(dead), sorted(x for x in allb if x in r),
        (" dead=%s" % dead) if dead else "", (" MISSING=%s" % missing) if missing else "")
    done = [n for n in _REACHED if not [x for x in tab[BY_NAME[n][1]]["all"]
                                         if x not in _REACHED[n] and x not in _DEAD]]
    dist["labels_fully_covered_instances"] = "%d of %d" % (len(done), len(INSTANCES))


MANIFEST = {
    "level_text": ("Generic Coq theorems over a small resource-protocol language (Alloc/Free/SetNull/Use/IfNull/IfSet/Call/Ret with "
                   "tracked pointer variables): the outcome of a run depends only on the fault positions it consulted, so the finite "
                   "decision tree explored by the checker wf_scn covers every fault function; a scenario accepted by wf_scn reports "
                   "failure, leaks nothing, does not crash/hang/double-free and is safe to destroy under EVERY fault set, and behaves "
                   "under any fault set as under its first hit.  81 instances transcribe the anchored constructors / growers / "
                   "inserters / destroys literally (wf_scn = true by vm_compute for the repaired code; the 17 transcriptions of the "
                   "unchanged defective code are refuted with a witness k).  Tied to the C code on every run by complete single-fault "
                   "enumeration + seeded multi-fault sets on the library compiled from the working tree with the allocator and "
                   "fd-creating calls interposed (ASan/UBSan on), compared line by line with the extracted model, plus an independent "
                   "monitor (failure reported, zero live after failure / after destroy, no crash/hang)."),
    "design_ref": "DESIGN.md section 6 / C18",
    "level_note": ("Trusted: Coq kernel, extraction, the hand transcription of each function (checked by the differential run for every "
                   "fault position), the --wrap fault injector and accounting; caller storage is zero-initialised; mutex/condvar/"
                   "thread creation are not failed.  Known finding: void muggle_socket_evloop_add_ctx cannot report a failed enqueue."),
    "technique": "translator C (clang AST) -> protocol program, checked by wf_scn + soundness theorem on every run; Coq: locality of the interpreter + complete decision-tree exploration lifted to all fault functions; "
                 "fault-injection differential run (complete k enumeration) + monitor",
}
