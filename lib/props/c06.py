"""C06 — growable memory pool: plugin for bin/check."""
import itertools
import vcommon as V

ID = "C06"
COQ_DIRS = ["C06"]
MODEL_BASE = "c06_model"
OCAML_DRIVER = "ocaml/c06_driver.ml"
C_DRIVER = "harness/drivers/c06_driver.c"
REPO_SOURCES = ["muggle/c/memory/memory_pool.c"]
LINK_FLAGS = ["-Wl,--wrap=malloc", "-Wl,--wrap=free"]
HEADER_LINES = 1
CASE_TIMEOUT = 5.0
SHRINK_BUDGET = 200
RULE = ("(1) every history of length D (quick 6, thorough 8) over {alloc, free oldest, free newest, ensure cap+1, "
        "ensure cap+3} from init capacity 1..4; (2) for capacity 1..4 every (alloc cursor, used) position reached by "
        "rotation, then each growth kind (ensure +1/+2/+cap, alloc-triggered, with and without max_delta_cap), then a "
        "drain suffix that fills the pool and cycles every ring slot twice; (3) seeded random long histories across "
        "many growths with flag / max_delta_cap changes and injected malloc failures; (4) init / ensure_space with "
        "block_size x count around and beyond 2^32 under a malloc that refuses > 1 GiB; (5) alloc on a synthesised full "
        "pool whose capacity + growth step wraps uint32.  Non-trivial = the history "
        "contains a successful growth while blocks are live or free cursors are rotated, or a refused operation; "
        "distinct = distinct script text")
TRUSTED_BASE = [
    "modelled, not verified: malloc/free (oracle: k-th call of the operation, size -> success; the driver's --wrap=malloc "
    "wrapper refuses > 1 GiB and fails on command); sizeof(void*) = 8 and size_t = 64 bit (LP64)",
    "block contents: the model has no bytes; contents preservation is checked only by the driver's per-block pattern "
    "re-verified after every operation under ASan (differential run), and follows in the model from 'no slab is ever "
    "freed or moved and live blocks stay out of the free part'",
]
TRUSTED_BASE.append(
    "second tie (translator kind): lib/props/c06_slice.py executes muggle_memory_pool_ensure_space / _alloc / _free / _init "
    "symbolically over the clang JSON AST of the C text of this run (pool fields -> arguments; pointers followed as "
    "(object, cell index); k-th malloc -> fresh object heap_k at address m_k with the requested size recorded; memcpy -> "
    "lblit; counting loops -> lfill; file-local helpers inlined in continuation-passing style; &&, ||, ! around calls "
    "lowered to branches; ensure_space opaque inside alloc) into the gen_ definitions of coq/gen/Params_C06.v; trusted: "
    "clang 14 AST, the slicer, the vocabulary of coq/Lib/Leaf.v and coq/C06/GenLib.v")
ASSUMPTIONS = ["free is given a block that is currently live in this pool (DESIGN.md Appendix B)",
               "arguments are uint32 values; LP64 host (size_t products of two uint32 values do not wrap)"]
EVIDENCE_NOTES = [
    "translator tie (obligations gen_*_matches_model, gen_ensure_space_matches_reference): the generated functions are "
    "proved equal to hand-written references on the whole arithmetic domain by a shape-independent tactic (every `if` "
    "decided, tuples component-wise, integers by time-limited lia/nia, arrays cell by cell), and the model's free / "
    "alloc / init / ensure_space equal the same references on every state satisfying the ring invariant: new "
    "alloc_index / free_index / capacity / num_buf / used, every cell of the re-linearised pointer ring (three layouts, "
    "four runs, new blocks at base + i * block_size), growth step clamp / uint32 sum / overflow guard, cursor stepping "
    "with wrap, default capacity, the three size_t size products, every malloc-failure path.  An edit of memory_pool.c "
    "that changes one of these values anywhere in the domain, or cannot be sliced (reported as a comment in "
    "gen/Params_C06.v), breaks an obligation even when no generated history reaches it (checked: seeded C06-1..6 and a "
    "+1 / -1 on one section length all break a gen obligation); hoisted locals, index- instead of pointer-based "
    "sections, reordered De Morgan branch chains, helper functions, memcpy replaced by an element loop keep it "
    "(refactored/C06-A..D quiet).  Not in the translator tie: destroy, set_flag / set_max_delta_cap / get_flag "
    "(one-line accessors), the debug-only peak counter, free() calls (failure paths' releases are checked by the "
    "differential run: leaked=0).",
    "proved (Coq, all histories/capacities/block sizes/malloc oracles, repaired code fx=true): ring invariant A.2 for every "
    "reachable state; fresh block on every alloc; live blocks pairwise disjoint and inside their slab; growth keeps "
    "slabs as a prefix, live set and free part; counters refine the reference counter model; constant-size never "
    "grows and reports exhaustion; growth step bounded by max_delta_cap; init total; failed alloc/ensure_space leave "
    "the state unchanged.  Refutations of the code as found (fx=false) are theorems too (witnesses by vm_compute).",
    "covered only by the differential run: block contents (pattern check under ASan), that destroy releases every "
    "allocation, that failure paths free their partial allocations, the exact malloc call order/sizes (oracle "
    "correspondence).",
    "repair (c) (alloc refuses when capacity + delta wraps uint32) is exercised only by the proof: reaching it needs a "
    "pool of >= 2^31 blocks (16 GiB pointer ring); the differential run covers only its not-taken side.",
]

LIMIT = 1 << 30
U32 = 1 << 32

# second tie (translator kind): functions of memory_pool.c sliced into Gallina on every run
GEN_FUNCS = [("ensure_space", None), ("alloc", {"muggle_memory_pool_ensure_space":
                                                ["alloc_index", "capacity", "free_index", "num_buf", "memory_pool_ptr_buf"]}),
             ("free", None), ("init", None)]


def gen_params(ctx):
    """coq/gen/Params_C06.v: the integer / pointer-ring content of ensure_space, alloc, free and init, sliced out of the
    clang AST of the C text of this run (lib/props/c06_slice.py).  A function that cannot be sliced is written as a
    comment, which breaks its gen_*_matches_model obligation."""
    import os
    import leaftrans as L
    from props import c06_slice as S
    V.gen_config_header()
    flags = ["-std=gnu11", "-I" + V.REPO, "-I" + V.GEN_INC, "-DNDEBUG"]
    src = os.path.join(V.REPO, REPO_SOURCES[0])
    lines = ["(* generated by lib/props/c06.py (lib/props/c06_slice.py) from %s of this run; do not edit *)" % REPO_SOURCES[0],
             "From MV Require Import Lib.Leaf C06.GenLib.", "Local Open Scope Z_scope.", ""]
    for nm, opaque in GEN_FUNCS:
        try:
            lines.append(S.translate(src, "muggle_memory_pool_" + nm, flags, "gen_" + nm, opaque))
        except L.LeafError as e:
            lines.append("(* slicer error for %s: %s *)\n" % (nm, str(e).replace("*)", "* )")))
        except Exception as e:      # a broken AST must break the obligation, not the machinery
            lines.append("(* slicer failure for %s: %s: %s *)\n" % (nm, type(e).__name__, str(e)[:200].replace("*)", "* )")))
    return "\n".join(lines) + "\n"



def _case(name, lines):
    return V.Case(name, lines)


# --------------------------------------------------------------------------
# generators

def _drain(cap_hint):
    """fill the pool, then cycle every ring slot twice (free oldest / newest alternately)"""
    out = ["flag 1"] + ["alloc"] * (cap_hint + 1) + ["flag 0"]
    for i in range(2 * cap_hint + 2):
        out += ["free %d" % (0 if i % 3 else cap_hint - 1), "alloc"]
    return out


def _cursor_cases():
    cases = []
    for cap in (1, 2, 3, 4):
        for rot in range(cap):
            for used in range(cap + 1):
                for frot in range(0, cap - used + 1) if used < cap else (0,):
                    pre = []
                    for _ in range(rot):
                        pre += ["alloc", "free 0"]
                    pre += ["alloc"] * used
                    # rotate the free cursor relative to the alloc cursor: free+realloc keeps used
                    for _ in range(frot):
                        if used > 0:
                            pre += ["free 0", "alloc"]
                    grows = [("e1", ["ensure %d" % (cap + 1)], cap + 1), ("e2", ["ensure %d" % (cap + 2)], cap + 2),
                             ("ec", ["ensure %d" % (2 * cap)], 2 * cap)]
                    if used == cap:
                        grows += [("a", ["alloc"], 2 * cap + 1), ("am1", ["maxdelta 1", "alloc"], cap + 2),
                                  ("am0", ["maxdelta 0", "alloc"], 2 * cap + 1)]
                    for gname, g, ncap in grows:
                        cases.append(_case("cur-c%d-r%d-u%d-f%d-%s" % (cap, rot, used, frot, gname),
                                           ["init %d 24" % cap] + pre + g + _drain(ncap)))
    return cases


def _exhaustive(depth):
    cases = []
    alpha = ["A", "F0", "FL", "E1", "E3"]
    for cap in (1, 2, 3, 4):
        for combo in itertools.product(range(len(alpha)), repeat=depth):
            lines, c, live = ["init %d 8" % cap], cap, 0
            okc = True
            for x in combo:
                k = alpha[x]
                if k == "A":
                    lines.append("alloc")
                    if live == c:
                        c *= 2
                    live += 1
                elif k == "F0":
                    if live == 0:
                        okc = False
                        break
                    lines.append("free 0")
                    live -= 1
                elif k == "FL":
                    if live < 2:           # with one live block FL == F0
                        okc = False
                        break
                    lines.append("free %d" % (live - 1))
                    live -= 1
                elif k == "E1":
                    c += 1
                    lines.append("ensure %d" % c)
                else:
                    c += 3
                    lines.append("ensure %d" % c)
            if not okc:
                continue
            # short tail: fill and cycle once so that a mis-linked ring shows
            lines += ["flag 1"] + ["alloc"] * (c - live + 1) + ["free 0", "alloc", "free %d" % (c - 1), "alloc"]
            cases.append(_case("ex-c%d-%s" % (cap, "".join(map(str, combo))), lines))
    return cases


def _random_history(rng, name, nops, small):
    cap = rng.choice([1, 1, 2, 3, 4, 5, 7, 8, 16] if small else [1, 2, 3, 4, 8, 0, 16, 33, 100])
    bs = rng.choice([1, 2, 3, 8, 16, 24, 100, 4096, 8191, 8192, 8193])
    lines = ["init %d %d" % (cap, bs)]
    c = cap or 8
    live = 0
    if rng.chance(1, 2):
        lines.append("maxdelta %d" % rng.choice([0, 1, 2, 3, 5, 1000]))
    mode = rng.choice(["grow", "mixed", "mixed", "churn"])
    for _ in range(nops):
        r = rng.below(100)
        if mode == "grow":
            pa, pf = 60, 25
        elif mode == "churn":
            pa, pf = 45, 45
        else:
            pa, pf = 50, 35
        if r < pa:
            lines.append("alloc")
            live += 1          # upper bound; NULL results only make later k modulo smaller
        elif r < pa + pf:
            if live > 0:
                lines.append("free %d" % rng.below(live))
                live -= 1
        elif r < pa + pf + 6:
            c = c + rng.choice([0, 1, 1, 2, 3, 7, c if c < 3000 else 5])
            lines.append("ensure %d" % c)
        elif r < pa + pf + 9:
            lines.append("flag %d" % rng.choice([0, 1, 0, 2, 3]))
        elif r < pa + pf + 12:
            lines.append("maxdelta %d" % rng.choice([0, 1, 2, 3, 4, 100]))
        else:
            lines.append("failnext %d" % rng.choice([1, 2, 3]))
            lines.append(rng.choice(["alloc", "ensure %d" % (c + rng.range(1, 4))]))
            live += 1 if lines[-1] == "alloc" else 0
    return _case(name, lines)


def _big_cases(rng, n):
    cases = []
    fixed = [(65536, 65536), (65537, 65536), (65535, 65537), (3, 0x55555556), (2, 1 << 31), (2, (1 << 31) + 1),
             (4, 1 << 30), (5, 1 << 30), (1, U32 - 1), (U32 - 1, 1), (U32 - 1, U32 - 1), (65537, 65535),
             (1024, 1 << 20), (1025, 1 << 20), (1, 1 << 30), (1, (1 << 30) + 1), (0, 1 << 29), (0, 1 << 27),
             ((1 << 27) + 1, 8), ((1 << 27) + 1, 1), (6, 0x2AAAAAAB), (16, 0x10000001), (4097, 1 << 20)]
    for i, (cap, bs) in enumerate(fixed):
        eff = cap or 8
        tail = ["alloc"] * min(eff, 6) + ["free 0", "alloc"]
        cases.append(_case("big-init-%d" % i, ["init %d %d" % (cap, bs)] + tail))
    # growth whose slab size wraps: small pool, ensure_space / alloc with delta * bs around 2^32
    grow = [(1, 1 << 30, 5), (2, 1 << 29, 10), (2, 1 << 28, 18), (1, 1 << 28, 17), (3, 0x10000000, 19),
            (1, 1 << 16, 65537), (2, (1 << 16) + 1, 65537), (1, 1 << 20, 4097), (1, 1 << 20, 1025), (1, 1 << 20, 1026)]
    for i, (cap, bs, n2) in enumerate(grow):
        cases.append(_case("big-grow-%d" % i, ["init %d %d" % (cap, bs), "alloc", "ensure %d" % n2] +
                           ["alloc"] * 5 + ["free 0", "alloc", "alloc"]))
    # capacity + growth step wrapping uint32 in alloc (synthesised full-pool state, see the driver)
    for i, (c, m) in enumerate([(1 << 31, 0), (U32 - 1, 1), (U32 - 1, 0), (U32 - 524288, 524288), (U32 - 524289, 524288),
                                ((1 << 31) - 1, 0), (3 << 30, 1 << 30), (3 << 30, (1 << 30) - 1), (U32 - 7, 8), (U32 - 8, 7)]):
        cases.append(_case("big-capwrap-%d" % i, ["init 2 8", "alloc", "wrapprobe %d %d" % (c, m), "alloc", "alloc", "free 0", "alloc"]))
    # alloc-triggered growth with a wrapping slab size
    cases.append(_case("big-autogrow-0", ["init 1 1073741824", "maxdelta 0", "ensure 4", "alloc", "alloc", "alloc", "alloc",
                                         "alloc", "alloc"]))
    for i in range(n):
        k = rng.range(14, 31)
        bs = (1 << k) + rng.choice([-2, -1, 0, 0, 1, 2, 3])
        q = U32 // bs
        cap = max(1, q + rng.choice([-2, -1, 0, 0, 1, 1, 2, 3]))
        if rng.chance(1, 2):
            eff = cap
            lines = ["init %d %d" % (cap, bs)] + ["alloc"] * min(eff, 4) + ["free 0", "alloc"]
        else:
            c0 = rng.choice([1, 2, 3])
            # initial slab must be allowed: c0 * bs <= 1 GiB, otherwise init fails and the case is about init
            lines = ["init %d %d" % (c0, bs), "alloc", "ensure %d" % (c0 + cap)] + ["alloc"] * 4 + ["free 1", "alloc"]
        cases.append(_case("big-rnd-%d" % i, lines))
    return cases


def corpus_cases(ctx):
    """regression cases kept as files under corpus/C06 (replays of the defects found, failure paths, flags)"""
    import os
    d = os.path.join(V.VERIF, "corpus", "C06")
    return [V.Case.load(os.path.join(d, f)) for f in sorted(os.listdir(d)) if f.endswith(".case")]


def generate(rng, tier):
    cases = []
    cases += _cursor_cases()
    cases += _exhaustive(6 if tier == "quick" else 8)
    nr = 400 if tier == "quick" else 6000
    for i in range(nr):
        cases.append(_random_history(rng, "rnd-%d" % i, rng.range(10, 120 if tier == "quick" else 500), i % 2 == 0))
    cases += _big_cases(rng, 60 if tier == "quick" else 600)
    return cases


def search(rng, diverging, tier):
    out = []
    for i in range(3000):
        out.append(_random_history(rng, "search-%d" % i, rng.range(4, 40), True))
    return out


# --------------------------------------------------------------------------
# independent monitor: ownership map + reference counters

def _kv(tokens):
    d = {}
    for t in tokens:
        if "=" in t:
            k, v = t.split("=", 1)
            try:
                d[k] = int(v)
            except ValueError:
                d[k] = v
    return d


class _Ref:
    def __init__(self):
        self.alive = False
        self.cap = self.bs = self.flag = self.mdc = 0
        self.slabs = []        # byte sizes
        self.live = []         # list of (slab, start byte) in allocation order
        self.pending_fail = 0


def _parse_block(tok, bs):
    """'s:q' | 's:q+r' | 's:q+0!' | 'outside' -> (slab, start byte) or None"""
    if tok == "outside" or ":" not in tok:
        return None
    s, rest = tok.split(":", 1)
    rest = rest.rstrip("!")
    if "+" in rest:
        q, r = rest.split("+", 1)
    else:
        q, r = rest, "0"
    return (int(s), int(q) * bs + int(r))


def monitor(case, lines):
    R = _Ref()
    out = list(lines)
    for ln in out:
        w = ln.split()
        if w and w[0] in ("CORRUPT", "SLABFREED", "SLABMOVED", "SLABGONE"):
            return "driver reported %s (live block contents changed / slab freed or moved while the pool is alive)" % ln
        if w and w[0] == "EXN":
            return "driver exception: " + ln
    pos = [0]

    def nxt():
        if pos[0] >= len(out):
            return None
        pos[0] += 1
        return out[pos[0] - 1]

    def expect_destroy():
        ln = nxt()
        if ln is None or not ln.startswith("destroy "):
            return "expected destroy line, got %r" % ln
        d = _kv(ln.split())
        if d.get("slabs") != len(R.slabs):
            return "destroy saw %s slabs, reference has %d" % (d.get("slabs"), len(R.slabs))
        if d.get("leaked") != 0:
            return "destroy left %s allocations of the pool unreleased" % d.get("leaked")
        R.alive = False
        R.live = []
        R.slabs = []
        return None

    def check_state(d, what, cap, used, nslab):
        if d.get("cap") != cap:
            return "%s: capacity %s, reference counter says %d" % (what, d.get("cap"), cap)
        if d.get("used") != used:
            return "%s: used %s, reference counter says %d" % (what, d.get("used"), used)
        if d.get("nslab") != nslab:
            return "%s: %s slabs, reference says %d" % (what, d.get("nslab"), nslab)
        return None

    def new_slab_ok(d, what, count):
        need = R.bs * count
        if d.get("lastsz", -1) < need:
            return "%s: new slab has %s bytes but %d blocks of %d bytes need %d (size product wrapped)" % (
                what, d.get("lastsz"), count, R.bs, need)
        return None

    for n, op in enumerate(case.lines):
        w = op.split()
        if not w:
            continue
        what = "op %d (%s)" % (n, op)
        if w[0] == "init":
            if R.alive:
                m = expect_destroy()
                if m:
                    return what + ": " + m
            c, b = int(w[1]), int(w[2])
            eff = c if c != 0 else 8
            ln = nxt()
            pf, R.pending_fail = R.pending_fail, 0
            if ln is None:
                return what + ": no output"
            t = ln.split()
            if t[:2] == ["init", "fail"]:
                if _kv(t).get("leaked") != 0:
                    return what + ": failed init left allocations behind"
                reason = b == 0 or pf in (1, 2, 3) or 8 * eff > LIMIT or eff * b > LIMIT
                if not reason:
                    return what + ": init refused although block_size > 0 and every request was within the malloc limit"
                continue
            if t[:2] != ["init", "ok"]:
                return what + ": unexpected output %r" % ln
            if b == 0:
                return what + ": init accepted block_size 0"
            d = _kv(t)
            R.alive, R.cap, R.bs, R.flag, R.live, R.slabs = True, eff, b, 0, [], []
            m = check_state(d, what, eff, 0, 1) or new_slab_ok(d, what, eff)
            if m:
                return m + " -- init must fail or yield %d distinct usable blocks" % eff
            R.slabs = [d["lastsz"]]
            R.mdc = d.get("mdc")
            exp_mdc = eff if b > 8 * 1024 else 512 * 1024
            if R.mdc != exp_mdc:
                return what + ": max_delta_cap %s, expected %d" % (R.mdc, exp_mdc)
            continue
        if w[0] == "failnext":
            ln = nxt()
            R.pending_fail = int(w[1])
            continue
        if not R.alive:
            ln = nxt()
            if ln != "nopool":
                return what + ": expected nopool, got %r" % ln
            continue
        if w[0] == "wrapprobe":
            c, mdc = int(w[1]), int(w[2])
            delta = mdc if 0 < mdc < c else c
            ln = nxt()
            if c == 0 or c >= U32 or c + delta < U32 or len(R.live) >= R.cap:
                if ln != "wrapprobe skip":
                    return what + ": expected 'wrapprobe skip', got %r" % ln
            elif ln != "wrapprobe NULL":
                return what + (": full pool of %d blocks, growth step %d: capacity would exceed uint32, alloc must report "
                               "exhaustion but answered %r (used becomes capacity+1 and a live block is handed out)" % (c, delta, ln))
            continue
        if w[0] == "destroy":
            m = expect_destroy()
            if m:
                return what + ": " + m
            continue
        ln = nxt()
        if ln is None:
            return what + ": no output"
        t = ln.split()
        d = _kv(t)
        if w[0] == "flag":
            R.flag = int(w[1])
            if t != ["flag", w[1]]:
                return what + ": get_flag returned %r" % ln
            continue
        if w[0] == "maxdelta":
            R.mdc = int(w[1])
            if t != ["maxdelta", w[1]]:
                return what + ": %r" % ln
            continue
        used = len(R.live)
        if w[0] == "free":
            k = int(w[1])
            if k >= used:
                if ln != "free none":
                    return what + ": expected 'free none'"
                continue
            R.pending_fail = 0
            R.live.pop(k)
            m = check_state(d, what, R.cap, used - 1, len(R.slabs))
            if m:
                return m
            continue
        if w[0] == "ensure":
            want = int(w[1])
            pf, R.pending_fail = R.pending_fail, 0
            if t[0] != "ensure" or t[1] not in ("0", "1"):
                return what + ": unexpected output %r" % ln
            ok = t[1] == "1"
            if want <= R.cap:
                if not ok:
                    return what + ": ensure_space refused a capacity it already has"
                m = check_state(d, what, R.cap, used, len(R.slabs))
            elif R.flag & 1:
                if ok:
                    return what + ": constant-size pool grew (ensure_space succeeded)"
                m = check_state(d, what, R.cap, used, len(R.slabs))
            elif ok:
                delta = want - R.cap
                m = check_state(d, what, want, used, len(R.slabs) + 1) or new_slab_ok(d, what, delta)
                if not m:
                    R.cap = want
                    R.slabs.append(d["lastsz"])
            else:
                delta = want - R.cap
                reason = pf in (1, 2, 3) or 8 * (len(R.slabs) + 1) > LIMIT or R.bs * delta > LIMIT or 8 * want > LIMIT
                if not reason:
                    return what + ": ensure_space failed although every request was within the malloc limit"
                m = check_state(d, what, R.cap, used, len(R.slabs))
            if m:
                return m
            continue
        if w[0] == "alloc":
            pf, R.pending_fail = R.pending_fail, 0
            if t[0] != "alloc":
                return what + ": unexpected output %r" % ln
            got_null = t[1] == "NULL"
            grew = False
            exp_cap = R.cap
            if used < R.cap:
                if got_null:
                    return what + ": alloc returned NULL with %d of %d blocks in use" % (used, R.cap)
            else:
                if R.flag & 1:
                    if not got_null:
                        return what + ": constant-size pool handed out a block beyond its capacity %d (must report exhaustion)" % R.cap
                else:
                    delta = R.cap
                    if R.mdc > 0 and delta > R.mdc:
                        delta = R.mdc
                    exp_cap = R.cap + delta
                    if got_null:
                        reason = (pf in (1, 2, 3) or 8 * (len(R.slabs) + 1) > LIMIT or R.bs * delta > LIMIT
                                  or 8 * exp_cap > LIMIT or exp_cap >= U32)
                        if not reason:
                            return what + ": alloc reported exhaustion although growth by %d was possible" % delta
                    else:
                        grew = True
            if got_null:
                m = check_state(d, what, R.cap, used, len(R.slabs))
                if m:
                    return m + " (failed alloc must leave the pool unchanged)"
                continue
            if grew:
                if R.mdc > 0 and d.get("cap", 0) - R.cap > R.mdc:
                    return what + ": automatic growth by %d exceeds max_delta_cap %d" % (d.get("cap", 0) - R.cap, R.mdc)
                m = check_state(d, what, exp_cap, used + 1, len(R.slabs) + 1) or new_slab_ok(d, what, exp_cap - R.cap)
                if m:
                    return m
                R.cap = exp_cap
                R.slabs.append(d["lastsz"])
            else:
                m = check_state(d, what, R.cap, used + 1, len(R.slabs))
                if m:
                    return m
            blk = _parse_block(t[1], R.bs)
            if blk is None:
                return what + ": block handed out lies outside every slab of the pool (%s)" % t[1]
            s, start = blk
            if s >= len(R.slabs) or start + R.bs > R.slabs[s]:
                return what + ": block %s [%d,%d) is not wholly inside slab %d" % (t[1], start, start + R.bs, s)
            for (s2, st2) in R.live:
                if s2 == s and st2 < start + R.bs and start < st2 + R.bs:
                    return what + ": block %s handed out while still live / overlapping a live block (slab %d bytes [%d,%d) vs [%d,%d))" % (
                        t[1], s, start, start + R.bs, st2, st2 + R.bs)
            R.live.append(blk)
            continue
        return what + ": unknown op"
    if R.alive:
        m = expect_destroy()
        if m:
            return "end of case: " + m
    return None


def nontrivial_key(case, lines):
    grew = False
    prev = None
    for ln in lines:
        d = _kv(ln.split())
        if "nslab" in d:
            if prev is not None and d["nslab"] > prev and d.get("used", 0) > 0:
                grew = True
            prev = d["nslab"]
    refused = any(l.startswith(("alloc NULL", "ensure 0", "init fail")) for l in lines)
    if grew or refused:
        return "\n".join(case.lines)
    return None


def tally(dist, case, lines):
    def inc(k, n=1):
        dist[k] = dist.get(k, 0) + n
    inc("class=" + case.name.split("-")[0])
    prev = None
    for ln in lines:
        w = ln.split()
        if not w:
            continue
        d = _kv(w)
        if w[0] in ("alloc", "free", "ensure", "init"):
            inc("op=" + w[0] + ("/" + w[1] if w[1] in ("NULL", "0", "1", "ok", "fail", "none") else ""))
        if "nslab" in d:
            if prev is not None and d["nslab"] > prev[0]:
                inc("growths")
                if prev[1] <= 8:
                    inc("growth_at_used=%d/cap=%d" % (d.get("used", 0) - (1 if w[0] == "alloc" else 0), prev[1]))
            prev = (d["nslab"], d.get("cap", 0))
            if w[0] == "init":
                prev = (d["nslab"], d.get("cap", 0))


MANIFEST = {
    "level_text": ("Unbounded Coq theorems over an executable model transcribing memory_pool.c (pointer ring as a list of "
                   "block ids, three-case re-linearisation verbatim, uint32/size_t products with explicit wrap, malloc as "
                   "an oracle): ring invariant A.2 for every reachable state of every history, capacity, block size and "
                   "oracle; fresh, disjoint, in-slab live blocks; growth keeps slabs, live set and free part; counters "
                   "refine a reference model; constant-size never grows; growth step bounded; init total; failed "
                   "alloc/ensure_space change nothing.  Tied to the C code by a differential run of the extracted model "
                   "against memory_pool.c compiled from the working tree under ASan/UBSan with wrapped malloc/free, plus "
                   "an independent ownership/counter monitor and per-block content patterns."),
    "design_ref": "DESIGN.md section 6 / C06, Appendix A.2, section 5 rows C06",
    "level_note": ("Trusted: Coq kernel, extraction (ExtrOcamlBasic), the differential harness and wrapped malloc; block "
                   "contents are checked only by the driver; LP64 sizes; free is given a live block."),
    "technique": ("Coq proof of an inductive ring invariant with ghost live set + extracted-model differential run + ownership "
                  "monitor + translator tie (C text sliced into Gallina, proved equal to the model on every invariant state)"),
}
