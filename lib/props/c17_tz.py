"""C17 — POSIX TZ rule strings (the form tzset() understands without tzdata):
       std offset [dst [offset] [,start[/time],end[/time]]]
   e.g. EST5EDT,M3.2.0,M11.1.0   CET-1CEST,M3.5.0,M10.5.0/3   <+1030>-10:30<+11>-11,M10.1.0,M4.1.0
Offsets in the string are what is ADDED to local time to get UTC (positive = west); everything
returned here is seconds EAST of UTC.  Used by the generator (expands the rule into the transition
list the model takes) and, independently of that list, by the monitor (offset_at)."""
import calendar
import datetime
import re


class TzError(Exception):
    pass


def _name(s, i):
    if i < len(s) and s[i] == "<":
        j = s.find(">", i)
        if j < 0:
            raise TzError("unterminated <name>")
        return j + 1
    j = i
    while j < len(s) and s[j].isalpha():
        j += 1
    if j - i < 3:
        raise TzError("zone name too short at %d in %r" % (i, s))
    return j


def _hms(s, i):
    """[+|-]hh[:mm[:ss]] -> (seconds, next index) or (None, i)"""
    m = re.match(r"([+-]?)(\d{1,3})(?::(\d{1,2}))?(?::(\d{1,2}))?", s[i:])
    if not m:
        return None, i
    v = int(m.group(2)) * 3600 + int(m.group(3) or 0) * 60 + int(m.group(4) or 0)
    return (-v if m.group(1) == "-" else v), i + m.end()


def _rule(s):
    d, _, t = s.partition("/")
    tm = 7200
    if t:
        tm, j = _hms(t, 0)
        if tm is None or j != len(t):
            raise TzError("bad rule time %r" % t)
    m = re.match(r"M(\d+)\.(\d+)\.(\d+)$", d)
    if m:
        return ("M", int(m.group(1)), int(m.group(2)), int(m.group(3)), tm)
    m = re.match(r"J(\d+)$", d)
    if m:
        return ("J", int(m.group(1)), tm)
    m = re.match(r"(\d+)$", d)
    if m:
        return ("N", int(m.group(1)), tm)
    raise TzError("bad rule date %r" % d)


def parse(s):
    """-> {'std': east, 'dst': east | None, 'start': rule, 'end': rule}"""
    i = _name(s, 0)
    off, i = _hms(s, i)
    if off is None:
        raise TzError("no standard offset in %r" % s)
    z = {"std": -off, "dst": None, "start": None, "end": None, "text": s}
    if i >= len(s):
        return z
    i = _name(s, i)
    doff, j = _hms(s, i)
    z["dst"] = z["std"] + 3600 if doff is None else -doff
    i = j
    if i >= len(s):
        raise TzError("daylight saving zone without a rule (defaults differ between C libraries): %r" % s)
    if s[i] != ",":
        raise TzError("junk after the dst name in %r" % s)
    parts = s[i + 1:].split(",")
    if len(parts) != 2:
        raise TzError("need start and end rule in %r" % s)
    z["start"], z["end"] = _rule(parts[0]), _rule(parts[1])
    return z


def _rule_day(rule, year):
    """day number (days since the epoch) of the rule's date in `year`"""
    if rule[0] == "M":
        _, mth, wk, wd, _ = rule
        first = datetime.date(year, mth, 1)
        fw = (first.weekday() + 1) % 7            # 0 = Sunday
        day = 1 + (wd - fw) % 7 + 7 * (wk - 1)
        dim = calendar.monthrange(year, mth)[1]
        while day > dim:
            day -= 7
        d = datetime.date(year, mth, day)
    elif rule[0] == "J":                          # 1..365, February 29 never counted
        n = rule[1]
        d = datetime.date(year, 1, 1) + datetime.timedelta(days=n - 1 + (1 if calendar.isleap(year) and n >= 60 else 0))
    else:                                          # 0..365, leap days counted
        d = datetime.date(year, 1, 1) + datetime.timedelta(days=rule[1])
    return (d - datetime.date(1970, 1, 1)).days


def year_transitions(z, year):
    """[(utc instant, offset east in force from then on)] of one year, in order of time"""
    if z["dst"] is None:
        return []
    s = _rule_day(z["start"], year) * 86400 + z["start"][-1] - z["std"]      # start time is on the standard clock
    e = _rule_day(z["end"], year) * 86400 + z["end"][-1] - z["dst"]          # end time is on the daylight clock
    return sorted([(s, z["dst"]), (e, z["std"])])


def _year_of(t):
    return 1970 + t // 31556952


def offset_at(z, t):
    if z["dst"] is None:
        return z["std"]
    y = _year_of(t)
    trs = []
    for yy in (y - 2, y - 1, y, y + 1):
        trs += year_transitions(z, yy)
    trs.sort()
    off = None
    for (ti, o) in trs:
        if ti <= t:
            off = o
    if off is None:
        raise TzError("no transition before %d" % t)
    return off


def expand(z, tmin, tmax):
    """-> (base offset, [(instant, offset)]) valid for every instant in [tmin, tmax]"""
    if z["dst"] is None:
        return z["std"], []
    trs = []
    for yy in range(_year_of(tmin) - 1, _year_of(tmax) + 2):
        trs += year_transitions(z, yy)
    trs.sort()
    base = offset_at(z, trs[0][0] - 1)
    return base, trs


def header_field(text, tmin, tmax):
    z = parse(text)
    base, trs = expand(z, tmin, tmax)
    return "zone;%s;%d;%s" % (text, base, ",".join("%d=%d" % tr for tr in trs))


def parse_field(w):
    """header word -> (zone dict | None for a fixed offset, fixed offset, base, transitions)"""
    if w.startswith("zone;"):
        p = w.split(";")
        trs = [tuple(int(x) for x in it.split("=")) for it in p[3].split(",") if it] if len(p) > 3 else []
        return parse(p[1]), None, int(p[2]), trs
    return None, int(w), int(w), []
