#!/usr/bin/env python3
"""mutation runs for C20: worktree of /repo HEAD + all fixes/C20-*.patch + one edit."""
import glob
import os
import re
import subprocess
import sys
import time

MUTS = {
    # DESIGN.md section 10
    "M1-drop-smear-4": ("muggle/c/base/utils.c", [("\tx |= x >> 4;\n", "")]),
    "M2-toi-gt-to-ge": ("muggle/c/base/str.c", [("else if (ret > INT_MAX || ret < INT_MIN)", "else if (ret >= INT_MAX || ret < INT_MIN)")]),
    # own
    "M3-normpath-size-off-by-one": ("muggle/c/os/path.c", [("\tif ((unsigned int)len >= size)\n\t{\n\t\treturn MUGGLE_ERR_INVALID_PARAM;\n\t}\n\n\tif (!muggle_path_isabs(path))",
                                                            "\tif ((unsigned int)len > size)\n\t{\n\t\treturn MUGGLE_ERR_INVALID_PARAM;\n\t}\n\n\tif (!muggle_path_isabs(path))")]),
    "M4-join-exact-fit-rejected": ("muggle/c/os/path.c", [("if ((unsigned int)(len_path1 + len_path2) > max_len)", "if ((unsigned int)(len_path1 + len_path2) >= max_len)")]),
    "M5-hex-accepts-g": ("muggle/c/encoding/hex.c", [("if ('a' <= c && c <= 'f')", "if ('a' <= c && c <= 'g')")]),
    "M6-tou-rejects-uint-max": ("muggle/c/base/str.c", [("if (errno == ERANGE || ret > UINT_MAX)", "if (errno == ERANGE || ret >= UINT_MAX)")]),
    "M7-swap32-wrong-shift": ("muggle/c/os/endian.h", [("((((uint32_t)(value)) & 0x00FF0000) >>  8)", "((((uint32_t)(value)) & 0x00FF0000) >> 16)")]),
    "M8-find-boundary": ("muggle/c/base/str.c", [("if (pos == NULL || pos + sub_len > str + end)", "if (pos == NULL || pos + sub_len >= str + end)")]),
    "M9-dirname-size-off-by-one": ("muggle/c/os/path.c", [("\tif (pos >= (int)size)", "\tif (pos > (int)size)")]),
    "M10-unsigned-minus-zero": ("muggle/c/base/str.c", [("\tif (ret != 0 && str[muggle_str_lstrip_idx(str)] == '-')", "\tif (str[muggle_str_lstrip_idx(str)] == '-')")]),
    "M11-npo2-smear-wrong-width": ("muggle/c/base/utils.c", [("\tx |= x >> 32;\n", "\tx |= x >> 31;\n")]),
    "M12-rstrip-off-by-one": ("muggle/c/base/str.c", [("\t\tif (--idx < 0)\n", "\t\tif (--idx <= 0)\n")]),
    "M13-isabs-root-alone": ("muggle/c/os/path.c", [("\tif (len > 1 && path[0] == '/')", "\tif (len > 0 && path[0] == '/')")]),
    "M14-normpath-pop-boundary": ("muggle/c/os/path.c", [("\t\t\t\t\tpos -= 2;\n\t\t\t\t\tif (pos < 0)", "\t\t\t\t\tpos -= 2;\n\t\t\t\t\tif (pos <= 0)")]),
    # follow-up of the independent review (edits bin/check did not report before; fixes/C20-15..17 applied)
    "M15-abspath-full-path-512": ("muggle/c/os/path.c", [("char full_path[MUGGLE_MAX_PATH];", "char full_path[512];")]),
    "M16-swap32-last-term-unmasked": ("muggle/c/os/endian.h", [("((((uint32_t)(value)) & 0xFF000000) >> 24))", "((value) >> 24))")]),
    "M17-tod-underflow-accepted": ("muggle/c/base/str.c", [("    *pval = strtod(str, &endptr);", "    *pval = strtod(str, &endptr);\n\tif (errno == ERANGE && !isinf(*pval)) errno = 0;")]),
    "M18-toi-range-chain-else-if": ("muggle/c/base/str.c", [("\t}\n\n\tif ((ret == LONG_MAX || ret == LONG_MIN) && errno == ERANGE)\n\t{\n\t\t// out of range\n\t\treturn 0;\n\t}\n\telse if (ret > INT_MAX",
                                                            "\t}\n\telse if ((ret == LONG_MAX || ret == LONG_MIN) && errno == ERANGE)\n\t{\n\t\t// out of range\n\t\treturn 0;\n\t}\n\telse if (ret > INT_MAX")]),
    "M19-lstrip-bound": ("muggle/c/base/str.c", [("\t\tif (++idx >= str_len)\n", "\t\tif (++idx > str_len)\n")]),
    "M20-startswith-loop-bound": ("muggle/c/base/str.c", [("for (size_t i = 0; i < prefix_len; ++i)", "for (size_t i = 0; i + 1 < prefix_len; ++i)")]),
    "M21-endswith-index": ("muggle/c/base/str.c", [("str[str_len - 1 - i]", "str[str_len - i]")]),
    # behaviour preserving rewrites: must stay quiet
    "P1-rewrites": None,
}

P1 = [
    ("muggle/c/base/utils.c", [("uint64_t muggle_next_pow_of_2(uint64_t x)\n{\n\tif (MUGGLE_IS_POW_OF_2(x))\n\t\treturn x;",
                                "uint64_t muggle_next_pow_of_2(uint64_t x)\n{\n\tif ((x & (x - 1)) == 0)\n\t{\n\t\treturn x;\n\t}")]),
    # (a rewrite of basename's backwards separator scan is no longer in this list: the scan is tied to the
    #  source by the leaf translator, so any other loop shape is reported as a broken obligation)
    ("muggle/c/base/str.c", [("\tint str_len = (int)strlen(str);\n\tint idx = 0;\n\twhile (isspace(str[idx]))\n\t{\n\t\tif (++idx >= str_len)\n\t\t{\n\t\t\treturn -1;\n\t\t}\n\t}\n\n\treturn idx;",
                             "\tint n = (int)strlen(str);\n\tint i = 0;\n\tfor (;;)\n\t{\n\t\tif (!isspace(str[i]))\n\t\t{\n\t\t\tbreak;\n\t\t}\n\t\ti = i + 1;\n\t\tif (i >= n)\n\t\t{\n\t\t\treturn -1;\n\t\t}\n\t}\n\n\treturn i;")]),
    ("muggle/c/encoding/hex.c", [("\t\tbytes[i] = h << 4 | l;", "\t\tbytes[i] = (uint8_t)(h * 16 + l);")]),
]


def sh(cmd, **kw):
    return subprocess.run(cmd, stdout=subprocess.PIPE, stderr=subprocess.STDOUT, text=True, **kw)


def edit(wt, rel, edits):
    p = os.path.join(wt, rel)
    s = open(p).read()
    for a, b in edits:
        assert s.count(a) == 1, (rel, a, s.count(a))
        s = s.replace(a, b)
    open(p, "w").write(s)


def run(name):
    wt = "/tmp/wt-c20-%s" % name.split("-")[0]
    sh(["git", "-C", "/repo", "worktree", "remove", "--force", wt])
    r = sh(["git", "-C", "/repo", "worktree", "add", "-f", wt, "HEAD"])
    assert r.returncode == 0, r.stdout
    try:
        for p in sorted(glob.glob("/verif/fixes/C20-*.patch")):
            # the patches are committed to /repo by now; apply only those that still apply
            if sh(["git", "-C", wt, "apply", "--check", p]).returncode == 0:
                sh(["git", "-C", wt, "apply", p])
        if name == "P1-rewrites":
            for rel, edits in P1:
                edit(wt, rel, edits)
        elif name != "BASE":
            rel, edits = MUTS[name]
            edit(wt, rel, edits)
        env = dict(os.environ, VERIF_REPO=wt)
        t0 = time.time()
        r = sh(["timeout", "900", "/verif/bin/check", "C20"], env=env, cwd="/verif")
        dt = time.time() - t0
        viol = [l for l in r.stdout.split("\n") if l.startswith("VIOLATION") or l.startswith("check C20") or l.startswith("violation detail")]
        print("=== %s: exit %d (%.0fs)" % (name, r.returncode, dt))
        for l in viol:
            print("    " + l[:260])
        m = re.search(r"VIOLATION property=C20 replay=(\S+\.case)", r.stdout)
        if m:
            keep = "/verif/build/C20/mut-%s.case" % name
            subprocess.run(["cp", m.group(1), keep])
            r2 = sh(["timeout", "600", "/verif/bin/check", "C20", "--replay", keep], env=env, cwd="/verif")
            last = [l for l in r2.stdout.split("\n") if l.startswith("--- monitor") or l.startswith("VIOLATION")]
            print("    replay exit %d: %s" % (r2.returncode, " | ".join(last)[:300]))
        sys.stdout.flush()
    finally:
        sh(["git", "-C", "/repo", "worktree", "remove", "--force", wt])


if __name__ == "__main__":
    names = sys.argv[1:] or list(MUTS)
    for n in names:
        run(n)
