"""C05 -- slicer for the index arithmetic of the three concurrent pools (second tie of the translator
kind, DESIGN.md 4.4), in the manner of lib/props/c08_slice.py.

A NAMED function of the current C text (clang JSON AST, loaded with lib/leaftrans.load_function) is
executed symbolically, path by path, into one Gallina term over Z / list Z; integer expressions are
translated by the shared translator lib/leaftrans.py (class Tr, used as a library: explicit unsigned
wrap, casts, all operators), so the widths are those of the C text.  Nothing depends on the shape of
the text:

  * the pool's scalar fields are the arguments f_<name> (all of them, in a fixed order, whether used
    or not); members are found through the anonymous unions / structs of the pool types;
  * atomics become field reads / writes with the values OTHER threads may supply made explicit:
      __atomic_load_n(&cell, mo)                 ->  a fresh input  ld<k>
      __atomic_store_n(&cell, v, mo)             ->  cell := v
      __atomic_compare_exchange_n(&f, &e, d, ..) ->  with fresh inputs cur<k> (value of the cell at that
          moment) and spur<k> (spurious failure of the weak form):
          if (cur<k> =? e) && (spur<k> =? 0) then f := d, true  else  e := cur<k>, false
  * block pointers become indices: a pointer into the data area is (block index, width of the
    product that computed the byte offset, constant byte offset inside the block).
      (char *)pool->data + block_size * i   ->  block (blkidx <bits of the product> block_size i)
      (head *)p +/- n                        ->  constant offset +/- n * sizeof(head)
      p->block_idx / p->in_use               ->  lget h_block_idx <block> / lget h_in_use <block>
      p->pool                                ->  the pool
      pool->ptrs[i].ptr                      ->  cell i of the list ptrs, holding a block index
    blkidx w bs i (coq/C05/GenLib.v) is i when the product bs * i is exact in w bits and -1
    otherwise, so a narrowed product type shows in the generated term.  A pointer result is
    projected to an integer: NULL -> 0, the payload of block b (head + sizeof head) -> b + 1;
    a `void *data` parameter is the payload pointer of the block index given as argument b;
  * helpers defined in the same file are inlined (single-return helpers inside expressions, any
    other helper in continuation-passing style at statement level); muggle_spinlock_* and free are
    no-ops, muggle_next_pow_of_2(e) is the uninterpreted function npo2 (first argument of the init
    definitions), malloc / aligned_alloc return the k-th fresh object (argument m<k> = 0 means
    failure) and record the requested size as output msz<k>; memset(pool, 0, ..) clears every field,
    memset(block, 0, ..) clears the header words of that block;
  * `&&`, `||`, `!` and conditions are lowered to nested branches;
  * a counting loop (i from 0, `i < N` / `i != N`, one ++i; body = stores into header words / ring
    cells of block i) is summarised as  lfill <list> N (fun i => index) (fun i => value);
  * any other loop (the CAS retry loop, the in_use scan) is unrolled; inputs consumed in iteration j are
    ld<j> / cur<j> / spur<j>; the path ends, with the result -1 ("still looping") and the pool state
    reached, at the first atomic operation for which no input is left (the third load / compare-exchange
    of the loop), wherever the text places that operation inside the iteration;
  * a helper with several statements may be called in a condition (`if (is_exhausted(pool, pos))`);
    an integer local keeps the expression that defined it, so that a byte count computed earlier
    (`total = block_size * capacity`) is recognised where it is used; memset(area, 0, block_size *
    capacity) over the whole data area is the per-block fill
    lfill <list> capacity (fun i => blkidx <bits> block_size i) (fun _ => 0) of every header word;
  * every path ends in the same tuple: (result, fields..., lists..., [msz.., pointer fields]).

Anything else raises LeafError: the caller writes it as a comment into coq/gen/Params_C05.v, which
breaks the gen_*_matches_model obligation (never a silent skip)."""
import re
import leaftrans as L

LeafError = L.LeafError
UNROLL = 2
BYTE_T = ("char", "unsigned char", "signed char", "uint8_t", "int8_t", "void")
NOOP_CALLS = ("muggle_spinlock_lock", "muggle_spinlock_unlock", "muggle_spinlock_init", "muggle_spinlock_destroy", "free")
ALLOC_CALLS = {"malloc": 0, "aligned_alloc": 1}      # index of the size argument
NPO2 = "muggle_next_pow_of_2"

POOLS = {
    "ts": dict(src="muggle/c/memory/threadsafe_memory_pool.c", poolt="muggle_ts_memory_pool_t",
               headt="muggle_ts_memory_pool_head_t", cellt="muggle_ts_memory_pool_head_ptr_t",
               fields=["alloc_idx", "block_size", "cached_free_pos", "capacity", "free_idx"],
               data=["data"], ring={"ptrs": "ptrs"}, hdr={}, arrays=["ptrs"], locks=["free_spinlock"]),
    "sowr": dict(src="muggle/c/memory/sowr_memory_pool.c", poolt="muggle_sowr_memory_pool_t",
                 headt="muggle_sowr_block_head_t", cellt=None,
                 fields=["alloc_idx", "block_size", "cached_free_pos", "capacity", "free_idx"],
                 data=["blocks"], ring={}, hdr={"block_idx": "h_block_idx"}, arrays=["h_block_idx"], locks=[]),
    "ring": dict(src="muggle/c/memory/ring_memory_pool.c", poolt="muggle_ring_memory_pool_t",
                 headt="muggle_ring_mpool_block_head_t", cellt=None,
                 fields=["alloc_idx", "block_size", "capacity"],
                 data=["blocks"], ring={}, hdr={"block_idx": "h_block_idx", "in_use": "h_in_use"},
                 arrays=["h_block_idx", "h_in_use"], locks=["write_spinlock"]),
}

# (generated name, pool, C function, kind, number of loads, number of CAS, number of allocations)
FUNCS = [
    ("gen_ts_alloc", "ts", "muggle_ts_memory_pool_alloc", "alloc", 2, 2, 0),
    ("gen_ts_free", "ts", "muggle_ts_memory_pool_free", "free", 0, 0, 0),
    ("gen_ts_init", "ts", "muggle_ts_memory_pool_init", "init", 0, 0, 2),
    ("gen_sowr_alloc", "sowr", "muggle_sowr_memory_pool_alloc", "alloc", 1, 0, 0),
    ("gen_sowr_free", "sowr", "muggle_sowr_memory_pool_free", "free", 0, 0, 0),
    ("gen_sowr_init", "sowr", "muggle_sowr_memory_pool_init", "init", 0, 0, 1),
    ("gen_ring_alloc", "ring", "muggle_ring_memory_pool_alloc", "alloc", 2, 0, 0),
    ("gen_ring_ts_alloc", "ring", "muggle_ring_memory_pool_threadsafe_alloc", "alloc", 2, 0, 0),
    ("gen_ring_free", "ring", "muggle_ring_memory_pool_free", "free", 0, 0, 0),
    ("gen_ring_init", "ring", "muggle_ring_memory_pool_init", "init", 0, 0, 1),
]


def qt(n):
    return n.get("type", {}).get("qualType", "")


def simp(t):
    """fold the wrap of a literal: (wrapu 32 (0)) -> (0)"""
    prev = None
    while prev != t:
        prev = t
        t = re.sub(r"\(wrapu (\d+) \((-?\d+)\)\)",
                   lambda m: "(%d)" % (int(m.group(2)) % (1 << int(m.group(1)))), t)
    return t


def simp_bool(t):
    """fold truth values of literals: (z2b (1)) -> true, ((1) =? (0)) -> false, (negb true) -> false"""
    prev = None
    while prev != t:
        prev = t
        t = re.sub(r"\(z2b \((-?\d+)\)\)", lambda m: "true" if int(m.group(1)) != 0 else "false", t)
        t = re.sub(r"\(\((-?\d+)\) =\? \((-?\d+)\)\)", lambda m: "true" if int(m.group(1)) == int(m.group(2)) else "false", t)
        t = t.replace("(negb true)", "false").replace("(negb false)", "true")
        t = t.replace("(b2z true)", "(1)").replace("(b2z false)", "(0)")
    return t


def negb(t):
    return {"true": "false", "false": "true"}.get(t, "(negb %s)" % t)


def _raise(msg):
    raise LeafError(msg)


class Pending(Exception):
    """no atomic input is left on this path: the path ends here with the text carried (result -1 and the state
    reached); every enclosing `let` puts its binding in front while the exception travels up to the branch point"""

    def __init__(self, text):
        Exception.__init__(self, text)
        self.text = text


def is_ptr_t(n):
    return qt(n).replace("const", "").strip().endswith("*")


def strip_paren(n):
    while n.get("kind") in ("ParenExpr", "ConstantExpr"):
        n = n["inner"][0]
    return n


def strip_casts(n):
    while True:
        k = n.get("kind")
        if k in ("ParenExpr", "ConstantExpr"):
            n = n["inner"][0]
        elif k in ("ImplicitCastExpr", "CStyleCastExpr") and n.get("castKind") in (
                "NoOp", "LValueToRValue", "BitCast", "FunctionToPointerDecay", "ArrayToPointerDecay"):
            n = n["inner"][-1]
        else:
            return n


def pointee(n):
    q = qt(n).replace("const ", "").replace("volatile ", "").strip()
    if not q.endswith("*"):
        raise LeafError("pointer arithmetic on a non-pointer (%s)" % q)
    return q[:-1].strip().replace("struct ", "")


class St:
    """state of one path"""

    def __init__(self):
        self.frames = [{}]      # locals: name -> ("int", text) | ("ptr", value)
        self.fields = {}        # scalar pool fields: name -> text
        self.pf = {}            # pointer fields: name -> ("init",) | ("null",) | ("heap", k)
        self.arrs = {}          # lists: name -> text
        self.outs = {}          # msz<k> -> text
        self.nload = 0
        self.ncas = 0
        self.nmalloc = 0
        self.iter = 0           # unroll iteration (0 = not in an unrolled loop)
        self.iter_loads = 0
        self.iter_cas = 0
        self.loop = None        # summarised counting loop: dict(var, stores, frozen)
        self.facts = {}         # condition text -> truth value already decided on this path

    def copy(self):
        s = St()
        s.frames = [dict(f) for f in self.frames]
        s.fields, s.pf, s.arrs, s.outs = dict(self.fields), dict(self.pf), dict(self.arrs), dict(self.outs)
        s.nload, s.ncas, s.nmalloc = self.nload, self.ncas, self.nmalloc
        s.iter, s.iter_loads, s.iter_cas = self.iter, self.iter_loads, self.iter_cas
        s.loop = self.loop
        s.facts = dict(self.facts)
        return s

    def get(self, name):
        return self.frames[-1].get(name)

    def set(self, name, v):
        self.frames[-1][name] = v


class X(L.Tr):
    """lib/leaftrans.Tr with the leaves of an integer expression resolved by the slicer"""

    def __init__(self, sl):
        self.sl = sl
        self.depth = 0
        self.fields, self.written, self.params, self.ptrs = [], [], [], set()
        self.cnt = 0
        self.src, self.cflags = None, ()

    def ex(self, n, st):
        sl = self.sl
        k = n.get("kind")
        if k == "AtomicExpr":
            return (sl.atomic_load(n, st), "Z")
        if k in ("MemberExpr", "ArraySubscriptExpr") or (k == "UnaryOperator" and n.get("opcode") == "*"):
            return (sl.load_int(sl.lval(n, st), st), "Z")
        if k == "DeclRefExpr":
            rd = n["referencedDecl"]
            if rd.get("kind") == "EnumConstantDecl":
                if rd["name"] not in sl.consts:
                    raise LeafError("enum constant without a value: " + rd["name"])
                return ("(%d)" % sl.consts[rd["name"]], "Z")
            v = st.get(rd["name"])
            if v is None:
                raise LeafError("unknown variable " + rd["name"])
            if v[0] != "int":
                raise LeafError("pointer variable used as an integer: " + rd["name"])
            return (v[1], "Z")
        if k == "UnaryExprOrTypeTraitExpr":
            return ("(%d)" % sl.sizeof_node(n), "Z")
        if k == "CallExpr":
            return (sl.call_int(n, st), "Z")
        if k in ("ImplicitCastExpr", "CStyleCastExpr") and n.get("castKind") == "PointerToBoolean":
            return (negb(sl.is_null(sl.pval(n["inner"][-1], st))), "B")
        if k == "UnaryOperator" and n.get("opcode") == "!" and is_ptr_t(strip_paren(n["inner"][0])):
            return (sl.is_null(sl.pval(n["inner"][0], st)), "B")
        if k == "BinaryOperator" and n.get("opcode") in ("==", "!=") and \
                (is_ptr_t(n["inner"][0]) or is_ptr_t(n["inner"][1])):
            t = sl.ptr_eq(sl.pval(n["inner"][0], st), sl.pval(n["inner"][1], st))
            return (t if n["opcode"] == "==" else negb(t), "B")
        if is_ptr_t(n) and k not in ("AtomicExpr",):
            return (negb(sl.is_null(sl.pval(n, st))), "B")        # a pointer used as a truth value
        return L.Tr.ex(self, n, st)


class Slicer:
    def __init__(self, repo, pool, cflags, sizeofs, consts):
        self.P = POOLS[pool]
        self.pool = pool
        self.src = repo.rstrip("/") + "/" + self.P["src"]
        self.cflags = cflags
        self.sizeofs = sizeofs
        self.consts = consts
        self.cache = {}
        self.uid = 0
        self.depth = 0
        self.tr = X(self)
        self.spec = None

    # ---- small helpers ---------------------------------------------------
    def fn(self, name):
        if name not in self.cache:
            try:
                self.cache[name] = L.load_function(self.src, name, self.cflags)
            except LeafError:
                self.cache[name] = None
        return self.cache[name]

    def fresh(self, base):
        self.uid += 1
        return "%s_%d" % (re.sub(r"\W", "_", base), self.uid)

    def size_of(self, ty):
        ty = ty.replace("struct ", "").replace("const ", "").strip()
        if ty in self.sizeofs:
            return self.sizeofs[ty]
        it = L.INT_TYPES.get(ty)
        if it:
            return max(1, it[1] // 8)
        raise LeafError("size of %s is not known" % ty)

    def sizeof_node(self, n):
        if n.get("name") != "sizeof":
            raise LeafError("unsupported " + str(n.get("name")))
        if "argType" in n:
            return self.size_of(n["argType"]["qualType"])
        return self.size_of(qt(strip_paren(n["inner"][0])))

    def head_size(self):
        return self.size_of(self.P["headt"])

    @staticmethod
    def body_of(f):
        return [c for c in f["inner"] if c.get("kind") == "CompoundStmt"][0]

    def callee(self, call):
        c = call["inner"][0]
        while c.get("kind") in ("ImplicitCastExpr", "ParenExpr"):
            c = c["inner"][0]
        if c.get("kind") != "DeclRefExpr":
            raise LeafError("indirect call")
        return c["referencedDecl"]["name"]

    def single_return(self, f):
        ss = [x for x in self.body_of(f).get("inner", []) if x.get("kind") != "NullStmt"]
        if len(ss) == 1 and ss[0].get("kind") == "ReturnStmt" and ss[0].get("inner"):
            return ss[0]["inner"][0]
        return None

    def static_int(self, n):
        n = strip_paren(n)
        k = n.get("kind")
        if k in ("ImplicitCastExpr", "CStyleCastExpr") and n.get("castKind") in ("IntegralCast", "NoOp", "LValueToRValue"):
            return self.static_int(n["inner"][-1])
        if k == "IntegerLiteral":
            return int(n["value"])
        if k == "UnaryOperator" and n.get("opcode") == "-":
            v = self.static_int(n["inner"][0])
            return None if v is None else -v
        if k == "UnaryExprOrTypeTraitExpr":
            return self.sizeof_node(n)
        return None

    def z(self, n, st):
        return simp(self.tr.z(n, st))

    def b(self, n, st):
        return simp_bool(simp(self.tr.b(n, st)))

    def let(self, base, text, k):
        """bind text to a fresh name, continue with k(name)"""
        if re.match(r"^\(?-?\w+\)?$", text):
            return k(text)
        nm = self.fresh(base)
        try:
            return "let %s := %s in\n  %s" % (nm, text, k(nm))
        except Pending as pe:
            raise Pending("let %s := %s in\n  %s" % (nm, text, pe.text))

    @staticmethod
    def arm(thunk):
        """text of one arm of a conditional: a path that runs out of atomic inputs ends inside the arm"""
        try:
            return thunk()
        except Pending as pe:
            return pe.text

    def out_of_inputs(self, what, st):
        if self.spec["kind"] == "alloc" and st.iter:
            raise Pending(self.result("(-1)", st))
        raise LeafError(what)

    # ---- symbolic pointers -------------------------------------------------
    # ("null",) ("pool",) ("ring", list) ("cell", list, idx) ("heap", k) ("undef",)
    # ("blk", idx text | None, bits of the offset product | None, constant byte offset)
    # ("addr", lvalue)
    def blk_index(self, p, st):
        _, idx, w, _off = p
        if idx is None:
            return "0"
        if w is None:
            return idx
        return "(blkidx %d %s %s)" % (w, st.fields["block_size"], idx)

    def is_null(self, p):
        if p[0] == "null":
            return "true"
        if p[0] == "heap":
            return "(m%d =? 0)" % p[1]
        if p[0] in ("pool", "ring", "cell", "blk", "addr"):
            return "false"
        raise LeafError("NULL test of an undefined pointer")

    def ptr_eq(self, a, b):
        if b[0] == "null":
            return self.is_null(a)
        if a[0] == "null":
            return self.is_null(b)
        raise LeafError("comparison of two pointers")

    def field_ptr(self, name, st):
        v = st.pf.get(name, ("undef",))
        if v[0] in ("null", "undef"):
            return v
        if name in self.P["data"]:
            return ("blk", None, None, 0) if v[0] == "init" else v
        return ("ring", self.P["ring"][name]) if v[0] == "init" else v

    def as_object(self, p, role):
        """a pointer freshly returned by the allocator is used as the data area / the ring of cells"""
        if p[0] == "heap":
            if role == "blk":
                return ("blk", None, None, 0)
            for nm, lst in self.P["ring"].items():
                return ("ring", lst)
        return p

    def pure(self, n):
        """no atomic operation, no call, no side effect: the expression may be evaluated again"""
        k = n.get("kind")
        if k in ("AtomicExpr", "CallExpr", "CompoundAssignOperator"):
            return False
        if k == "UnaryOperator" and n.get("opcode") in ("++", "--"):
            return False
        if k == "BinaryOperator" and n.get("opcode") == "=":
            return False
        return all(self.pure(c) for c in n.get("inner", []) if c)

    def remember(self, name, node, text, st):
        """integer local `name` was just given the value of the expression node (text = its translation)"""
        if node is not None and self.pure(node):
            st.frames[-1][("@def", name)] = (node, text)
        else:
            st.frames[-1].pop(("@def", name), None)

    def as_bytes(self, n, st):
        """integer expression added to a byte pointer -> (index text | None, bits | None, constant)"""
        n = strip_paren(n)
        k = n.get("kind")
        if k in ("ImplicitCastExpr", "CStyleCastExpr") and n.get("castKind") in ("LValueToRValue", "NoOp", "IntegralCast"):
            inner = n["inner"][-1]
            if n.get("castKind") == "IntegralCast":
                ty, src = L.ctype(n), L.ctype(inner)
                if ty is None or src is None or ty[1] < src[1]:
                    raise LeafError("narrowing cast inside a byte offset")
            if self.static_int(n) is None:
                return self.as_bytes(inner, st)
        c = self.static_int(n)
        if c is not None:
            return (None, None, c)
        if k == "DeclRefExpr":
            d = st.frames[-1].get(("@def", n["referencedDecl"]["name"]))
            if d is not None and simp(self.tr.z(d[0], st)) == d[1]:      # still the same value in this state
                return self.as_bytes(d[0], st)
        if k == "BinaryOperator" and n.get("opcode") == "+":
            (i1, w1, c1), (i2, w2, c2) = self.as_bytes(n["inner"][0], st), self.as_bytes(n["inner"][1], st)
            if i1 is not None and i2 is not None:
                raise LeafError("two block offsets in one byte offset")
            return (i1 if i1 is not None else i2, w1 if i1 is not None else w2, c1 + c2)
        if k == "BinaryOperator" and n.get("opcode") == "*":
            ty = L.ctype(n)
            if ty is None:
                raise LeafError("non-integer byte offset")
            a, b2 = n["inner"]
            ta, tb = self.z(a, st), self.z(b2, st)
            bs = st.fields.get("block_size")
            if ta == bs:
                return (tb, ty[1], 0)
            if tb == bs:
                return (ta, ty[1], 0)
            raise LeafError("byte offset is a product that does not involve the pool's block size")
        raise LeafError("byte offset is not of the form block_size * index + constant")

    def padd(self, base, pn, e, st, neg=False):
        """pointer expression pn (value base) plus / minus integer expression e"""
        pt = pointee(pn)
        if base[0] == "heap":
            base = self.as_object(base, "blk" if pt in BYTE_T or pt == self.P["headt"] else "ring")
        if base[0] == "blk":
            _, idx, w, off = base
            if pt in BYTE_T:
                if neg:
                    c = self.static_int(e)
                    if c is None:
                        raise LeafError("subtraction of a non-constant byte offset")
                    return ("blk", idx, w, off - c)
                i2, w2, c2 = self.as_bytes(e, st)
                if i2 is not None and idx is not None:
                    raise LeafError("two block offsets on one pointer")
                return ("blk", i2 if i2 is not None else idx, w2 if i2 is not None else w, off + c2)
            c = self.static_int(e)
            if c is None:
                raise LeafError("non-constant index on a pointer to " + pt)
            return ("blk", idx, w, off + (-c if neg else c) * self.size_of(pt))
        if base[0] == "ring" and not neg:
            if self.P["cellt"] is None or pt != self.P["cellt"]:
                raise LeafError("arithmetic on the ring pointer at type " + pt)
            return ("cell", base[1], self.z(e, st))
        raise LeafError("unsupported pointer arithmetic on %s" % base[0])

    def pval(self, n, st):
        """pointer-valued expression -> symbolic pointer"""
        n0 = n
        while n.get("kind") in ("ParenExpr", "ConstantExpr") or (
                n.get("kind") in ("ImplicitCastExpr", "CStyleCastExpr") and n.get("castKind") in ("NoOp", "BitCast")):
            n = n["inner"][-1]
        k = n.get("kind")
        if k in ("ImplicitCastExpr", "CStyleCastExpr"):
            ck = n.get("castKind")
            if ck == "NullToPointer":
                return ("null",)
            if ck == "LValueToRValue":
                return self.load_ptr(self.lval(n["inner"][-1], st), st)
            if ck in ("ArrayToPointerDecay",):
                raise LeafError("array decay")
            raise LeafError("unsupported pointer cast " + str(ck))
        if k == "IntegerLiteral" and n["value"] == "0":
            return ("null",)
        if k == "GNUNullExpr":
            return ("null",)
        if k == "BinaryOperator" and n.get("opcode") in ("+", "-"):
            a, b2 = n["inner"]
            if n["opcode"] == "+" and not is_ptr_t(a):
                a, b2 = b2, a
            return self.padd(self.pval(a, st), a, b2, st, neg=(n["opcode"] == "-"))
        if k == "UnaryOperator" and n.get("opcode") == "&":
            return ("addr", self.lval(n["inner"][0], st))
        if k == "CallExpr":
            return self.call_ptr(n, st)
        if k in ("DeclRefExpr", "MemberExpr", "ArraySubscriptExpr"):
            return self.load_ptr(self.lval(n, st), st)
        raise LeafError("pointer expression %s cannot be followed" % k)

    # ---- lvalues ---------------------------------------------------------------
    # ("local", name) ("field", name) ("pfield", name) ("lock", name) ("hdr", list, block text)
    # ("hdrpool", block text) ("cell", list, idx text) ("cellstruct", list, idx text) ("junk",)
    def lval(self, n, st):
        n = strip_paren(n)
        k = n.get("kind")
        if k == "DeclRefExpr":
            return ("local", n["referencedDecl"]["name"])
        if k == "UnaryOperator" and n.get("opcode") == "*":
            p = self.pval(n["inner"][0], st)
            if p[0] == "addr":
                return p[1]
            if p[0] == "cell":
                return ("cellstruct", p[1], p[2])
            raise LeafError("dereference of a pointer that is not an address of a cell")
        if k == "ArraySubscriptExpr":
            a, i = n["inner"]
            if not is_ptr_t(a):
                a, i = i, a
            p = self.padd(self.pval(a, st), a, i, st)
            if p[0] != "cell":
                raise LeafError("subscript on a pointer that is not the ring of cells")
            return ("cellstruct", p[1], p[2])
        if k == "MemberExpr":
            name = n.get("name", "")
            arrow, base = n.get("isArrow"), n["inner"][0]
            while not arrow:
                b0 = strip_paren(base)
                if b0.get("kind") == "MemberExpr" and b0.get("name", "") == "":
                    arrow, base = b0.get("isArrow"), b0["inner"][0]
                else:
                    break
            if not arrow:
                lv = self.lval(base, st)
                if lv[0] == "cellstruct" and name == "ptr":
                    return ("cell", lv[1], lv[2])
                raise LeafError("unsupported member access ." + name)
            p = self.pval(base, st)
            if p[0] == "heap":
                p = self.as_object(p, "blk")
            if p[0] == "pool":
                if name in self.P["fields"]:
                    return ("field", name)
                if name in self.P["data"] or name in self.P["ring"]:
                    return ("pfield", name)
                if name in self.P["locks"]:
                    return ("lock", name)
                raise LeafError("unknown pool field " + name)
            if p[0] == "blk":
                if p[3] != 0:
                    raise LeafError("block header accessed %d bytes into the block" % p[3])
                if name == "pool":
                    return ("hdrpool", self.blk_index(p, st))
                if name in self.P["hdr"]:
                    return ("hdr", self.P["hdr"][name], self.blk_index(p, st))
                return ("junk",)
            if p[0] == "cell" and name == "ptr":
                return ("cell", p[1], p[2])
            raise LeafError("member %s of a %s pointer" % (name, p[0]))
        raise LeafError("unsupported lvalue " + str(k))

    def load_int(self, lv, st):
        if lv[0] == "local":
            v = st.get(lv[1])
            if v is None or v[0] != "int":
                raise LeafError("integer read of " + lv[1])
            return v[1]
        if lv[0] == "field":
            if st.loop is not None and lv[1] in st.loop["written"]:
                raise LeafError("field written in a summarised loop is read in it")
            return st.fields[lv[1]]
        if lv[0] == "hdr":
            if st.loop is not None:
                raise LeafError("header word read inside a summarised loop")
            return "(lget %s %s)" % (st.arrs[lv[1]], lv[2])
        raise LeafError("integer read of a %s" % lv[0])

    def load_ptr(self, lv, st):
        if lv[0] == "local":
            v = st.get(lv[1])
            if v is None or v[0] != "ptr":
                raise LeafError("pointer read of " + lv[1])
            return v[1]
        if lv[0] == "pfield":
            return self.field_ptr(lv[1], st)
        if lv[0] == "hdrpool":
            return ("pool",)
        if lv[0] == "cell":
            if st.loop is not None:
                raise LeafError("ring cell read inside a summarised loop")
            return ("blk", "(lget %s %s)" % (st.arrs[lv[1]], lv[2]), None, 0)
        raise LeafError("pointer read of a %s" % lv[0])

    def store(self, lv, val, st, k):
        """val: ("int", text) | ("ptr", value); k(st) -> text"""
        if lv[0] == "local":
            if st.loop is not None and lv[1] in st.loop["frozen"]:
                raise LeafError("a summarised loop changes the outer local " + lv[1])
            d0 = st.frames[-1].get(("@def", lv[1]))
            if d0 is not None and (val[0] != "int" or val[1] != d0[1]):
                st.frames[-1].pop(("@def", lv[1]), None)        # the local no longer holds that expression
            if val[0] == "int":
                return self.let(lv[1], val[1], lambda nm: (st.set(lv[1], ("int", nm)), k(st))[1])
            st.set(lv[1], val)
            return k(st)
        if st.loop is not None and lv[0] in ("field", "pfield"):
            raise LeafError("a summarised loop writes the pool field " + lv[1])
        if lv[0] == "field":
            if val[0] != "int":
                raise LeafError("pointer stored into the integer field " + lv[1])

            def kk(nm):
                st.fields[lv[1]] = nm
                return k(st)
            return self.let("f_" + lv[1], val[1], kk)
        if lv[0] == "pfield":
            if val[0] != "ptr" or val[1][0] not in ("null", "heap", "undef"):
                raise LeafError("unsupported value stored into the pointer field " + lv[1])
            st.pf[lv[1]] = val[1]
            return k(st)
        if lv[0] == "hdrpool":
            if val[0] != "ptr" or val[1][0] != "pool":
                raise LeafError("a block header's pool pointer is set to something else than the pool")
            return k(st)
        if lv[0] == "junk":
            return k(st)
        if lv[0] in ("hdr", "cell"):
            if lv[0] == "cell":
                if val[0] != "ptr":
                    raise LeafError("integer stored into a ring cell")
                p = val[1]
                if p[0] == "heap":
                    p = self.as_object(p, "blk")
                if p[0] != "blk" or p[3] != 0:
                    raise LeafError("the pointer stored into a ring cell is not a block head")
                v = self.blk_index(p, st)
            else:
                if val[0] != "int":
                    raise LeafError("pointer stored into a header word")
                v = val[1]
            if st.loop is not None:
                st.loop["stores"].append((lv[1], lv[2], v))
                return k(st)

            def kk(nm):
                st.arrs[lv[1]] = nm
                return k(st)
            return self.let(lv[1], "lset %s %s %s" % (st.arrs[lv[1]], lv[2], v), kk)
        raise LeafError("store into a %s" % lv[0])

    # ---- atomics --------------------------------------------------------------
    def atomic_cell(self, n, st):
        p = self.pval(n, st)
        if p[0] != "addr" or p[1][0] not in ("field", "hdr"):
            raise LeafError("atomic operand is not the address of a pool field / header word")
        return p[1]

    def atomic_load(self, n, st):
        if len(n.get("inner", [])) != 2:
            raise LeafError("atomic read-modify-write used as a value")
        self.atomic_cell(n["inner"][0], st)
        if st.loop is not None:
            raise LeafError("atomic load inside a summarised loop")
        if st.iter:
            if st.iter_loads:
                raise LeafError("two atomic loads in one loop iteration")
            st.iter_loads += 1
            idx = st.nload + st.iter
        else:
            st.nload += 1
            idx = st.nload
        if idx > self.spec["loads"]:
            self.out_of_inputs("more atomic loads on a path than the %d expected" % self.spec["loads"], st)
        ty = L.ctype(n)
        if ty is None:
            raise LeafError("atomic load of a non-integer")
        return "ld%d" % idx

    # ---- calls -------------------------------------------------------------------
    def bind_args(self, f, call, st):
        parms = [c for c in f.get("inner", []) if c.get("kind") == "ParmVarDecl"]
        args = call["inner"][1:]
        if len(parms) != len(args):
            raise LeafError("argument count mismatch calling " + f["name"])
        frame = {}
        pre = []
        for p_, a in zip(parms, args):
            if L.ctype(p_) is not None:
                pre.append((p_["name"], self.z(a, st)))
            elif is_ptr_t(p_):
                frame[p_["name"]] = ("ptr", self.pval(a, st))
            else:
                raise LeafError("unsupported parameter type %s of %s" % (qt(p_), f["name"]))
        return frame, pre

    def call_int(self, n, st):
        name = self.callee(n)
        if name == NPO2:
            if not self.spec["init"]:
                raise LeafError("muggle_next_pow_of_2 outside an init function")
            a = n["inner"][1]
            ty = L.ctype(a)
            if ty is None or ty[0]:
                raise LeafError("muggle_next_pow_of_2 applied to a signed / non-integer value")
            return "(npo2 %s)" % self.z(a, st)
        f = self.fn(name)
        e = self.single_return(f) if f is not None else None
        if e is None:
            raise LeafError("call of %s inside an expression cannot be inlined" % name)
        return self.inline_expr(f, n, e, st, lambda e2, s: self.z(e2, s))

    def call_ptr(self, n, st):
        name = self.callee(n)
        if name in ALLOC_CALLS:
            return self.allocate(n, st)
        f = self.fn(name)
        e = self.single_return(f) if f is not None else None
        if e is None:
            raise LeafError("pointer-valued call of %s cannot be inlined" % name)
        return self.inline_expr(f, n, e, st, lambda e2, s: self.pval(e2, s))

    def inline_expr(self, f, call, e, st, ev):
        self.depth += 1
        if self.depth > 8:
            raise LeafError("call nesting too deep")
        try:
            frame, pre = self.bind_args(f, call, st)
            for nm, t in pre:
                frame[nm] = ("int", t)
            st.frames.append(frame)
            try:
                return ev(e, st)
            finally:
                st.frames.pop()
        finally:
            self.depth -= 1

    def allocate(self, n, st):
        if not self.spec["init"]:
            raise LeafError("allocation outside an init function")
        name = self.callee(n)
        st.nmalloc += 1
        if st.nmalloc > self.spec["allocs"]:
            raise LeafError("more allocations than the %d expected" % self.spec["allocs"])
        st.outs["msz%d" % st.nmalloc] = self.z(n["inner"][1 + ALLOC_CALLS[name]], st)
        return ("heap", st.nmalloc)

    def needs_stmt_call(self, n):
        n = strip_casts(n)
        if n.get("kind") != "CallExpr":
            return None
        name = self.callee(n)
        if name in ALLOC_CALLS or name == NPO2:
            return None
        if name in NOOP_CALLS or name == "memset":
            return n
        f = self.fn(name)
        if f is not None and self.single_return(f) is None:
            return n
        if f is None:
            raise LeafError("call of %s: no definition in this file" % name)
        return None

    def call_stmt(self, call, st, k):
        """statement-level call; k(value | None, st) -> text"""
        name = self.callee(call)
        if name in NOOP_CALLS:
            return k(None, st)
        if name == "memset":
            return self.memset(call, st, lambda s: k(None, s))
        f = self.fn(name)
        if f is None:
            raise LeafError("call of %s: no definition in this file" % name)
        self.depth += 1
        if self.depth > 8:
            raise LeafError("call nesting too deep")
        frame, pre = self.bind_args(f, call, st)

        def bind(i, s):
            if i == len(pre):
                s.frames.append(frame)
                saved_iter = (s.iter, s.iter_loads, s.iter_cas)

                def done(v, s2):
                    s2.frames.pop()
                    s2.iter, s2.iter_loads, s2.iter_cas = saved_iter[0], s2.iter_loads, s2.iter_cas
                    return k(v, s2)
                return self.exec([self.body_of(f)], s, lambda s2: done(None, s2), done, None)
            nm, t = pre[i]

            def kk(v):
                frame[nm] = ("int", v)
                return bind(i + 1, s)
            return self.let(nm, t, kk)
        try:
            return bind(0, st)
        finally:
            self.depth -= 1

    def memset(self, call, st, k):
        args = call["inner"][1:]
        if len(args) != 3 or self.static_int(args[1]) != 0:
            raise LeafError("memset with a non-zero fill value")
        p = self.pval(args[0], st)
        if p[0] == "heap":
            p = self.as_object(p, "blk")
        if p[0] == "pool":
            if st.loop is not None:
                raise LeafError("memset of the pool inside a summarised loop")
            for fld in self.P["fields"]:
                st.fields[fld] = "0"
            for fld in list(self.P["data"]) + list(self.P["ring"]):
                st.pf[fld] = ("null",)
            return k(st)
        if p[0] == "blk" and p[1] is None and p[3] == 0:
            # the whole data area: capacity blocks of block_size bytes, i.e. the per-block fill of every header word
            if st.loop is not None:
                raise LeafError("memset of the data area inside a summarised loop")
            try:
                cnt, w, off = self.as_bytes(args[2], st)
            except LeafError as e:
                raise LeafError("memset of the data area: its size is not block_size * count (%s)" % e)
            if cnt is None or off != 0:
                raise LeafError("memset of the data area: its size is not block_size * count")
            arrs = sorted(set(self.P["hdr"].values()))
            ivar = self.fresh("i")

            def fill(i, s):
                if i == len(arrs):
                    return k(s)

                def kk(nm):
                    s.arrs[arrs[i]] = nm
                    return fill(i + 1, s)
                return self.let(arrs[i], "lfill %s %s (fun %s => (blkidx %d %s %s)) (fun %s => (0))" % (
                    s.arrs[arrs[i]], cnt, ivar, w, s.fields["block_size"], ivar, ivar), kk)
            return fill(0, st)
        if p[0] == "blk" and p[3] == 0:
            lvs = [("hdr", arr, self.blk_index(p, st)) for arr in sorted(set(self.P["hdr"].values()))]

            def go(i, s):
                if i == len(lvs):
                    return k(s)
                return self.store(lvs[i], ("int", "0"), s, lambda s2: go(i + 1, s2))
            return go(0, st)
        raise LeafError("memset of something that is neither the pool nor a block")

    # ---- conditions ---------------------------------------------------------------
    def branch(self, c, st, kt, kf):
        c0 = strip_paren(c)
        k = c0.get("kind")
        if k in ("ImplicitCastExpr", "CStyleCastExpr") and c0.get("castKind") in ("IntegralToBoolean", "NoOp", "IntegralCast") \
                and self.has_cas(c0):
            return self.branch(c0["inner"][-1], st, kt, kf)      # truth value of a compare-exchange under a cast
        if k == "UnaryOperator" and c0.get("opcode") == "!" and not is_ptr_t(strip_paren(c0["inner"][0])):
            return self.branch(c0["inner"][0], st, kf, kt)
        if k == "BinaryOperator" and c0.get("opcode") == "&&":
            return self.branch(c0["inner"][0], st, lambda s: self.branch(c0["inner"][1], s, kt, kf), kf)
        if k == "BinaryOperator" and c0.get("opcode") == "||":
            return self.branch(c0["inner"][0], st, kt, lambda s: self.branch(c0["inner"][1], s, kt, kf))
        if k == "AtomicExpr" and len(c0.get("inner", [])) == 6:
            return self.cas(c0, st, kt, kf)
        cc = strip_casts(c0)
        if cc.get("kind") == "CallExpr" and self.callee(cc) not in ALLOC_CALLS and self.callee(cc) != NPO2 \
                and self.callee(cc) not in NOOP_CALLS and self.callee(cc) != "memset" and self.needs_stmt_call(cc) is not None:
            def after(v, s):
                if v is None:
                    raise LeafError("a call that yields nothing is used as a condition")
                if v[0] == "ptr":
                    t = negb(self.is_null(v[1]))
                else:
                    m = re.match(r"^\(?(-?\d+)\)?$", v[1])
                    t = ("true" if int(m.group(1)) != 0 else "false") if m else "(negb (%s =? 0))" % v[1]
                if t == "true":
                    return kt(s)
                if t == "false":
                    return kf(s)
                s1, s2 = s.copy(), s.copy()
                return "(if %s\n  then %s\n  else %s)" % (t, self.arm(lambda: kt(s1)), self.arm(lambda: kf(s2)))
            return self.call_stmt(cc, st, after)
        v = self.static_int(c0)
        if v is not None:
            return kt(st) if v else kf(st)
        if st.loop is not None:
            raise LeafError("conditional inside a summarised loop")
        t = self.b(c0, st)
        if t == "true":
            return kt(st)
        if t == "false":
            return kf(st)
        core, pos = t, True
        m = re.match(r"^\(negb (.*)\)$", t)
        if m and m.group(1).count("(") == m.group(1).count(")"):
            core, pos = m.group(1), False
        if core in st.facts:        # decided earlier on this path (names are single-assignment)
            return kt(st) if st.facts[core] == pos else kf(st)
        s1, s2 = st.copy(), st.copy()
        s1.facts[core] = pos
        s2.facts[core] = not pos
        return "(if %s\n  then %s\n  else %s)" % (t, self.arm(lambda: kt(s1)), self.arm(lambda: kf(s2)))

    def has_cas(self, n):
        if n.get("kind") == "AtomicExpr" and len(n.get("inner", [])) == 6:
            return True
        return any(self.has_cas(c) for c in n.get("inner", []) if c)

    def cas(self, n, st, kt, kf):
        ptr, _mo, exp, _mof, des, _weak = n["inner"]
        cell = self.atomic_cell(ptr, st)
        pe = self.pval(exp, st)
        if pe[0] != "addr" or pe[1][0] != "local":
            raise LeafError("the expected operand of the compare-exchange is not the address of a local")
        if st.loop is not None:
            raise LeafError("compare-exchange inside a summarised loop")
        if st.iter:
            if st.iter_cas:
                raise LeafError("two compare-exchanges in one loop iteration")
            st.iter_cas += 1
            idx = st.ncas + st.iter
        else:
            st.ncas += 1
            idx = st.ncas
        if idx > self.spec["cas"]:
            self.out_of_inputs("more compare-exchanges on a path than the %d expected" % self.spec["cas"], st)
        e = self.load_int(pe[1], st)
        d = self.z(des, st)
        s1, s2 = st.copy(), st.copy()
        yes = self.arm(lambda: self.store(cell, ("int", d), s1, kt))
        no = self.arm(lambda: self.store(pe[1], ("int", "cur%d" % idx), s2, kf))
        return "(if ((cur%d =? %s) && (spur%d =? 0))\n  then %s\n  else %s)" % (idx, e, idx, yes, no)

    # ---- statements (continuation-passing) -------------------------------------------
    def exec(self, stmts, st, kfall, kret, loopk):
        """loopk: None | (kbreak, kcontinue)"""
        if not stmts:
            return kfall(st)
        s, R = stmts[0], list(stmts[1:])
        k = s.get("kind")

        def rest(s2):
            return self.exec(R, s2, kfall, kret, loopk)
        if k == "CompoundStmt":
            return self.exec(list(s.get("inner", [])) + R, st, kfall, kret, loopk)
        if k == "NullStmt":
            return rest(st)
        if k in ("ParenExpr", "ConstantExpr"):
            return self.exec([s["inner"][0]] + R, st, kfall, kret, loopk)
        if k in ("CStyleCastExpr", "ImplicitCastExpr") and s.get("castKind") in ("ToVoid", "NoOp", "LValueToRValue"):
            return self.exec([s["inner"][-1]] + R, st, kfall, kret, loopk)
        if k in ("IntegerLiteral", "DeclRefExpr", "MemberExpr"):
            return rest(st)
        if k == "ReturnStmt":
            if st.loop is not None:
                raise LeafError("return inside a summarised loop")
            e = s["inner"][0] if s.get("inner") else None
            if e is None:
                return kret(None, st)
            c = self.needs_stmt_call(e)
            if c is not None:
                return self.call_stmt(c, st, lambda v, s2: kret(v, s2))
            if is_ptr_t(e):
                return kret(("ptr", self.pval(e, st)), st)
            return kret(("int", self.z(e, st)), st)
        if k == "BreakStmt":
            if loopk is None:
                raise LeafError("break outside a loop")
            return loopk[0](st)
        if k == "ContinueStmt":
            if loopk is None:
                raise LeafError("continue outside a loop")
            return loopk[1](st)
        if k == "IfStmt":
            c = s["inner"][0]
            t = s["inner"][1]
            f = s["inner"][2] if len(s["inner"]) > 2 else None
            return self.branch(c, st,
                               lambda s2: self.exec([t] + R, s2, kfall, kret, loopk),
                               lambda s2: self.exec(([f] if f is not None else []) + R, s2, kfall, kret, loopk))
        if k == "DeclStmt":
            ds = [d for d in s.get("inner", [])]

            def decls(i, s2):
                if i == len(ds):
                    return rest(s2)
                d = ds[i]
                if d.get("kind") != "VarDecl":
                    raise LeafError("unsupported declaration")
                init = d.get("inner", [])
                init = init[-1] if init else None
                lv = ("local", d["name"])
                if st.loop is not None and d["name"] in st.loop["frozen"]:
                    st.loop["frozen"].discard(d["name"])
                if L.ctype(d) is not None:
                    if init is not None and self.needs_stmt_call(init) is not None:
                        return self.call_stmt(self.needs_stmt_call(init), s2, lambda v, s3: self.store(
                            lv, self.conv(v, d), s3, lambda s4: decls(i + 1, s4)))
                    t0 = self.z(init, s2) if init is not None else "0"
                    self.remember(d["name"], init, t0, s2)
                    return self.store(lv, ("int", t0), s2, lambda s3: decls(i + 1, s3))
                if is_ptr_t(d):
                    if init is None:
                        s2.set(d["name"], ("ptr", ("undef",)))
                        return decls(i + 1, s2)
                    c = self.needs_stmt_call(init)
                    if c is not None:
                        return self.call_stmt(c, s2, lambda v, s3: self.store(lv, self.want_ptr(v), s3,
                                                                             lambda s4: decls(i + 1, s4)))
                    return self.store(lv, ("ptr", self.pval(init, s2)), s2, lambda s3: decls(i + 1, s3))
                raise LeafError("unsupported local of type " + qt(d))
            return decls(0, st)
        if k == "AtomicExpr":
            if len(s["inner"]) == 3:
                cell = self.atomic_cell(s["inner"][0], st)
                if st.loop is not None:
                    raise LeafError("atomic store inside a summarised loop")
                return self.store(cell, ("int", self.z(s["inner"][2], st)), st, rest)
            if len(s["inner"]) == 6:
                return self.branch(s, st, rest, rest)
            if len(s["inner"]) == 2:
                self.atomic_load(s, st)
                return rest(st)
            raise LeafError("unsupported atomic operation")
        if k == "BinaryOperator" and s.get("opcode") == "=":
            lhs, rhs = s["inner"]
            c = self.needs_stmt_call(rhs)
            if is_ptr_t(lhs):
                if c is not None:
                    return self.call_stmt(c, st, lambda v, s2: self.store(self.lval(lhs, s2), self.want_ptr(v), s2, rest))
                v = ("ptr", self.pval(rhs, st))
                return self.store(self.lval(lhs, st), v, st, rest)
            if c is not None:
                return self.call_stmt(c, st, lambda v, s2: self.store(self.lval(lhs, s2), self.conv(v, lhs), s2, rest))
            if self.has_cas(rhs):
                raise LeafError("compare-exchange result stored in a variable")
            v = ("int", self.z(rhs, st))
            lv0 = self.lval(lhs, st)
            if lv0[0] == "local":
                self.remember(lv0[1], rhs, v[1], st)
            return self.store(lv0, v, st, rest)
        if k == "CompoundAssignOperator":
            lhs, rhs = s["inner"]
            if is_ptr_t(lhs):
                raise LeafError("compound assignment to a pointer")
            fake = {"kind": "BinaryOperator", "opcode": s["opcode"][:-1], "inner": [self.rvalue(lhs), rhs],
                    "type": s.get("computeResultType", s["type"])}
            val = self.z(fake, st)
            ty = L.ctype(s)
            if ty and not ty[0]:
                val = "(wrapu %d %s)" % (ty[1], val)
            return self.store(self.lval(lhs, st), ("int", val), st, rest)
        if k == "UnaryOperator" and s.get("opcode") in ("++", "--"):
            lhs = s["inner"][0]
            if is_ptr_t(lhs):
                raise LeafError("++ / -- on a pointer")
            one = {"kind": "IntegerLiteral", "value": "1", "type": s["type"]}
            fake = {"kind": "BinaryOperator", "opcode": "+" if s["opcode"] == "++" else "-",
                    "inner": [self.rvalue(lhs), one], "type": s["type"]}
            return self.store(self.lval(lhs, st), ("int", self.z(fake, st)), st, rest)
        if k == "CallExpr":
            name = self.callee(s)
            if name in ALLOC_CALLS or name == NPO2:
                raise LeafError("result of %s is discarded" % name)
            c = self.needs_stmt_call(s)
            if c is None:       # a single-return helper called for nothing
                return rest(st)
            return self.call_stmt(c, st, lambda v, s2: rest(s2))
        if k in ("DoStmt", "WhileStmt", "ForStmt"):
            return self.loop(s, R, st, kfall, kret, loopk)
        raise LeafError("unsupported statement kind " + str(k))

    @staticmethod
    def rvalue(lhs):
        return {"kind": "ImplicitCastExpr", "castKind": "LValueToRValue", "type": lhs.get("type", {}), "inner": [lhs]}

    def conv(self, v, decl):
        if v is None or v[0] != "int":
            raise LeafError("a call that yields no integer is used as one")
        ty = L.ctype(decl)
        if ty is not None and not ty[0] and ty[1] < 64:
            return ("int", "(wrapu %d %s)" % (ty[1], v[1]))
        return v

    @staticmethod
    def want_ptr(v):
        if v is None or v[0] != "ptr":
            raise LeafError("a call that yields no pointer is used as one")
        return v

    # ---- loops -------------------------------------------------------------------------
    def loop(self, s, R, st, kfall, kret, loopk):
        k = s["kind"]
        if k == "ForStmt":
            init, _cv, cond, inc, body = [(c if c else None) for c in s["inner"]]
            if init is not None:
                return self.exec([init, {"kind": "@for", "cond": cond, "inc": inc, "body": body}] + R, st, kfall, kret, loopk)
        elif k == "WhileStmt":
            cond, inc, body = s["inner"][-2], None, s["inner"][-1]
        elif k == "DoStmt":
            body, cond, inc = s["inner"][0], s["inner"][1], None
        return self.loop2("do" if k == "DoStmt" else "while", cond, inc, body, R, st, kfall, kret, loopk)

    def exec_for(self, s, R, st, kfall, kret, loopk):
        return self.loop2("while", s["cond"], s["inc"], s["body"], R, st, kfall, kret, loopk)

    def mentions(self, n, name):
        if n.get("kind") == "DeclRefExpr" and n["referencedDecl"]["name"] == name:
            return True
        return any(self.mentions(c, name) for c in n.get("inner", []) if c)

    def is_step(self, stm, v):
        stm = strip_paren(stm)
        k = stm.get("kind")

        def isv(x):
            x = strip_casts(x)
            return x.get("kind") == "DeclRefExpr" and x["referencedDecl"]["name"] == v
        if k == "UnaryOperator" and stm.get("opcode") == "++":
            return isv(stm["inner"][0])
        if k == "CompoundAssignOperator" and stm.get("opcode") == "+=":
            return isv(stm["inner"][0]) and self.static_int(stm["inner"][1]) == 1
        if k == "BinaryOperator" and stm.get("opcode") == "=" and isv(stm["inner"][0]):
            r = strip_casts(stm["inner"][1])
            if r.get("kind") == "BinaryOperator" and r.get("opcode") == "+":
                a, b2 = r["inner"]
                return (isv(a) and self.static_int(b2) == 1) or (isv(b2) and self.static_int(a) == 1)
        return False

    def counting(self, kind, cond, inc, body, st):
        """-> (var, bound node, body statements without the step) when the loop is a counting loop from 0"""
        if kind != "while" or cond is None:
            return None
        c = strip_paren(cond)
        if c.get("kind") != "BinaryOperator" or c.get("opcode") not in ("<", "!="):
            return None
        l0 = strip_casts(c["inner"][0])
        if l0.get("kind") != "DeclRefExpr":
            return None
        v = l0["referencedDecl"]["name"]
        cur = st.get(v)
        if cur is None or cur[0] != "int" or cur[1] not in ("0", "(0)", "(wrapu 32 (0))"):
            return None
        if self.mentions(c["inner"][1], v):
            return None
        bl = list(body.get("inner", [])) if body.get("kind") == "CompoundStmt" else [body]
        bl = [x for x in bl if x.get("kind") != "NullStmt"]
        if inc is not None:
            if not self.is_step(inc, v):
                return None
        else:
            if not bl or not self.is_step(bl[-1], v):
                return None
            bl = bl[:-1]
        return (v, c["inner"][1], bl)

    def loop2(self, kind, cond, inc, body, R, st, kfall, kret, loopk):
        cnt = self.counting(kind, cond, inc, body, st)
        if cnt is not None:
            return self.summarise(cnt, R, st, kfall, kret, loopk)
        if st.iter or st.loop is not None:
            raise LeafError("nested loops")
        def iteration(j, s):
            if j > UNROLL + 1:
                raise LeafError("a loop that is not a counting loop goes round without an atomic load / compare-exchange")
            s.iter, s.iter_loads, s.iter_cas = j, 0, 0

            def cont(s1):
                if inc is not None:
                    return self.exec([inc], s1, lambda s2: tail(s2), kret, None)
                return tail(s1)

            def tail(s1):
                if kind == "do":
                    return self.branch(cond, s1, lambda s2: iteration(j + 1, s2), leave)
                return iteration(j + 1, s1)

            def leave(s1):
                s1.iter = 0
                s1.nload += UNROLL          # the indices of the unrolled iterations stay reserved
                s1.ncas += UNROLL
                return self.exec(R, s1, kfall, kret, loopk)

            def run(s0):
                return self.exec([body], s0, cont, kret, (leave, cont))
            if kind == "while" and cond is not None:
                return self.branch(cond, s, run, leave)
            return run(s)
        return iteration(1, st)

    def pending(self, st):
        if self.spec["kind"] != "alloc":
            raise LeafError("a loop that does not provably end in a function that is not an allocation")
        return self.result("(-1)", st)

    def summarise(self, cnt, R, st, kfall, kret, loopk):
        v, bound, bl = cnt
        if st.loop is not None or st.iter:
            raise LeafError("nested loops")
        n_text = self.z(bound, st)
        ivar = self.fresh("i")
        outer = st.copy()
        body_st = st.copy()
        body_st.set(v, ("int", ivar))
        frozen = set()
        for fr in body_st.frames:
            frozen |= set(fr.keys())
        body_st.loop = {"var": v, "stores": [], "frozen": frozen, "written": set()}
        stores = body_st.loop["stores"]
        done = []

        def end(s):
            done.append(True)
            return ""
        txt = self.exec(bl, body_st, end, lambda v_, s: _raise("return inside a summarised loop"), None)
        if not done:
            raise LeafError("the body of a counting loop does not fall through")
        # local lets of the body are wrapped around the index / value functions
        prefix = txt

        def fun(t):
            return "(fun %s => %s%s)" % (ivar, prefix, t)
        # last store to one (list, index) wins inside one iteration
        final = []
        for arr, idx, val in stores:
            final = [(a, i, x) for (a, i, x) in final if not (a == arr and i == idx)]
            final.append((arr, idx, val))
        per = {}
        for arr, idx, val in final:
            if arr in per:
                raise LeafError("a counting loop stores into two different cells of %s per iteration" % arr)
            per[arr] = (idx, val)
        st2 = outer
        st2.set(v, ("int", n_text))

        def go(items, s):
            if not items:
                return self.exec(R, s, kfall, kret, loopk)
            arr, (idx, val) = items[0]

            def kk(nm):
                s.arrs[arr] = nm
                return go(items[1:], s)
            return self.let(arr, "lfill %s %s %s %s" % (s.arrs[arr], n_text, fun(idx), fun(val)), kk)
        return go(sorted(per.items()), st2)

    # ---- result ---------------------------------------------------------------------------
    def result(self, ret, st):
        parts = [ret] + [st.fields[f] for f in self.P["fields"]] + [st.arrs[a] for a in self.P["arrays"]]
        if self.spec["init"]:
            for i in range(1, self.spec["allocs"] + 1):
                parts.append(st.outs.get("msz%d" % i, "(-1)"))
            for nm in list(self.P["data"]) + list(self.P["ring"]):
                v = st.pf.get(nm, ("undef",))
                if v[0] == "null":
                    parts.append("0")
                elif v[0] == "heap":
                    parts.append("(if m%d =? 0 then 0 else %d)" % (v[1], v[1]))
                else:
                    parts.append("(-1)")
        return "(" + ", ".join(parts) + ")"

    def slice(self, gname, cname, kind, loads, cas, allocs):
        f = self.fn(cname)
        if f is None:
            raise LeafError("function %s not found in %s" % (cname, self.P["src"]))
        self.uid = 0
        self.depth = 0
        self.spec = {"kind": kind, "init": kind == "init", "loads": loads, "cas": cas, "allocs": allocs}
        st = St()
        args = []
        for fld in self.P["fields"]:
            st.fields[fld] = "f_" + fld
        for a in self.P["arrays"]:
            st.arrs[a] = a
        for nm in list(self.P["data"]) + list(self.P["ring"]):
            st.pf[nm] = ("undef",) if kind == "init" else ("init",)
        parms = [c for c in f.get("inner", []) if c.get("kind") == "ParmVarDecl"]
        n_int = 0
        seen_pool = False
        for p_ in parms:
            t = qt(p_)
            if self.P["poolt"] in t and t.strip().endswith("*"):
                st.set(p_["name"], ("ptr", ("pool",)))
                seen_pool = True
            elif L.ctype(p_) is not None:
                ty = L.ctype(p_)
                n_int += 1
                nm = "a%d" % n_int
                args.append(nm)
                if ty[0] or ty[1] != 32:
                    raise LeafError("integer parameter %s is not a 32-bit unsigned value" % p_["name"])
                st.set(p_["name"], ("int", nm))
            elif t.replace("const ", "").strip() == "void *" and kind == "free":
                st.set(p_["name"], ("ptr", ("blk", "b", None, self.head_size())))
                args.append("b")
            else:
                raise LeafError("unsupported parameter type " + t)
        if kind != "free" and not seen_pool:
            raise LeafError("no pool parameter")
        want = {"alloc": [], "free": ["b"], "init": ["a1", "a2"]}[kind]
        if args != want:
            raise LeafError("parameters %s where %s were expected" % (args, want))
        rt = f["type"]["qualType"].split("(")[0].strip()

        def kret(v, s):
            if rt == "void":
                return self.result("0", s)
            if rt.endswith("*"):
                if v is None or v[0] != "ptr":
                    raise LeafError("pointer function returns no pointer")
                p = v[1]
                if p[0] == "null":
                    return self.result("0", s)
                if p[0] == "blk" and p[3] == self.head_size():
                    return self.result("(%s + 1)" % self.blk_index(p, s), s)
                raise LeafError("returned pointer is neither NULL nor the payload of a block (head + sizeof head)")
            if v is None or v[0] != "int":
                raise LeafError("integer function returns no integer")
            return self.result(v[1], s)

        def kfall(s):
            if rt != "void":
                raise LeafError("control reaches the end of a non-void function")
            return self.result("0", s)
        body = self.arm(lambda: self.exec([self.body_of(f)], st, kfall, kret, None))
        sig = []
        if kind == "init":
            sig.append("(npo2 : Z -> Z)")
        sig += ["(f_%s : Z)" % x for x in self.P["fields"]]
        sig += ["(%s : list Z)" % a for a in self.P["arrays"]]
        sig += ["(%s : Z)" % a for a in args]
        sig += ["(ld%d : Z)" % i for i in range(1, loads + 1)]
        for i in range(1, cas + 1):
            sig += ["(cur%d : Z)" % i, "(spur%d : Z)" % i]
        sig += ["(m%d : Z)" % i for i in range(1, allocs + 1)]
        return "Definition %s %s :=\n  %s.\n" % (gname, " ".join(sig), body)


# the @for pseudo statement produced by loop(): dispatched here to keep exec() flat
_exec = Slicer.exec


def _exec_with_for(self, stmts, st, kfall, kret, loopk):
    if stmts and stmts[0].get("kind") == "@for":
        return self.exec_for(stmts[0], list(stmts[1:]), st, kfall, kret, loopk)
    return _exec(self, stmts, st, kfall, kret, loopk)


Slicer.exec = _exec_with_for


def translate_all(repo, cflags, sizeofs, consts):
    """-> list of (generated name, text | None, error | None)"""
    out = []
    sl = {}
    for gname, pool, cname, kind, loads, cas, allocs in FUNCS:
        try:
            if pool not in sl:
                sl[pool] = Slicer(repo, pool, cflags, sizeofs, consts)
            out.append((gname, sl[pool].slice(gname, cname, kind, loads, cas, allocs), None))
        except LeafError as e:
            out.append((gname, None, "slicer / translator error: " + str(e)))
        except Exception as e:      # a broken AST must break the obligation, not the machinery
            out.append((gname, None, "slicer failure: %s: %s" % (type(e).__name__, str(e)[:200])))
    return out
