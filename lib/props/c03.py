"""C03 — no lost wake-up / no deadlock of the blocking conduits: plugin for bin/check."""
import os
import re
import subprocess
import vcommon as V

ID = "C03"
COQ_DIRS = ["C03", "C04"]
MODEL_BASE = "c03_model"
OCAML_DRIVER = "ocaml/c03_driver.ml"
OCAML_INCLUDES = ["ocaml/vsacc.ml.inc"]
C_DRIVER = "harness/drivers/c03_driver.c"
REPO_SOURCES = ["muggle/c/sync/channel.c", "muggle/c/sync/ring_buffer.c", "muggle/c/sync/array_blocking_queue.c",
                "muggle/c/sync/double_buffer.c", "muggle/c/sync/synclock.c", "muggle/c/sync/spinlock.c",
                "muggle/c/sync/mutex.c", "muggle/c/sync/condition_variable.c", "muggle/c/base/thread.c",
                "muggle/c/base/utils.c"]
HEADER_LINES = 2
SHRINK = False          # a case is (scenario, schedule); schedules are not line-shrinkable
CASE_TIMEOUT = 5.0
RULE = ("scenarios (channel futex/condvar/BUSY-LOOP reader x writer lock mutex/single/SPINLOCK/SYNCLOCK x capacity 3/4/8/16/32 x 1..3 producers "
        "(scripts reach MUGGLE_ERR_FULL under every lock kind; the refused writer yields and retries); ring buffer "
        "wait/single/once/BUSY-LOOP readers x lock/single writer x capacity 2..8, plus rings that WRAP under model-guided throttled schedules; array blocking queue capacity 1..4 x 1..2 consumers x "
        "1..3 producers; double buffer capacity 1..4 x 1..3 writers, blocking and NON-BLOCKING mode (capacity 1..3, scripts long "
        "enough that writes are refused with MUGGLE_ERR_FULL, the refused writer yields and retries while the reader reads); synclock 2..4 threads) with message counts that force "
        "both empty and full blocking, run on the real code under the deterministic scheduler with seeded random schedules "
        "(context-switch density 20/50/80 %, spurious condvar wake-ups 0/20/40 %, spurious weak-CAS failures 0/30 %, futex waits "
        "that return early -- EINTR or spurious -- 0/20/30 % for the channel futex reader and the ring) and "
        "with schedules produced by exploring the MODEL that park a sleeper between its check and its sleep while the "
        "waker runs (some of them with early futex returns); every trace replayed on the extracted model; non-trivial = some thread really blocked (futex or "
        "condvar); distinct = distinct trace text")
TRUSTED_BASE = [
    "the abstract semantics of futex(2) written down in coq/C03/Futex.v (kernel_futex: FUTEX_WAIT = atomic compare-and-block on "
    "the word's key, FUTEX_WAKE = wake at most val waiters of that key, private and shared key spaces disjoint); the kfutex "
    "scenarios run the real kernel against it, the thread-asleep observation is the task state in /proc/self/task/<tid>/stat",
    "modelled, not verified: sequentially consistent interleaving of the atomic operations; futex = atomic compare-and-block / "
    "wake (wake_one wakes one waiter, wake_all every waiter), pthread mutex = exclusive ownership, condition variables = Mesa "
    "semantics with spurious wake-ups, as interposed by harness/vsched; fairness of the OS scheduler is not modelled (the "
    "theorems are the safety form of no-lost-wake-up: never 'nobody can run while work remains')",
    "message contents are abstracted away in the C03 models (the data path is C01/C02); cursor / count arithmetic, the order of "
    "check, sleep, store and wake, and the value handed to the futex are transcribed from the code and tied by trace acceptance",
]
ASSUMPTIONS = ["x86-64 Linux futex ABI (SYS_futex = 202, FUTEX_WAIT = 0, FUTEX_WAKE = 1, FUTEX_PRIVATE_FLAG = 128): the constants the "
               "compiler sees are compared with these on every run",
               "one channel reader; one double-buffer reader; ring buffer: single-wait mode has one reader and writers never "
               "lap a waiting reader (fewer than capacity messages are written while a reader waits); channel capacity >= 3 "
               "(a channel of capacity 1 or 2 refuses every write by construction)"]
EVIDENCE_NOTES = [
    "THE FUTEX ITSELF (muggle/c/sync/sync_obj_futex.c; harness/vsched replaces it in every scheduled run): (a) source "
    "obligation, regenerated on every run into coq/gen/Params_C03.v: the unmodified file is compiled with `syscall` renamed "
    "to a recording stub and each of muggle_sync_wait / wake_one / wake_all is called with sample arguments; "
    "futex_source_asks_for_the_scheduler_semantics (one futex call, FUTEX_WAIT resp. FUTEX_WAKE on the PROCESS-PRIVATE key "
    "for all three, the caller's address / value / timeout, counts 1 / INT_MAX, header constants = Linux ABI) and "
    "futex_calls_have_the_scheduler_semantics (under the abstract futex(2) semantics of C03/Futex.v each observed call is the "
    "scheduler's compare-and-block / wake-one / wake-all); (b) kfutex scenarios: the same unmodified file (functions renamed "
    "kreal_*) runs on the REAL kernel with real threads, no scheduler: wait on a differing value returns EAGAIN at once, a "
    "sleeper (confirmed asleep by its task state in /proc) is woken by wake_one, wake_all wakes every sleeper, a wake without "
    "sleepers is harmless; counts compared with the extracted sched_wait / sched_wake_* and checked by an independent oracle; an "
    "observation that cannot be made in time is reported as HARNESS-ERROR (tally kfutex_HARNESS_ERROR_inconclusive_runs), "
    "never as a finding",
    "SPIN-BASED WAITING: channel READ_BUSY under every writer-lock kind is inside model (g) (chan_busy_no_deadlock, "
    "chan_busy_reader_never_blocks) and in the scenarios (chanb); ring buffer READ_BUSY_LOOP readers are model (h) "
    "(C03/ModelRB.v: ring_busy_never_blocks, ring_busy_no_deadlock) and scenarios `ring busy`.  Their termination with "
    "messages delivered is data path (C01 / C02); here: nobody ever blocks, no LIVELOCK under the scheduler's budget",
    "LONG BACKLOGS / WRAPPING RINGS: channel capacities 16 and 32 with scripts that fill them; model-guided BACKLOG schedules "
    "(T unread messages when a producer loads read_cursor, T around capacity/2 .. capacity-3; the consumer drains them all and "
    "sleeps before that producer publishes and wakes) and the monitor clause `a blocked consumer is resumed by the NEXT completed "
    "write` (a store to a futex word on which somebody sleeps obliges the storer to call wake before its next store / its exit).  "
    "Rings that WRAP (more messages than slots) run under model-guided THROTTLED schedules (a writer begins a write only while "
    "written + in flight - slowest reader <= capacity - 2: the documented no-lapping usage played by the schedule); "
    "rb_no_deadlock / rb_no_lost_wakeup hold for every script length (wrapping included); ring_no_lost_wakeup_fair still "
    "requires fewer messages than slots in total -- lifting it needs the throttle inside the model and modular accounting "
    "(cursor = written mod capacity, reader window) throughout C03/ProofsFairRing*.v; NOT done",
    "EVERY RETURN PATH RELEASES WHAT THE CALL ACQUIRED (MUGGLE_ERR_FULL included): the double buffer is modelled in both "
    "modes (d_nb = buf->non_blocking; FULL path = unlock, return, client notes 'full', yields, retries): "
    "dbuf_nonblocking_no_deadlock, dbuf_nonblocking_writer_never_stuck, dbuf_nonblocking_writers_never_sleep, "
    "dbuf_blocking_never_returns_full, dbuf_calls_release_mutex, dbuf_mutex_owner_is_inside_and_runnable, "
    "dbuf_full_return_unlocks; all older dbuf theorems now quantify over the mode.  The same statement for the other "
    "conduits: chan_futex_calls_release_write_mutex, chan_cv_calls_release_mutexes, abq_calls_release_mutex "
    "(C03/ProofsLocks.v).  refuted_full_return_keeping_mutex (C03/Variants.v): the FULL return that forgets the unlock "
    "deadlocks (capacity 1, one writer, one reader, an item waiting).  The array blocking queue has no non-blocking / try "
    "variant in its API.  Monitor: mutex and writer-lock-word ownership is followed through the trace; a client note or a "
    "thread exit while the thread still owns one is reported (independent of the model)",
    "CHANNEL, WRITER LOCK = LOCK WORD (model (g), C03/ModelK.v, proofs C03/ProofsChanK*.v): WRITE_SPIN (test-and-set / yield; "
    "clear) and WRITE_SYNC (weak CAS with spurious failures / futex wait with early returns; store + wake_one) with the futex "
    "or the condvar reader, any number of writers: chan_wordlock_no_deadlock, chan_wordlock_no_lost_wakeup (three kinds of "
    "sleepers: reader on write_cursor, reader on read_cv, writers on the synclock word), chan_wordlock_held_only_inside, "
    "chan_wordlock_calls_release_locks, chan_wordlock_release_on_every_path.  With models (a)/(b) (WRITE_MUTEX / "
    "WRITE_SINGLE) every writer-lock kind of channel.c is inside the no-deadlock theorems and inside the scenarios, and the "
    "FULL return is exercised under each of them (tally channel_full_returns_<kind>_lock).  The fair-schedule theorems "
    "remain stated for WRITE_MUTEX / WRITE_SINGLE only",
    "proved for every schedule and any number of threads (Properties_C03.v): X_no_deadlock and X_no_lost_wakeup for X = "
    "chan_futex, chan_cv, rb, abq, dbuf, synclock; dbuf_notify_one_suffices; two refutation theorems (futex wait on a "
    "re-loaded value; `if` instead of `while`) plus further vm_compute witnesses in C03/Variants.v",
    "futex waits may return early (EINTR / spurious wake-up): schedule choices 2 / 3 of the would-block fwait step of the "
    "channel futex reader and the ring models; all their theorems quantify over them; *_early_return_rechecks and "
    "chan_futex_take_only_after_nonempty_check state that such a return neither gives up nor consumes.  The synclock model "
    "is C04's (imported read-only) and has no such choice, so synclock scenarios run without fspur/fwake (its loop re-tries "
    "the CAS after any return of the wait, which the C04 model takes only from a genuine wake-up or a changed word)",
    "abq_cv_waiters_homogeneous names what the abq counting invariants rely on (waiters of cv_not_full are producers only, of "
    "cv_not_empty consumers only; in the model this is carried by the program points); refuted_single_condition_variable / "
    "abq_single_cv_deadlocks (C03/Variants.v) show the merged-condition-variable variant deadlocking (capacity 1, two "
    "producers, one consumer).  If the queue / double-buffer struct loses the documented fields the driver is rebuilt with "
    "-DC03_NAMES_BY_OFFSET (objects named by offset) so that the scenarios still run and the deadlock detector still applies",
    "'empty' / 'full' in the theorems are the code's own tests (write_cursor = IDX(read_cursor+1); cursor = reader position; "
    "cnt = 0 / capacity; back->cnt = 0).  That the ring's test means 'no unread message' needs the documented no-lapping "
    "usage and is the data-path invariant of C02 (Example ring_lapped_reader_sleeps shows a lapped reader going to sleep)",
    "FAIR SCHEDULES (rounds scheduling every thread at least once, scheme of coq/C14/ProofsFair.v, generic argument in "
    "C03/FairGen.v): chan_no_lost_wakeup_fair (channel with futex reader, capacity 2^k >= 4, any number of writers behind the "
    "write mutex, balanced scripts, unboundedly many interrupted / spurious futex returns and FULL retries) and "
    "ring_no_lost_wakeup_fair (wait / single-wait / read-once readers, spin-lock or single writer, fewer than capacity "
    "messages so that nobody is lapped): from every reachable state every thread has finished after more than M rounds, M an "
    "explicit measure; both with a round-robin non-vacuity theorem in which the readers really sleep and are really woken.  "
    "They rest on data-path accounting proved for these models (ghost counters W/R behind the cursors, 0 <= W-R <= cap-2, the "
    "stale read-cursor register under the write lock, no wrap of the ring cursor).  NOT covered: (1) the condvar-mode channel -- "
    "the statement is false under this fairness notion once a writer can bounce off a full channel, because its retry takes "
    "read_mutex and a fair-by-rounds schedule may give the reader its turn only then (theorem "
    "chan_cv_fair_schedule_can_starve_reader: 2000 fair rounds, reader never asleep, never gets the mutex); same with unboundedly "
    "many spurious condvar wake-ups; this is mutex unfairness plus the client's retry loop, not a lost wake-up, and the safety "
    "theorems chan_cv_no_deadlock / chan_cv_no_lost_wakeup hold; (2) the busy-loop reader modes of channel and ring (no sleep/wake protocol) have "
    "no fair-termination theorem (pure data path, C01/C02); their no-deadlock / never-blocks theorems are chan_busy_* and ring_busy_*",
    "abq_balanced_scripts_never_stuck / dbuf_balanced_scripts_never_stuck: with balanced scripts the 'somebody finished early' "
    "end states are unreachable (counting invariant over the remaining script lengths); the analogous statement for the two "
    "channel models and the ring (reader asks for exactly the number of accepted messages => never blocked at the end) is NOT "
    "proved: it is equivalent to 'reads done = writes done whenever the cursor test says empty', i.e. the exactly-once data-path "
    "invariant of C01/C02 (unread count modulo capacity, the writer's stale read-cursor register under the write lock, no "
    "lapping), which these protocol models deliberately do not carry -- their theorems end in the legitimate state 'reader asleep on an empty conduit, writers finished'; liveness "
    "under a fair scheduler is stated only in its safety form",
    "observation (C01 territory, not a lost wake-up): a channel of capacity 1 or 2 refuses every write (wpos == rpos from "
    "the start), so its reader waits for ever by construction; C03 scenarios use capacity >= 3",
]


FUTEX_C = "muggle/c/sync/sync_obj_futex.c"
KREAL = ["-Dmuggle_futex=kreal_muggle_futex", "-Dmuggle_sync_wait=kreal_muggle_sync_wait",
         "-Dmuggle_sync_wake_one=kreal_muggle_sync_wake_one", "-Dmuggle_sync_wake_all=kreal_muggle_sync_wake_all"]


def _plain_flags():
    return ["-std=gnu11", "-O1", "-g", "-I" + V.REPO, "-I" + V.GEN_INC, "-I" + os.path.join(V.VERIF, "harness")]


def _kreal_obj():
    """The UNMODIFIED repository file sync_obj_futex.c with its four functions renamed kreal_* (so that it can
    live next to the scheduler's replacements): the object the kfutex scenarios run on the real kernel."""
    V.gen_config_header()
    hh = V.headers_hash([os.path.join(V.VERIF, "harness")])
    return V.compile_obj(os.path.join(V.REPO, FUTEX_C), _plain_flags() + V.SAN_FLAGS + KREAL, hh)


def build_impl(ctx):
    kobj = _kreal_obj()
    kw = dict(extra_c=["harness/drivers/c03_kfutex.c"], link_flags=[kobj])
    try:
        return V.build_vsched_driver(ID, C_DRIVER, REPO_SOURCES, **kw)
    except RuntimeError as e:
        # The driver names the queue's mutex / condition variables through the documented struct
        # fields.  If those fields are gone (e.g. two condition variables merged into one) the driver
        # does not compile; rebuild it naming the synchronisation objects by their offset inside the
        # object instead, so that the scenarios still run under the scheduler: the deadlock detector
        # and the monitor do not depend on the names (trace acceptance will then reject, which is
        # reported after the monitor's findings).
        if "c03_driver.c" not in str(e):
            raise
        ctx.notes.append("c03_driver.c did not compile against the documented struct fields; rebuilt with "
                         "-DC03_NAMES_BY_OFFSET: " + str(e).strip().split("\n")[-1][:200])
        return V.build_vsched_driver(ID, C_DRIVER, REPO_SOURCES, extra_flags=["-DC03_NAMES_BY_OFFSET"], **kw)


# ---------------------------------------------------------------------------
# source obligation for sync_obj_futex.c (replaced by the scheduler in every scheduled run)

def _obs_record(fields):
    return ("{| o_in_val := %(in_val)s; o_in_tmo_null := %(in_tmo_null)s; o_nr := %(nr)s; o_addr_ok := %(addr_ok)s; "
            "o_op := %(op)s; o_val := %(val)s; o_tmo := %(tmo)s |}" % fields)


def gen_params(ctx):
    """What muggle_sync_wait / wake_one / wake_all hand to syscall(): the unmodified sync_obj_futex.c is compiled
    with the token `syscall` renamed to a recording stub (that translation unit only), linked with
    harness/drivers/c03_futex_probe.c and run.  Observation by execution: any rewrite that passes the same
    arguments to the kernel gives the same record.  A failure to compile / run / parse yields a record that does
    not satisfy futex_calls_ok (the obligation breaks; never a silent default)."""
    notes, lines = [], []
    try:
        V.gen_config_header()
        hh = V.headers_hash([os.path.join(V.VERIF, "harness")])
        o1 = V.compile_obj(os.path.join(V.REPO, FUTEX_C), _plain_flags() + ["-Dsyscall=c03_probe_syscall"], hh)
        o2 = V.compile_obj(os.path.join(V.VERIF, "harness/drivers/c03_futex_probe.c"), _plain_flags(), hh)
        outdir = os.path.join(V.BUILD, ID)
        os.makedirs(outdir, exist_ok=True)
        exe = os.path.join(outdir, "futex_probe")
        rc, out, err = V.sh([V.CC, o1, o2, "-o", exe], timeout=120)
        if rc != 0:
            raise RuntimeError("link failed: " + err[-300:])
        rc, out, err = V.sh([exe], timeout=20)
        if rc != 0:
            raise RuntimeError("probe exit %d: %s" % (rc, err[-300:]))
        lines = [l for l in out.split("\n") if l.strip()]
    except Exception as e:
        notes.append("(* probe failed: %s *)" % str(e).replace("*)", "* )")[:300])
    obs = {"wait": [], "wake_one": [], "wake_all": []}
    hdr = None
    for ln in lines:
        w = ln.split()
        kv = dict(x.split("=", 1) for x in w[1:] if "=" in x)
        try:
            if w[0] == "hdr":
                hdr = {k: int(v) for k, v in kv.items()}
            elif w[0] in obs:
                one = int(kv["calls"]) == 1 and kv["uaddr2_null"] == "1" and int(kv["val3"]) == 0
                obs[w[0]].append(_obs_record({
                    "in_val": "(%d)" % int(kv["in_val"]), "in_tmo_null": "true" if kv["in_tmo_null"] == "1" else "false",
                    # more / fewer than one kernel call per library call, or stray trailing arguments: not the futex call
                    "nr": "(%d)" % (int(kv["nr"]) if one else -1), "addr_ok": "true" if kv["addr_ok"] == "1" else "false",
                    "op": "(%d)" % int(kv["op"]), "val": "(%d)" % int(kv["val"]),
                    "tmo": {"passed": "TPassed", "null": "TNull"}.get(kv["tmo"], "TOther")}))
                if not one:
                    notes.append("(* %s: calls=%s uaddr2_null=%s val3=%s *)" % (w[0], kv["calls"], kv["uaddr2_null"], kv["val3"]))
        except Exception as e:
            notes.append("(* unparsable probe line %r: %s *)" % (ln[:120], e))
    if hdr is None or set(hdr) != {"SYS_futex", "FUTEX_WAIT", "FUTEX_WAKE", "FUTEX_PRIVATE_FLAG", "INT_MAX"}:
        notes.append("(* platform constants not reported *)")
        hdr = {"SYS_futex": -1, "FUTEX_WAIT": -1, "FUTEX_WAKE": -1, "FUTEX_PRIVATE_FLAG": -1, "INT_MAX": -1}
    txt = ("(* generated by lib/props/c03.py from what muggle/c/sync/sync_obj_futex.c (unmodified, `syscall` renamed to a\n"
           "   recording stub) was observed to hand to the kernel on this run, and the platform constants as the\n"
           "   compiler sees them; do not edit *)\n"
           "From MV Require Import C03.Futex.\nLocal Open Scope Z_scope.\n" + "\n".join(notes) + ("\n" if notes else "") +
           "Definition code_futex : futex_obs :=\n  {| fo_wait := [%s];\n     fo_wake_one := [%s];\n     fo_wake_all := [%s];\n"
           "     hdr_SYS_futex := (%d); hdr_FUTEX_WAIT := (%d); hdr_FUTEX_WAKE := (%d); hdr_FUTEX_PRIVATE_FLAG := (%d); hdr_INT_MAX := (%d) |}.\n" % (
               ";\n        ".join(obs["wait"]), ";\n        ".join(obs["wake_one"]), ";\n        ".join(obs["wake_all"]),
               hdr["SYS_futex"], hdr["FUTEX_WAIT"], hdr["FUTEX_WAKE"], hdr["FUTEX_PRIVATE_FLAG"], hdr["INT_MAX"]))
    return txt


# ---------------------------------------------------------------------------
# scenarios

def _mk(name, scen_line, sched):
    return V.Case(name, [scen_line, "sched " + sched], {"scen": scen_line})


def _split(total, parts, rng):
    """total split into `parts` positive integers (parts <= total)."""
    cuts = sorted(rng.shuffle(list(range(1, total)))[:parts - 1])
    out, prev = [], 0
    for c in cuts + [total]:
        out.append(c - prev)
        prev = c
    return out


def _scenario(rng, kind):
    if kind in ("chanf", "chanm", "chanb"):
        cap = rng.choice([3, 4, 4, 8, 8, 16, 32])
        wl = rng.choice(["mutex", "mutex", "single", "spin", "sync", "sync"])
        nw = 1 if wl == "single" else rng.range(1, 3)
        # capacity 8 / 16 / 32: scripts long enough for a backlog of more than capacity/2 messages (a writer
        # that looks at the backlog -- through its possibly stale copy of read_cursor -- sees 4.. / 8.. / 16..)
        if cap >= 16:
            tot = rng.range(cap // 2 + 1, cap - 3)
            ks = [tot] if nw == 1 else _split(tot, nw, rng)
        else:
            ks = [rng.range(1, 4) for _ in range(nw)] if cap != 8 else [rng.range(2, 6 if nw == 1 else 3) for _ in range(nw)]
        return "%s %d %s R %d W %s" % (kind, cap, wl, sum(ks), " ".join(map(str, ks)))
    if kind == "ring":
        md = rng.choice(["wait", "wait", "single", "once", "busy"])
        cap = rng.choice([2, 4, 4, 8])
        wl = rng.choice(["lock", "lock", "single"])
        nw = 1 if wl == "single" else rng.range(1, 3)
        total = rng.range(nw, max(nw, cap - 1)) if cap - 1 >= nw else None
        if total is None:
            nw, wl, total = 1, "single", 1
        ks = _split(total, nw, rng)
        if md == "single":
            rs = [rng.range(1, total)]
        elif md in ("wait", "busy"):
            rs = [rng.range(1, total) for _ in range(rng.range(1, 2))]
        else:
            nrd = rng.range(1, min(2, total))
            rs = _split(total, nrd, rng)
        return "ring %s %d %s R %s W %s" % (md, cap, wl, " ".join(map(str, rs)), " ".join(map(str, ks)))
    if kind == "abq":
        if rng.chance(1, 2):
            # tight queues: more threads on one side than slots, scripts long enough that producers
            # asleep on a full queue and consumers asleep on an empty one coexist
            cap = rng.range(1, 2)
            nc, np_ = rng.range(1, 2), rng.range(2, 3)
            total = rng.range(max(nc, np_) + 1, max(nc, np_) + 5)
        else:
            cap = rng.range(1, 4)
            nc, np_ = rng.range(1, 2), rng.range(1, 3)
            total = rng.range(max(nc, np_), max(nc, np_) + 4)
        return "abq %d R %s W %s" % (cap, " ".join(map(str, _split(total, nc, rng))), " ".join(map(str, _split(total, np_, rng))))
    if kind == "dbuf":
        cap = rng.range(1, 4)
        nw = rng.range(1, 3)
        ks = [rng.range(1, 3) for _ in range(nw)]
        return "dbuf %d R %d W %s" % (cap, sum(ks), " ".join(map(str, ks)))
    if kind == "dbufn":
        # non-blocking double buffer: small capacity and scripts longer than the capacity, so that
        # writers do run into a full back buffer (MUGGLE_ERR_FULL), yield and retry after the read
        cap = rng.range(1, 3)
        nw = rng.range(1, 3)
        ks = [rng.range(1, 4) for _ in range(nw)]
        if sum(ks) <= cap:
            ks[0] += cap
        return "dbufn %d R %d W %s" % (cap, sum(ks), " ".join(map(str, ks)))
    return "slock %d %d" % (rng.range(2, 4), rng.range(1, 2))


def _kfutex_script(rng):
    """real-kernel script: sleepers on the current / another value, wake_one / wake_all with and without
    sleepers, value changes; at most 8 sleepers"""
    toks, word, ns = [], 0, 0
    for _ in range(rng.range(2, 9)):
        c = rng.below(10)
        if c < 5 and ns < 8:
            toks.append("s%d" % (word if rng.chance(3, 4) else word + 1 + rng.below(3)))
            ns += 1
        elif c < 7:
            toks.append("w1")
        elif c < 9:
            toks.append("wa")
        else:
            word = rng.below(5)
            toks.append("v%d" % word)
    return "kfutex " + " ".join(toks)


KFUTEX_CORPUS = ["s0 w1", "s5", "s0 s0 s0 w1 wa", "w1 wa s0 v3 s0 s3 wa", "s0 s0 v1 w1 w1 w1", "s0 s0 s0 s0 wa w1",
                 "v7 s7 s7 w1 v2 s7 s2 wa wa"]

KINDS = ["chanf", "abq", "ring", "dbuf", "chanm", "slock", "dbufn", "chanb"]

# fixed scenarios used for the model-guided schedules (sleeper parked between check and sleep)
GUIDED = [
    "chanf 4 single R 2 W 2", "chanf 4 mutex R 3 W 2 1", "chanf 4 mutex R 6 W 2 2 2", "chanf 8 mutex R 4 W 2 2",
    "chanf 8 single R 5 W 5", "chanf 8 single R 6 W 6", "chanf 8 mutex R 6 W 3 3", "chanf 8 mutex R 5 W 5",
    "chanf 8 single R 5 W 5", "chanf 8 mutex R 6 W 6", "chanf 8 single R 4 W 4",
    # capacity 16 / 32: the backlog reaches 8+ / 16+ while a producer sits between its load of read_cursor
    # and its wake call; the consumer then drains everything and goes to sleep inside that window
    "chanf 16 single R 14 W 14", "chanf 16 mutex R 14 W 7 7", "chanf 16 sync R 13 W 7 6", "chanf 16 spin R 13 W 13",
    "chanf 32 single R 28 W 28", "chanf 32 mutex R 30 W 15 15", "chanf 32 sync R 26 W 26", "chanm 16 mutex R 10 W 5 5",
    "chanm 4 single R 2 W 2", "chanm 4 mutex R 3 W 2 1", "chanm 4 mutex R 5 W 2 2 1",
    "chanf 4 spin R 4 W 2 2", "chanf 4 sync R 4 W 2 2", "chanf 4 sync R 5 W 2 2 1", "chanf 8 sync R 6 W 3 3",
    "chanm 4 spin R 4 W 3 1", "chanm 4 sync R 4 W 2 2", "chanm 4 sync R 6 W 2 2 2",
    # busy-loop (spin-based) reader under every writer-lock kind
    "chanb 4 single R 3 W 3", "chanb 4 mutex R 4 W 2 2", "chanb 4 spin R 4 W 2 2", "chanb 4 sync R 5 W 2 2 1", "chanb 8 sync R 7 W 4 3",
    "ring wait 4 single R 3 W 3", "ring wait 4 lock R 3 2 W 2 1", "ring single 4 lock R 3 W 1 2", "ring once 4 lock R 2 1 W 2 1",
    "ring wait 8 lock R 5 5 W 2 2 1", "ring busy 4 lock R 3 2 W 2 1", "ring busy 4 single R 3 W 3",
    "abq 1 R 2 W 1 1", "abq 1 R 2 2 W 2 1 1", "abq 2 R 3 W 1 1 1", "abq 2 R 2 2 W 4", "abq 3 R 4 W 2 2",
    "dbuf 1 R 2 W 1 1", "dbuf 1 R 3 W 1 1 1", "dbuf 2 R 4 W 2 2", "dbuf 2 R 5 W 2 2 1",
    "dbufn 1 R 2 W 2", "dbufn 1 R 3 W 2 1", "dbufn 2 R 5 W 3 2", "dbufn 2 R 6 W 2 2 2",
    "slock 2 2", "slock 3 1", "slock 4 1",
]


# WRAPPING rings (more messages than slots): only under model-guided THROTTLED schedules (explore window 200),
# in which a writer begins a write only while nobody can be lapped -- the documented usage; a free-running
# schedule would lap the readers, which is outside the property
GUIDED_WRAP = [
    "ring wait 4 lock R 9 9 W 5 4", "ring wait 2 lock R 5 W 3 2", "ring wait 8 single R 20 W 20", "ring wait 4 single R 11 7 W 11",
    "ring single 2 single R 6 W 6", "ring single 4 lock R 10 W 4 3 3",
    "ring once 4 lock R 5 4 W 3 3 3", "ring once 2 single R 3 3 W 6",
    "ring busy 4 lock R 10 W 5 5", "ring busy 2 single R 5 5 W 5",
]


def corpus_cases(ctx):
    import glob
    import os
    cases = []
    for f in sorted(glob.glob(os.path.join(V.VERIF, "corpus", ID, "*.case"))):
        c = V.Case.load(f)
        c.meta["scen"] = c.lines[0]
        cases.append(c)
    # the real kernel futex through the unmodified sync_obj_futex.c (no scheduler)
    for i, sc in enumerate(KFUTEX_CORPUS):
        cases.append(V.Case("kfutex-fixed-%d" % i, ["kfutex " + sc], {"scen": "kfutex " + sc}))
    # model-guided schedules: ask the extracted model for schedules that park a sleeper between
    # its check and its sleep while the waker runs; replay them on the implementation
    runs = 6 if ctx.tier == "quick" else 40
    ex = []
    for i, scen in enumerate(GUIDED):
        for win in (3, 8):
            ex.append(V.Case("explore-%d-%d" % (i, win), [scen, "explore %d %d %d" % (ctx.seed * 1000 + i, runs, win)]))
        w = scen.split()
        if w[0] == "chanf" and int(w[1]) >= 8:
            # backlog schedules (window 100 + T): T unread messages when a producer loads read_cursor, the consumer
            # drains them all and sleeps before that producer publishes and wakes; T around capacity/2, 3/4 capacity
            cap = int(w[1])
            total = sum(int(x) for x in w[w.index("W") + 1:])
            for T in sorted(set(t for t in (cap // 2, cap // 2 + 1, 3 * cap // 4, cap - 3) if 0 < t < total)):
                ex.append(V.Case("explore-%d-%d" % (i, 100 + T),
                                 [scen, "explore %d %d %d" % (ctx.seed * 1000 + i, 2 if ctx.tier == "quick" else 10, 100 + T)]))
    for i, scen in enumerate(GUIDED_WRAP):
        ex.append(V.Case("explore-w%d-200" % i, [scen, "explore %d %d 200" % (ctx.seed * 1000 + 500 + i, 8 if ctx.tier == "quick" else 60)]))
    res = ctx.run_model(ex) if getattr(ctx, "model", None) else {}
    for c in ex:
        r = res.get(c.name)
        if not r:
            continue
        for j, ln in enumerate(r["lines"]):
            if ln.startswith("modelsched "):
                cases.append(_mk("guided-%s-%d" % (c.name[8:], j), c.lines[0], "list " + ln[len("modelsched "):]))
    return cases


def generate(rng, tier):
    cases = []
    rk = rng.fork("kfutex")
    for i in range(40 if tier == "quick" else 400):
        sc = _kfutex_script(rk)
        cases.append(V.Case("kfutex-%d" % i, [sc], {"scen": sc}))
    per_kind = 450 if tier == "quick" else 6000
    for kind in KINDS:
        r = rng.fork(kind)
        # the two channel families are spread over four writer-lock kinds
        for i in range(per_kind * 3 // 2 if kind in ("chanf", "chanm") else per_kind * 2 // 3 if kind == "chanb" else per_kind):
            scen = _scenario(r, kind)
            stick = r.choice([20, 50, 80])
            synclk = kind in ("chanf", "chanm", "chanb") and scen.split()[2] == "sync"
            # weak compare-exchange may fail spuriously: synclock (alone, or as the channel's writer lock)
            spur = r.choice([0, 30]) if kind == "slock" or synclk else 0
            cvspur = r.choice([0, 20, 40]) if kind in ("abq", "dbuf", "dbufn", "chanm") else 0
            # futex waits that would block may return early (EINTR / spurious): channel futex reader, ring,
            # writers waiting on the channel's synclock word
            fsp, fwk = (r.choice([(0, 0), (0, 0), (30, 0), (0, 30), (20, 20)]) if kind in ("chanf", "ring") or synclk else (0, 0))
            cases.append(_mk("%s-%d" % (kind, i), scen, "rand %d %d %d %d %d %d" % (
                r.below(1 << 30), stick, spur, cvspur, fsp, fwk)))
    return cases


def search(rng, diverging, tier):
    out = []
    for i in range(4000):
        kind = rng.choice(KINDS)
        scen = _scenario(rng, kind)
        synclk = kind in ("chanf", "chanm", "chanb") and scen.split()[2] == "sync"
        fsp, fwk = (rng.choice([(0, 0), (30, 0), (0, 30), (20, 20)]) if kind in ("chanf", "ring") or synclk else (0, 0))
        out.append(_mk("search-%s-%d" % (kind, i), scen, "rand %d %d %d %d %d %d" % (
            rng.below(1 << 30), rng.choice([10, 30, 50, 80]), rng.choice([0, 30]) if kind == "slock" or synclk else 0,
            rng.choice([0, 20, 50]) if kind in ("abq", "dbuf", "dbufn", "chanm") else 0, fsp, fwk)))
    return out


def model_cases(cases, impl_results):
    out = []
    for c in cases:
        r = impl_results.get(c.name)
        lines = list(c.lines) + ["TRACE"] + (list(r["lines"]) if r else [])
        out.append(V.Case(c.name, lines, c.meta))
    return out


# ---------------------------------------------------------------------------
# independent monitor (does not use the Coq model): works on the trace order only

def _parse_scen(words):
    kind = words[0]
    if kind == "slock":
        return kind, int(words[1]), [], []
    i = words.index("R")
    j = words.index("W")
    r = [int(x) for x in words[i + 1:j]]
    w = [int(x) for x in words[j + 1:]]
    return kind, len(r) + len(w), r, w


def _mon_kfutex(toks, lines):
    """Oracle of futex-as-used-by-the-conduits on the real kernel run: a wait on a value that differs returns at
    once (-1 / EAGAIN); a wait on the current value sleeps; wake_one wakes exactly one sleeper if there is one,
    wake_all every sleeper; a wake without sleepers wakes nobody and leaves no token behind; nobody is left
    asleep behind a wake_all.  Independent of the Coq model (own bookkeeping)."""
    k = [ln for ln in lines if ln.startswith("K ")]
    if any(ln.startswith("K inconclusive") for ln in k):
        return None          # harness error (reported through the tally / a note), never a finding
    word, asleep, i = 0, 0, 0
    for tk in toks:
        if i >= len(k):
            return "real-kernel futex run stopped before script step %r" % tk
        ln = k[i]
        i += 1
        if tk[0] == "s":
            v = int(tk[1:])
            if v == word:
                if not ln.endswith(" asleep"):
                    return ("muggle_sync_wait(&word, %d) with *word == %d did not sleep: %s (real kernel, unmodified "
                            "sync_obj_futex.c)" % (v, word, ln))
                asleep += 1
            elif "returned rc=-1 errno=11" not in ln:
                return ("muggle_sync_wait(&word, %d) with *word == %d must return at once with EAGAIN (compare-and-block), "
                        "got: %s" % (v, word, ln))
        elif tk in ("w1", "wa"):
            m = re.match(r"K w[1a] woke=(-?\d+) resumed=(-?\d+)$", ln)
            want = min(1, asleep) if tk == "w1" else asleep
            if not m or int(m.group(1)) != want or int(m.group(2)) != want:
                return ("muggle_sync_%s with %d thread(s) asleep in muggle_sync_wait on the same word must wake %d: %s "
                        "(real kernel, unmodified sync_obj_futex.c)" % ("wake_one" if tk == "w1" else "wake_all", asleep, want, ln))
            asleep -= want
        elif tk[0] == "v":
            word = int(tk[1:])
    if i >= len(k) or k[i] != "K end asleep=%d" % asleep:
        return "real-kernel futex run ends with %r, expected %d sleeper(s) left" % (k[i] if i < len(k) else None, asleep)
    return None


def monitor(case, lines):
    words = case.lines[0].split()
    if words[0] == "kfutex":
        return _mon_kfutex(words[1:], lines)
    kind, nthreads, rs, ws = _parse_scen(words)
    # lock discipline first (its message names the cause of the deadlock that usually follows)
    msg = _mon_locks(lines)
    if msg:
        return msg
    for ln in lines:
        if ln.startswith("DEADLOCK") or ln.startswith("LIVELOCK"):
            return "scheduler reported %s (every unfinished thread asleep / no progress while messages remain)" % ln
        if ln.startswith("F badcase"):
            return "driver rejected the scenario"
    # every script finishes
    exited = set(ln.split()[1] for ln in lines if ln.startswith("X "))
    if len(exited) != nthreads:
        return "only %d of %d threads finished their script" % (len(exited), nthreads)
    # every blocked thread was resumed by a wake-up that came after it went to sleep
    msg = _mon_resumed(lines)
    if msg:
        return msg
    f = [ln for ln in lines if ln.startswith("F ")]
    if not f or not f[-1].startswith("F status=0"):
        return "bad summary %r" % (f[-1] if f else None)
    if kind in ("chanf", "chanm", "chanb"):
        return _mon_chan(kind, words, rs, ws, lines, f[-1])
    if kind == "ring":
        return _mon_ring(words, rs, ws, lines)
    if kind == "abq":
        return _mon_abq(int(words[1]), rs, ws, lines, f[-1])
    if kind in ("dbuf", "dbufn"):
        return _mon_dbuf(int(words[1]), rs, ws, lines, f[-1], kind == "dbufn")
    return _mon_slock(int(words[1]), int(words[2]), lines, f[-1])


def _mon_locks(lines):
    """Every return path of a call releases what the call acquired.  Mutex ownership is followed through
    the trace (mlock / successful mtry acquire; munlock releases; a condition wait releases the mutex the
    thread holds and its cvwoke re-acquires it).  A driver note `R t ...` is printed by CLIENT code after
    its library call has returned, and `X t` is the end of the thread: at both, thread t must not own any
    mutex.  Also: no mutex is acquired while owned, none is unlocked by a thread that does not own it."""
    owner = {}           # mutex cell / lock word "wl" -> tid
    waitm = {}           # tid -> mutexes released by its condition wait
    for ln in lines:
        w = ln.split()
        if not w:
            continue
        if w[0] == "E":
            t, op, cell = w[1], w[2], w[3]
            if cell == "wl" and op in ("tas", "casw", "cass", "clear", "store"):
                # the channel's writer lock word (spinlock: tas a = previous value / clear; synclock:
                # compare-exchange c = 1 success / store 0)
                if (op == "tas" and w[5] == "0") or (op in ("casw", "cass") and w[7] == "1"):
                    if cell in owner:
                        return "thread %s acquired the writer lock word while thread %s holds it" % (t, owner[cell])
                    owner[cell] = t
                elif op == "clear" or (op == "store" and w[5] == "0"):
                    if owner.get(cell) != t:
                        return "thread %s releases the writer lock word which it does not hold (holder: %s)" % (t, owner.get(cell, "nobody"))
                    del owner[cell]
                continue
            if op == "mlock" or (op == "mtry" and w[5] == "1"):
                if cell in owner:
                    return "thread %s acquired mutex %s while thread %s owns it" % (t, cell, owner[cell])
                owner[cell] = t
            elif op == "munlock":
                if owner.get(cell) != t:
                    return "thread %s unlocks mutex %s which it does not own (owner: %s)" % (t, cell, owner.get(cell, "nobody"))
                del owner[cell]
            elif op == "cvwait":
                held = [m for m, u in owner.items() if u == t]
                if not held:
                    return "thread %s waits on condition variable %s without holding a mutex" % (t, cell)
                waitm[t] = held
                for m in held:
                    del owner[m]
            elif op == "cvwoke" and t in waitm:
                for m in waitm.pop(t):
                    if m in owner:
                        return "thread %s returned from its condition wait while thread %s owns mutex %s" % (t, owner[m], m)
                    owner[m] = t
        elif w[0] in ("R", "X"):
            held = sorted(m for m, u in owner.items() if u == w[1])
            if held:
                return ("thread %s %s still holding %s: a return path of the call did not release it "
                        "(every later lock of it blocks for ever)" % (
                            w[1], "finished" if w[0] == "X" else "is back in client code (note %r)" % " ".join(w[2:]),
                            ",".join("the writer lock word" if m == "wl" else "mutex " + m for m in held)))
    return None


def _mon_resumed(lines):
    """asleep[t] = (kind, object, line index, stores to the word so far).  A futex sleeper must be woken
    by a later fwake on the same word that reports a woken thread; a condvar sleeper by a later
    cvsig/cvall naming it (or an explicit spurious wake-up line); the thread must then continue.  A
    completed write to the futex word while a thread sleeps on it must be followed by a wake-up of that
    thread (a LATE wake-up -- the waker's store preceded the sleep -- is legitimate and not flagged)."""
    asleep = {}
    woken = {}
    stores = {}          # cell -> number of completed stores so far (trace order)
    owes = {}            # tid -> (cell, sleeper): it stored to a futex word on which `sleeper` was asleep
    for i, ln in enumerate(lines):
        w = ln.split()
        if not w:
            continue
        if w[0] == "X" and w[1] in owes:
            return ("thread %s finished without a wake-up call after its write to %s, on which thread %s was asleep "
                    "(a blocked consumer is resumed by the NEXT completed write)" % (w[1], owes[w[1]][0], owes[w[1]][1]))
        if w[0] == "E":
            t, op, cell = w[1], w[2], w[3]
            if op == "store":
                # resumed by the NEXT completed write: a plain store to a futex word on which somebody is asleep
                # obliges the storer to call wake on that word before it stores to it again or finishes
                if t in owes and owes[t][0] == cell:
                    return ("thread %s wrote to %s again without having called wake after its previous write, during which "
                            "thread %s was asleep on it (a blocked consumer is resumed by the NEXT completed write)" % (
                                t, cell, owes[t][1]))
                sl = sorted(u for u in asleep if asleep[u][0] == "futex" and asleep[u][1] == cell)
                if sl:
                    owes[t] = (cell, sl[0])
            elif op == "fwake" and t in owes and owes[t][0] == cell:
                del owes[t]
            if op in ("store", "clear", "xchg", "cass", "casw", "fadd", "fsub"):
                stores[cell] = stores.get(cell, 0) + 1
            if t in asleep and not (op == "cvwoke" and asleep[t][0] == "cv"):
                return "thread %s acts (%s) while asleep on %s without a wake-up" % (t, ln, asleep[t][1])
            if op == "cvwoke":
                if t in asleep and t not in woken:
                    return "thread %s returned from its condition wait on %s without any notify or spurious wake-up" % (t, cell)
                asleep.pop(t, None)
                woken.pop(t, None)
            elif op == "fwait" and w[7] == "1":
                asleep[t] = ("futex", cell, i, stores.get(cell, 0))
            elif op == "cvwait":
                asleep[t] = ("cv", cell, i)
            elif op == "fwake" and int(w[6]) > 0:
                k = int(w[6])
                for u in sorted(asleep, key=int):
                    if k > 0 and asleep[u][0] == "futex" and asleep[u][1] == cell:
                        del asleep[u]
                        k -= 1
                if k > 0:
                    return "fwake on %s reports more woken threads than were asleep" % cell
            elif op in ("cvsig", "cvall") and int(w[5]) > 0:
                if op == "cvall":
                    for u in list(asleep):
                        if asleep[u][0] == "cv" and asleep[u][1] == cell:
                            woken[u] = i
                else:
                    u = w[6]
                    if u not in asleep or asleep[u][1] != cell:
                        return "notify on %s names thread %s which is not waiting there" % (cell, u)
                    woken[u] = i
        elif w[0] == "W":
            if w[1] in asleep:
                woken[w[1]] = i
        elif w[0] in ("P", "X"):
            if w[1] in asleep:
                return "thread %s runs while asleep on %s" % (w[1], asleep[w[1]][1])
    if asleep:
        t = sorted(asleep)[0]
        extra = ""
        if asleep[t][0] == "futex" and stores.get(asleep[t][1], 0) > asleep[t][3]:
            extra = "; a write to %s completed after it went to sleep and was never followed by a wake-up" % asleep[t][1]
        return "thread %s is still asleep on %s at the end of the run (never resumed)%s" % (t, asleep[t][1], extra)
    return None


def _vals(lines, word):
    out = {}
    for ln in lines:
        w = ln.split()
        if w[0] == "R" and w[2] == word:
            out.setdefault(w[1], []).append(int(w[3]))
    return out


def _fifo_per_writer(seq):
    nxt = {}
    for v in seq:
        if v <= 0:
            return "a reader obtained the invalid value %d (read from an empty / unwritten slot)" % v
        wtr, j = v // 1000, v % 1000
        if j != nxt.get(wtr, 1):
            return "value %d delivered out of order or twice (expected message %d of writer %d)" % (v, nxt.get(wtr, 1), wtr)
        nxt[wtr] = j + 1
    return None


def _mon_chan(kind, words, rs, ws, lines, fline):
    reads = _vals(lines, "read").get("0", [])
    if len(reads) != rs[0]:
        return "reader finished with %d of %d messages" % (len(reads), rs[0])
    msg = _fifo_per_writer(reads)
    if msg:
        return msg
    # a message may only be read after the write that published it completed (trace order)
    published = 0
    taken = 0
    for ln in lines:
        w = ln.split()
        if w[0] != "E":
            continue
        if kind in ("chanf", "chanb"):
            if w[2] == "store" and w[3] == "wcur":
                published += 1
            elif w[2] == "store" and w[3] == "rcur":
                taken += 1
                if taken > published:
                    return "reader consumed message %d before it was published" % taken
    if sum(ws) != rs[0]:
        return None
    m = re.match(r"F status=0 wcur=(\d+) rcur=(\d+)", fline)
    cap = 1
    while cap < int(words[1]):
        cap *= 2
    if not m or (int(m.group(2)) + 1) % cap != int(m.group(1)):
        return "channel not empty at the end although every message was read: %s" % fline
    return None


def _mon_ring(words, rs, ws, lines):
    md = words[1]
    per = _vals(lines, "read")
    total = []
    for t in range(len(rs)):
        seq = per.get(str(t), [])
        if len(seq) != rs[t]:
            return "reader %d finished with %d of %d messages" % (t, len(seq), rs[t])
        if any(v <= 0 for v in seq):
            return "reader %d obtained an invalid value (slot read before it was written)" % t
        if md != "once":
            msg = _fifo_per_writer(seq)
            if msg:
                return "reader %d: %s" % (t, msg)
        total += seq
    if md == "once" and len(set(total)) != len(total):
        return "read-once ring delivered a message twice"
    if md != "once":
        seqs = [per.get(str(t), []) for t in range(len(rs))]
        for a in seqs:
            for b in seqs:
                k = min(len(a), len(b))
                if a[:k] != b[:k]:
                    return "two readers saw different message orders"
    return None


def _mon_abq(cap, rs, ws, lines, fline):
    # every completed put / take ends with the thread's munlock (a cond_wait releases the mutex
    # without one); consumers are the threads with id < len(rs).  Independent of the notify calls.
    cnt = 0
    nc = len(rs)
    for ln in lines:
        w = ln.split()
        if w[0] == "E" and w[2] == "munlock":
            if int(w[1]) >= nc:
                cnt += 1
                if cnt > cap:
                    return "put into a full queue (count %d > capacity %d) by thread %s" % (cnt, cap, w[1])
            else:
                cnt -= 1
                if cnt < 0:
                    return "take from an empty queue by thread %s" % w[1]
    took = sorted(v for t, vs in _vals(lines, "took").items() for v in vs)
    put = sorted(v for t, vs in _vals(lines, "put").items() for v in vs)
    if took != put:
        return "items taken differ from items put: took %s put %s" % (took[:8], put[:8])
    if len(put) != sum(ws):
        return "%d of %d puts completed" % (len(put), sum(ws))
    if "cnt=%d" % (sum(ws) - sum(rs)) not in fline:
        return "final count differs from puts - takes: %s" % fline
    return None


def _mon_dbuf(cap, rs, ws, lines, fline, nb=False):
    # the reader is thread 0; each completed write / read ends with that thread's munlock.  A writer's
    # munlock is the end of an accepted write or (non-blocking mode) of a refused one; which one is told
    # by the client's next note ("wrote" / "full"), printed after the call returned.
    refused = set()
    last = {}
    for i, ln in enumerate(lines):
        w = ln.split()
        if w[0] == "E" and w[2] == "munlock" and w[1] != "0":
            last[w[1]] = i
        elif w[0] == "R" and w[1] in last:
            if w[2] == "full":
                refused.add(last[w[1]])
            del last[w[1]]
    back = 0
    swapped = []
    nfull = 0
    for i, ln in enumerate(lines):
        w = ln.split()
        if w[0] == "R" and w[2] == "full":
            nfull += 1
            if not nb:
                return "write to a BLOCKING double buffer was refused (thread %s)" % w[1]
        if w[0] == "E" and w[2] == "cvwait" and w[1] != "0" and nb:
            return "writer %s of a NON-BLOCKING double buffer went to sleep on %s" % (w[1], w[3])
        if w[0] == "E" and w[2] == "munlock":
            if i in refused:
                if back != cap:
                    return "write refused with FULL by thread %s although the back buffer held %d of %d items" % (w[1], back, cap)
            elif w[1] != "0":
                back += 1
                if back > cap:
                    return "write into a full back buffer (count %d > capacity %d) by thread %s" % (back, cap, w[1])
            else:
                if back == 0:
                    return "reader swapped an empty back buffer"
                swapped.append(back)
                back = 0
    got = _vals(lines, "got").get("0", [])
    if got != swapped:
        return "buffer sizes seen by the reader %s differ from the writes completed before each swap %s" % (got[:8], swapped[:8])
    if sum(got) < rs[0]:
        return "reader finished with %d of %d items" % (sum(got), rs[0])
    nwrote = sum(len(v) for v in _vals(lines, "wrote").values())
    if nwrote != sum(ws):
        return "%d of %d writes completed" % (nwrote, sum(ws))
    return None


def _mon_slock(n, it, lines, fline):
    inside = None
    enters = 0
    for ln in lines:
        w = ln.split()
        if w[0] == "R":
            if w[2] == "enter":
                if inside is not None or len(w) > 3:
                    return "two holders at once: thread %s entered while thread %s was inside" % (w[1], inside)
                inside = w[1]
                enters += 1
            elif w[2] == "exit":
                if inside != w[1]:
                    return "exit by thread %s while holder is %s" % (w[1], inside)
                inside = None
    m = re.match(r"F status=0 counter=(\d+) overlaps=(\d+)", fline)
    if not m or int(m.group(2)) != 0 or int(m.group(1)) != n * it or enters != n * it:
        return "lost update or overlap: %s after %d critical sections (expected %d)" % (fline, enters, n * it)
    return None


def nontrivial_key(case, lines):
    if case.lines[0].startswith("kfutex"):
        return hash("\n".join(lines)) if any(ln.endswith(" asleep") for ln in lines) else None
    for ln in lines:
        if ln.startswith("E ") and (" cvwait " in ln or (" fwait " in ln and ln.endswith(" 1"))):
            return hash("\n".join(lines))
    return None


def tally(dist, case, lines):
    scen = case.lines[0].split()
    if scen[0] == "kfutex":
        dist["kfutex_real_kernel_runs"] = dist.get("kfutex_real_kernel_runs", 0) + 1
        for ln in lines:
            if ln.startswith("K inconclusive"):
                dist["kfutex_HARNESS_ERROR_inconclusive_runs"] = dist.get("kfutex_HARNESS_ERROR_inconclusive_runs", 0) + 1
                V.log("HARNESS-ERROR property=C03 real-kernel futex run inconclusive (not a finding): %s :: %s" % (case.lines[0], ln))
            elif ln.endswith(" asleep"):
                dist["kfutex_sleepers_seen_asleep_in_kernel"] = dist.get("kfutex_sleepers_seen_asleep_in_kernel", 0) + 1
            elif ln.startswith("K w") and not ln.startswith("K w1 woke=0") and not ln.startswith("K wa woke=0"):
                dist["kfutex_wakes_with_sleeper"] = dist.get("kfutex_wakes_with_sleeper", 0) + 1
        return
    k = scen[0] + ("-" + scen[1] if scen[0] == "ring" else "") + ("-" + scen[2] if (scen[0] in ("chanf", "chanm") and scen[2] in ("spin", "sync")) or scen[0] == "chanb" else "")
    dist[k] = dist.get(k, 0) + 1
    if scen[0] == "ring":
        i, j = scen.index("R"), scen.index("W")
        cap = 1
        while cap < int(scen[2]):
            cap *= 2
        if sum(int(x) for x in scen[j + 1:]) > cap - 1:
            dist["ring_wrapping_throttled_schedules"] = dist.get("ring_wrapping_throttled_schedules", 0) + 1
    if case.lines[1].startswith("sched list"):
        dist["model_guided_schedules"] = dist.get("model_guided_schedules", 0) + 1
        if case.lines[1].split()[2] != "-":
            dist["model_guided_with_early_futex_return"] = dist.get("model_guided_with_early_futex_return", 0) + 1
    for ln in lines:
        if ln.startswith("E "):
            dist["events"] = dist.get("events", 0) + 1
            if " fwait wl " in ln and ln.endswith(" 1"):
                dist["writers_asleep_on_lock_word"] = dist.get("writers_asleep_on_lock_word", 0) + 1
            if " fwait " in ln:
                key = {"1": "futex_sleeps", "2": "futex_wait_interrupted", "3": "futex_wait_spurious_return"}.get(
                    ln.split()[-1], "futex_wait_value_changed")
                dist[key] = dist.get(key, 0) + 1
            elif " cvwait " in ln:
                dist["condvar_sleeps"] = dist.get("condvar_sleeps", 0) + 1
            elif " fwake " in ln and not ln.endswith(" 0 0"):
                dist["futex_wakes_with_sleeper"] = dist.get("futex_wakes_with_sleeper", 0) + 1
        elif ln.startswith("W "):
            dist["spurious_condvar_wakeups"] = dist.get("spurious_condvar_wakeups", 0) + 1
        elif ln.startswith("R ") and ln.endswith(" full"):
            key = ("dbuf_nonblocking_full_returns" if scen[0] == "dbufn" else
                   "channel_full_returns_%s_lock" % scen[2] if scen[0] in ("chanf", "chanm", "chanb") else "channel_full_returns")
            dist[key] = dist.get(key, 0) + 1


MANIFEST = {
    "level_text": ("Coq theorems over executable interleaving models of the sleep/wake protocols of channel (futex and "
                   "condvar reader; writer lock mutex / none / spinlock / synclock), ring buffer (wait / single-wait / "
                   "read-once), array blocking queue, double buffer (blocking and non-blocking mode) and "
                   "synclock: for every schedule and any number of threads, in every reachable state some thread can run "
                   "or the only unfinished threads are consumers asleep on a genuinely empty conduit with every producer "
                   "finished (resp. producers on a full one with every consumer finished); per-sleeper invariants (futex: "
                   "word = expected or a waker is between its store and its wake; condvar: predicate false or a wake token "
                   "is in flight); every return path (MUGGLE_ERR_FULL included) leaves the conduit's mutexes / lock word released: "
                   "an owner is always a thread inside a call that can run; refutations of the classic broken variants.  Tie: the real code runs under a "
                   "deterministic scheduler (hooked atomics, emulated futex/mutex/condvar with spurious wake-ups), random "
                   "and model-guided schedules, every trace replayed on the extracted model; an independent monitor checks "
                   "no DEADLOCK/LIVELOCK, every script finishes, every sleeper is resumed by a later wake-up, no thread is "
                   "back in client code owning a mutex / the writer lock word, refusals only on a full conduit, counts."),
    "design_ref": "DESIGN.md sections 4.2, 4.3, 6/C03",
    "level_note": ("Safety form of no-lost-wake-up (fairness of the OS scheduler is not modelled).  Trusted: Coq kernel, "
                   "extraction, vsched scheduler and its futex/mutex/condvar semantics."),
    "technique": "Coq invariant proofs over all interleavings (N threads) + deterministic-scheduler trace acceptance by the extracted model + model-guided sleeper/waker window schedules",
}
