"""C03 — no lost wake-up / no deadlock of the blocking conduits: plugin for bin/check."""
import re
import vcommon as V

ID = "C03"
COQ_DIRS = ["C03", "C04"]
MODEL_BASE = "c03_model"
OCAML_DRIVER = "ocaml/c03_driver.ml"
OCAML_INCLUDES = ["ocaml/vsacc.ml.inc"]
C_DRIVER = "harness/drivers/c03_driver.c"
REPO_SOURCES = ["muggle/c/sync/channel.c", "muggle/c/sync/ring_buffer.c", "muggle/c/sync/array_blocking_queue.c",
                "muggle/c/sync/double_buffer.c", "muggle/c/sync/synclock.c", "muggle/c/sync/spinlock.c",
                "muggle/c/sync/mutex.c", "muggle/c/sync/condition_variable.c", "muggle/c/base/thread.c",
                "muggle/c/base/utils.c"]
HEADER_LINES = 2
SHRINK = False          # a case is (scenario, schedule); schedules are not line-shrinkable
CASE_TIMEOUT = 5.0
RULE = ("scenarios (channel futex/condvar reader x write mutex/single x capacity 4/8 x 1..3 producers; ring buffer "
        "wait/single/once x lock/single writer x capacity 2..8; array blocking queue capacity 1..4 x 1..2 consumers x "
        "1..3 producers; double buffer capacity 1..4 x 1..3 writers; synclock 2..4 threads) with message counts that force "
        "both empty and full blocking, run on the real code under the deterministic scheduler with seeded random schedules "
        "(context-switch density 20/50/80 %, spurious condvar wake-ups 0/20/40 %, spurious weak-CAS failures 0/30 %, futex waits "
        "that return early -- EINTR or spurious -- 0/20/30 % for the channel futex reader and the ring) and "
        "with schedules produced by exploring the MODEL that park a sleeper between its check and its sleep while the "
        "waker runs (some of them with early futex returns); every trace replayed on the extracted model; non-trivial = some thread really blocked (futex or "
        "condvar); distinct = distinct trace text")
TRUSTED_BASE = [
    "modelled, not verified: sequentially consistent interleaving of the atomic operations; futex = atomic compare-and-block / "
    "wake (wake_one wakes one waiter, wake_all every waiter), pthread mutex = exclusive ownership, condition variables = Mesa "
    "semantics with spurious wake-ups, as interposed by harness/vsched; fairness of the OS scheduler is not modelled (the "
    "theorems are the safety form of no-lost-wake-up: never 'nobody can run while work remains')",
    "message contents are abstracted away in the C03 models (the data path is C01/C02); cursor / count arithmetic, the order of "
    "check, sleep, store and wake, and the value handed to the futex are transcribed from the code and tied by trace acceptance",
]
ASSUMPTIONS = ["one channel reader; one double-buffer reader; ring buffer: single-wait mode has one reader and writers never "
               "lap a waiting reader (fewer than capacity messages are written while a reader waits); channel capacity >= 3 "
               "(a channel of capacity 1 or 2 refuses every write by construction)"]
EVIDENCE_NOTES = [
    "proved for every schedule and any number of threads (Properties_C03.v): X_no_deadlock and X_no_lost_wakeup for X = "
    "chan_futex, chan_cv, rb, abq, dbuf, synclock; dbuf_notify_one_suffices; two refutation theorems (futex wait on a "
    "re-loaded value; `if` instead of `while`) plus further vm_compute witnesses in C03/Variants.v",
    "futex waits may return early (EINTR / spurious wake-up): schedule choices 2 / 3 of the would-block fwait step of the "
    "channel futex reader and the ring models; all their theorems quantify over them; *_early_return_rechecks and "
    "chan_futex_take_only_after_nonempty_check state that such a return neither gives up nor consumes.  The synclock model "
    "is C04's (imported read-only) and has no such choice, so synclock scenarios run without fspur/fwake (its loop re-tries "
    "the CAS after any return of the wait, which the C04 model takes only from a genuine wake-up or a changed word)",
    "abq_cv_waiters_homogeneous names what the abq counting invariants rely on (waiters of cv_not_full are producers only, of "
    "cv_not_empty consumers only; in the model this is carried by the program points); refuted_single_condition_variable / "
    "abq_single_cv_deadlocks (C03/Variants.v) show the merged-condition-variable variant deadlocking (capacity 1, two "
    "producers, one consumer).  If the queue / double-buffer struct loses the documented fields the driver is rebuilt with "
    "-DC03_NAMES_BY_OFFSET (objects named by offset) so that the scenarios still run and the deadlock detector still applies",
    "'empty' / 'full' in the theorems are the code's own tests (write_cursor = IDX(read_cursor+1); cursor = reader position; "
    "cnt = 0 / capacity; back->cnt = 0).  That the ring's test means 'no unread message' needs the documented no-lapping "
    "usage and is the data-path invariant of C02 (Example ring_lapped_reader_sleeps shows a lapped reader going to sleep)",
    "FAIR SCHEDULES (rounds scheduling every thread at least once, scheme of coq/C14/ProofsFair.v, generic argument in "
    "C03/FairGen.v): chan_no_lost_wakeup_fair (channel with futex reader, capacity 2^k >= 4, any number of writers behind the "
    "write mutex, balanced scripts, unboundedly many interrupted / spurious futex returns and FULL retries) and "
    "ring_no_lost_wakeup_fair (wait / single-wait / read-once readers, spin-lock or single writer, fewer than capacity "
    "messages so that nobody is lapped): from every reachable state every thread has finished after more than M rounds, M an "
    "explicit measure; both with a round-robin non-vacuity theorem in which the readers really sleep and are really woken.  "
    "They rest on data-path accounting proved for these models (ghost counters W/R behind the cursors, 0 <= W-R <= cap-2, the "
    "stale read-cursor register under the write lock, no wrap of the ring cursor).  NOT covered: (1) the condvar-mode channel -- "
    "the statement is false under this fairness notion once a writer can bounce off a full channel, because its retry takes "
    "read_mutex and a fair-by-rounds schedule may give the reader its turn only then (theorem "
    "chan_cv_fair_schedule_can_starve_reader: 2000 fair rounds, reader never asleep, never gets the mutex); same with unboundedly "
    "many spurious condvar wake-ups; this is mutex unfairness plus the client's retry loop, not a lost wake-up, and the safety "
    "theorems chan_cv_no_deadlock / chan_cv_no_lost_wakeup hold; (2) the busy-loop reader modes of channel and ring are not "
    "modelled in C03 at all (they have no sleep/wake protocol; their termination is pure data path, C01/C02)",
    "abq_balanced_scripts_never_stuck / dbuf_balanced_scripts_never_stuck: with balanced scripts the 'somebody finished early' "
    "end states are unreachable (counting invariant over the remaining script lengths); the analogous statement for the two "
    "channel models and the ring (reader asks for exactly the number of accepted messages => never blocked at the end) is NOT "
    "proved: it is equivalent to 'reads done = writes done whenever the cursor test says empty', i.e. the exactly-once data-path "
    "invariant of C01/C02 (unread count modulo capacity, the writer's stale read-cursor register under the write lock, no "
    "lapping), which these protocol models deliberately do not carry -- their theorems end in the legitimate state 'reader asleep on an empty conduit, writers finished'; liveness "
    "under a fair scheduler is stated only in its safety form",
    "observation (C01 territory, not a lost wake-up): a channel of capacity 1 or 2 refuses every write (wpos == rpos from "
    "the start), so its reader waits for ever by construction; C03 scenarios use capacity >= 3",
]


def build_impl(ctx):
    try:
        return V.build_vsched_driver(ID, C_DRIVER, REPO_SOURCES)
    except RuntimeError as e:
        # The driver names the queue's mutex / condition variables through the documented struct
        # fields.  If those fields are gone (e.g. two condition variables merged into one) the driver
        # does not compile; rebuild it naming the synchronisation objects by their offset inside the
        # object instead, so that the scenarios still run under the scheduler: the deadlock detector
        # and the monitor do not depend on the names (trace acceptance will then reject, which is
        # reported after the monitor's findings).
        if "c03_driver.c" not in str(e):
            raise
        ctx.notes.append("c03_driver.c did not compile against the documented struct fields; rebuilt with "
                         "-DC03_NAMES_BY_OFFSET: " + str(e).strip().split("\n")[-1][:200])
        return V.build_vsched_driver(ID, C_DRIVER, REPO_SOURCES, extra_flags=["-DC03_NAMES_BY_OFFSET"])


# ---------------------------------------------------------------------------
# scenarios

def _mk(name, scen_line, sched):
    return V.Case(name, [scen_line, "sched " + sched], {"scen": scen_line})


def _split(total, parts, rng):
    """total split into `parts` positive integers (parts <= total)."""
    cuts = sorted(rng.shuffle(list(range(1, total)))[:parts - 1])
    out, prev = [], 0
    for c in cuts + [total]:
        out.append(c - prev)
        prev = c
    return out


def _scenario(rng, kind):
    if kind in ("chanf", "chanm"):
        cap = rng.choice([3, 4, 4, 8, 8])
        wl = rng.choice(["mutex", "mutex", "single"])
        nw = 1 if wl == "single" else rng.range(1, 3)
        # capacity 8: scripts long enough for a backlog of more than capacity/2 messages
        ks = [rng.range(1, 4) for _ in range(nw)] if cap != 8 else [rng.range(2, 6 if nw == 1 else 3) for _ in range(nw)]
        return "%s %d %s R %d W %s" % (kind, cap, wl, sum(ks), " ".join(map(str, ks)))
    if kind == "ring":
        md = rng.choice(["wait", "wait", "single", "once"])
        cap = rng.choice([2, 4, 4, 8])
        wl = rng.choice(["lock", "lock", "single"])
        nw = 1 if wl == "single" else rng.range(1, 3)
        total = rng.range(nw, max(nw, cap - 1)) if cap - 1 >= nw else None
        if total is None:
            nw, wl, total = 1, "single", 1
        ks = _split(total, nw, rng)
        if md == "single":
            rs = [rng.range(1, total)]
        elif md == "wait":
            rs = [rng.range(1, total) for _ in range(rng.range(1, 2))]
        else:
            nrd = rng.range(1, min(2, total))
            rs = _split(total, nrd, rng)
        return "ring %s %d %s R %s W %s" % (md, cap, wl, " ".join(map(str, rs)), " ".join(map(str, ks)))
    if kind == "abq":
        if rng.chance(1, 2):
            # tight queues: more threads on one side than slots, scripts long enough that producers
            # asleep on a full queue and consumers asleep on an empty one coexist
            cap = rng.range(1, 2)
            nc, np_ = rng.range(1, 2), rng.range(2, 3)
            total = rng.range(max(nc, np_) + 1, max(nc, np_) + 5)
        else:
            cap = rng.range(1, 4)
            nc, np_ = rng.range(1, 2), rng.range(1, 3)
            total = rng.range(max(nc, np_), max(nc, np_) + 4)
        return "abq %d R %s W %s" % (cap, " ".join(map(str, _split(total, nc, rng))), " ".join(map(str, _split(total, np_, rng))))
    if kind == "dbuf":
        cap = rng.range(1, 4)
        nw = rng.range(1, 3)
        ks = [rng.range(1, 3) for _ in range(nw)]
        return "dbuf %d R %d W %s" % (cap, sum(ks), " ".join(map(str, ks)))
    return "slock %d %d" % (rng.range(2, 4), rng.range(1, 2))


KINDS = ["chanf", "abq", "ring", "dbuf", "chanm", "slock"]

# fixed scenarios used for the model-guided schedules (sleeper parked between check and sleep)
GUIDED = [
    "chanf 4 single R 2 W 2", "chanf 4 mutex R 3 W 2 1", "chanf 4 mutex R 6 W 2 2 2", "chanf 8 mutex R 4 W 2 2",
    "chanf 8 single R 5 W 5", "chanf 8 single R 6 W 6", "chanf 8 mutex R 6 W 3 3", "chanf 8 mutex R 5 W 5",
    "chanf 8 single R 5 W 5", "chanf 8 mutex R 6 W 6", "chanf 8 single R 4 W 4",
    "chanm 4 single R 2 W 2", "chanm 4 mutex R 3 W 2 1", "chanm 4 mutex R 5 W 2 2 1",
    "ring wait 4 single R 3 W 3", "ring wait 4 lock R 3 2 W 2 1", "ring single 4 lock R 3 W 1 2", "ring once 4 lock R 2 1 W 2 1",
    "ring wait 8 lock R 5 5 W 2 2 1",
    "abq 1 R 2 W 1 1", "abq 1 R 2 2 W 2 1 1", "abq 2 R 3 W 1 1 1", "abq 2 R 2 2 W 4", "abq 3 R 4 W 2 2",
    "dbuf 1 R 2 W 1 1", "dbuf 1 R 3 W 1 1 1", "dbuf 2 R 4 W 2 2", "dbuf 2 R 5 W 2 2 1",
    "slock 2 2", "slock 3 1", "slock 4 1",
]


def corpus_cases(ctx):
    import glob
    import os
    cases = []
    for f in sorted(glob.glob(os.path.join(V.VERIF, "corpus", ID, "*.case"))):
        c = V.Case.load(f)
        c.meta["scen"] = c.lines[0]
        cases.append(c)
    # model-guided schedules: ask the extracted model for schedules that park a sleeper between
    # its check and its sleep while the waker runs; replay them on the implementation
    runs = 6 if ctx.tier == "quick" else 40
    ex = []
    for i, scen in enumerate(GUIDED):
        for win in (3, 8):
            ex.append(V.Case("explore-%d-%d" % (i, win), [scen, "explore %d %d %d" % (ctx.seed * 1000 + i, runs, win)]))
    res = ctx.run_model(ex) if getattr(ctx, "model", None) else {}
    for c in ex:
        r = res.get(c.name)
        if not r:
            continue
        for j, ln in enumerate(r["lines"]):
            if ln.startswith("modelsched "):
                cases.append(_mk("guided-%s-%d" % (c.name[8:], j), c.lines[0], "list " + ln[len("modelsched "):]))
    return cases


def generate(rng, tier):
    cases = []
    per_kind = 450 if tier == "quick" else 6000
    for kind in KINDS:
        r = rng.fork(kind)
        for i in range(per_kind):
            scen = _scenario(r, kind)
            stick = r.choice([20, 50, 80])
            spur = r.choice([0, 30]) if kind == "slock" else 0
            cvspur = r.choice([0, 20, 40]) if kind in ("abq", "dbuf", "chanm") else 0
            # futex waits that would block may return early (EINTR / spurious): channel futex reader, ring
            fsp, fwk = (r.choice([(0, 0), (0, 0), (30, 0), (0, 30), (20, 20)]) if kind in ("chanf", "ring") else (0, 0))
            cases.append(_mk("%s-%d" % (kind, i), scen, "rand %d %d %d %d %d %d" % (
                r.below(1 << 30), stick, spur, cvspur, fsp, fwk)))
    return cases


def search(rng, diverging, tier):
    out = []
    for i in range(4000):
        kind = rng.choice(KINDS)
        scen = _scenario(rng, kind)
        fsp, fwk = (rng.choice([(0, 0), (30, 0), (0, 30), (20, 20)]) if kind in ("chanf", "ring") else (0, 0))
        out.append(_mk("search-%s-%d" % (kind, i), scen, "rand %d %d %d %d %d %d" % (
            rng.below(1 << 30), rng.choice([10, 30, 50, 80]), rng.choice([0, 30]) if kind == "slock" else 0,
            rng.choice([0, 20, 50]) if kind in ("abq", "dbuf", "chanm") else 0, fsp, fwk)))
    return out


def model_cases(cases, impl_results):
    out = []
    for c in cases:
        r = impl_results.get(c.name)
        lines = list(c.lines) + ["TRACE"] + (list(r["lines"]) if r else [])
        out.append(V.Case(c.name, lines, c.meta))
    return out


# ---------------------------------------------------------------------------
# independent monitor (does not use the Coq model): works on the trace order only

def _parse_scen(words):
    kind = words[0]
    if kind == "slock":
        return kind, int(words[1]), [], []
    i = words.index("R")
    j = words.index("W")
    r = [int(x) for x in words[i + 1:j]]
    w = [int(x) for x in words[j + 1:]]
    return kind, len(r) + len(w), r, w


def monitor(case, lines):
    words = case.lines[0].split()
    kind, nthreads, rs, ws = _parse_scen(words)
    for ln in lines:
        if ln.startswith("DEADLOCK") or ln.startswith("LIVELOCK"):
            return "scheduler reported %s (every unfinished thread asleep / no progress while messages remain)" % ln
        if ln.startswith("F badcase"):
            return "driver rejected the scenario"
    # every script finishes
    exited = set(ln.split()[1] for ln in lines if ln.startswith("X "))
    if len(exited) != nthreads:
        return "only %d of %d threads finished their script" % (len(exited), nthreads)
    # every blocked thread was resumed by a wake-up that came after it went to sleep
    msg = _mon_resumed(lines)
    if msg:
        return msg
    f = [ln for ln in lines if ln.startswith("F ")]
    if not f or not f[-1].startswith("F status=0"):
        return "bad summary %r" % (f[-1] if f else None)
    if kind in ("chanf", "chanm"):
        return _mon_chan(kind, words, rs, ws, lines, f[-1])
    if kind == "ring":
        return _mon_ring(words, rs, ws, lines)
    if kind == "abq":
        return _mon_abq(int(words[1]), rs, ws, lines, f[-1])
    if kind == "dbuf":
        return _mon_dbuf(int(words[1]), rs, ws, lines, f[-1])
    return _mon_slock(int(words[1]), int(words[2]), lines, f[-1])


def _mon_resumed(lines):
    """asleep[t] = (kind, object, line index, stores to the word so far).  A futex sleeper must be woken
    by a later fwake on the same word that reports a woken thread; a condvar sleeper by a later
    cvsig/cvall naming it (or an explicit spurious wake-up line); the thread must then continue.  A
    completed write to the futex word while a thread sleeps on it must be followed by a wake-up of that
    thread (a LATE wake-up -- the waker's store preceded the sleep -- is legitimate and not flagged)."""
    asleep = {}
    woken = {}
    stores = {}          # cell -> number of completed stores so far (trace order)
    for i, ln in enumerate(lines):
        w = ln.split()
        if not w:
            continue
        if w[0] == "E":
            t, op, cell = w[1], w[2], w[3]
            if op in ("store", "clear", "xchg", "cass", "casw", "fadd", "fsub"):
                stores[cell] = stores.get(cell, 0) + 1
            if t in asleep and not (op == "cvwoke" and asleep[t][0] == "cv"):
                return "thread %s acts (%s) while asleep on %s without a wake-up" % (t, ln, asleep[t][1])
            if op == "cvwoke":
                if t in asleep and t not in woken:
                    return "thread %s returned from its condition wait on %s without any notify or spurious wake-up" % (t, cell)
                asleep.pop(t, None)
                woken.pop(t, None)
            elif op == "fwait" and w[7] == "1":
                asleep[t] = ("futex", cell, i, stores.get(cell, 0))
            elif op == "cvwait":
                asleep[t] = ("cv", cell, i)
            elif op == "fwake" and int(w[6]) > 0:
                k = int(w[6])
                for u in sorted(asleep, key=int):
                    if k > 0 and asleep[u][0] == "futex" and asleep[u][1] == cell:
                        del asleep[u]
                        k -= 1
                if k > 0:
                    return "fwake on %s reports more woken threads than were asleep" % cell
            elif op in ("cvsig", "cvall") and int(w[5]) > 0:
                if op == "cvall":
                    for u in list(asleep):
                        if asleep[u][0] == "cv" and asleep[u][1] == cell:
                            woken[u] = i
                else:
                    u = w[6]
                    if u not in asleep or asleep[u][1] != cell:
                        return "notify on %s names thread %s which is not waiting there" % (cell, u)
                    woken[u] = i
        elif w[0] == "W":
            if w[1] in asleep:
                woken[w[1]] = i
        elif w[0] in ("P", "X"):
            if w[1] in asleep:
                return "thread %s runs while asleep on %s" % (w[1], asleep[w[1]][1])
    if asleep:
        t = sorted(asleep)[0]
        extra = ""
        if asleep[t][0] == "futex" and stores.get(asleep[t][1], 0) > asleep[t][3]:
            extra = "; a write to %s completed after it went to sleep and was never followed by a wake-up" % asleep[t][1]
        return "thread %s is still asleep on %s at the end of the run (never resumed)%s" % (t, asleep[t][1], extra)
    return None


def _vals(lines, word):
    out = {}
    for ln in lines:
        w = ln.split()
        if w[0] == "R" and w[2] == word:
            out.setdefault(w[1], []).append(int(w[3]))
    return out


def _fifo_per_writer(seq):
    nxt = {}
    for v in seq:
        if v <= 0:
            return "a reader obtained the invalid value %d (read from an empty / unwritten slot)" % v
        wtr, j = v // 1000, v % 1000
        if j != nxt.get(wtr, 1):
            return "value %d delivered out of order or twice (expected message %d of writer %d)" % (v, nxt.get(wtr, 1), wtr)
        nxt[wtr] = j + 1
    return None


def _mon_chan(kind, words, rs, ws, lines, fline):
    reads = _vals(lines, "read").get("0", [])
    if len(reads) != rs[0]:
        return "reader finished with %d of %d messages" % (len(reads), rs[0])
    msg = _fifo_per_writer(reads)
    if msg:
        return msg
    # a message may only be read after the write that published it completed (trace order)
    published = 0
    taken = 0
    for ln in lines:
        w = ln.split()
        if w[0] != "E":
            continue
        if kind == "chanf":
            if w[2] == "store" and w[3] == "wcur":
                published += 1
            elif w[2] == "store" and w[3] == "rcur":
                taken += 1
                if taken > published:
                    return "reader consumed message %d before it was published" % taken
    if sum(ws) != rs[0]:
        return None
    m = re.match(r"F status=0 wcur=(\d+) rcur=(\d+)", fline)
    cap = 1
    while cap < int(words[1]):
        cap *= 2
    if not m or (int(m.group(2)) + 1) % cap != int(m.group(1)):
        return "channel not empty at the end although every message was read: %s" % fline
    return None


def _mon_ring(words, rs, ws, lines):
    md = words[1]
    per = _vals(lines, "read")
    total = []
    for t in range(len(rs)):
        seq = per.get(str(t), [])
        if len(seq) != rs[t]:
            return "reader %d finished with %d of %d messages" % (t, len(seq), rs[t])
        if any(v <= 0 for v in seq):
            return "reader %d obtained an invalid value (slot read before it was written)" % t
        if md != "once":
            msg = _fifo_per_writer(seq)
            if msg:
                return "reader %d: %s" % (t, msg)
        total += seq
    if md == "once" and len(set(total)) != len(total):
        return "read-once ring delivered a message twice"
    if md != "once":
        seqs = [per.get(str(t), []) for t in range(len(rs))]
        for a in seqs:
            for b in seqs:
                k = min(len(a), len(b))
                if a[:k] != b[:k]:
                    return "two readers saw different message orders"
    return None


def _mon_abq(cap, rs, ws, lines, fline):
    # every completed put / take ends with the thread's munlock (a cond_wait releases the mutex
    # without one); consumers are the threads with id < len(rs).  Independent of the notify calls.
    cnt = 0
    nc = len(rs)
    for ln in lines:
        w = ln.split()
        if w[0] == "E" and w[2] == "munlock":
            if int(w[1]) >= nc:
                cnt += 1
                if cnt > cap:
                    return "put into a full queue (count %d > capacity %d) by thread %s" % (cnt, cap, w[1])
            else:
                cnt -= 1
                if cnt < 0:
                    return "take from an empty queue by thread %s" % w[1]
    took = sorted(v for t, vs in _vals(lines, "took").items() for v in vs)
    put = sorted(v for t, vs in _vals(lines, "put").items() for v in vs)
    if took != put:
        return "items taken differ from items put: took %s put %s" % (took[:8], put[:8])
    if len(put) != sum(ws):
        return "%d of %d puts completed" % (len(put), sum(ws))
    if "cnt=%d" % (sum(ws) - sum(rs)) not in fline:
        return "final count differs from puts - takes: %s" % fline
    return None


def _mon_dbuf(cap, rs, ws, lines, fline):
    # the reader is thread 0; each completed write / read ends with that thread's munlock
    back = 0
    swapped = []
    for ln in lines:
        w = ln.split()
        if w[0] == "E" and w[2] == "munlock":
            if w[1] != "0":
                back += 1
                if back > cap:
                    return "write into a full back buffer (count %d > capacity %d) by thread %s" % (back, cap, w[1])
            else:
                if back == 0:
                    return "reader swapped an empty back buffer"
                swapped.append(back)
                back = 0
    got = _vals(lines, "got").get("0", [])
    if got != swapped:
        return "buffer sizes seen by the reader %s differ from the writes completed before each swap %s" % (got[:8], swapped[:8])
    if sum(got) < rs[0]:
        return "reader finished with %d of %d items" % (sum(got), rs[0])
    nwrote = sum(len(v) for v in _vals(lines, "wrote").values())
    if nwrote != sum(ws):
        return "%d of %d writes completed" % (nwrote, sum(ws))
    return None


def _mon_slock(n, it, lines, fline):
    inside = None
    enters = 0
    for ln in lines:
        w = ln.split()
        if w[0] == "R":
            if w[2] == "enter":
                if inside is not None or len(w) > 3:
                    return "two holders at once: thread %s entered while thread %s was inside" % (w[1], inside)
                inside = w[1]
                enters += 1
            elif w[2] == "exit":
                if inside != w[1]:
                    return "exit by thread %s while holder is %s" % (w[1], inside)
                inside = None
    m = re.match(r"F status=0 counter=(\d+) overlaps=(\d+)", fline)
    if not m or int(m.group(2)) != 0 or int(m.group(1)) != n * it or enters != n * it:
        return "lost update or overlap: %s after %d critical sections (expected %d)" % (fline, enters, n * it)
    return None


def nontrivial_key(case, lines):
    for ln in lines:
        if ln.startswith("E ") and (" cvwait " in ln or (" fwait " in ln and ln.endswith(" 1"))):
            return hash("\n".join(lines))
    return None


def tally(dist, case, lines):
    scen = case.lines[0].split()
    k = scen[0] + ("-" + scen[1] if scen[0] == "ring" else "")
    dist[k] = dist.get(k, 0) + 1
    if case.lines[1].startswith("sched list"):
        dist["model_guided_schedules"] = dist.get("model_guided_schedules", 0) + 1
        if case.lines[1].split()[2] != "-":
            dist["model_guided_with_early_futex_return"] = dist.get("model_guided_with_early_futex_return", 0) + 1
    for ln in lines:
        if ln.startswith("E "):
            dist["events"] = dist.get("events", 0) + 1
            if " fwait " in ln:
                key = {"1": "futex_sleeps", "2": "futex_wait_interrupted", "3": "futex_wait_spurious_return"}.get(
                    ln.split()[-1], "futex_wait_value_changed")
                dist[key] = dist.get(key, 0) + 1
            elif " cvwait " in ln:
                dist["condvar_sleeps"] = dist.get("condvar_sleeps", 0) + 1
            elif " fwake " in ln and not ln.endswith(" 0 0"):
                dist["futex_wakes_with_sleeper"] = dist.get("futex_wakes_with_sleeper", 0) + 1
        elif ln.startswith("W "):
            dist["spurious_condvar_wakeups"] = dist.get("spurious_condvar_wakeups", 0) + 1
        elif ln.startswith("R ") and ln.endswith(" full"):
            dist["channel_full_returns"] = dist.get("channel_full_returns", 0) + 1


MANIFEST = {
    "level_text": ("Coq theorems over executable interleaving models of the sleep/wake protocols of channel (futex and "
                   "condvar reader), ring buffer (wait / single-wait / read-once), array blocking queue, double buffer and "
                   "synclock: for every schedule and any number of threads, in every reachable state some thread can run "
                   "or the only unfinished threads are consumers asleep on a genuinely empty conduit with every producer "
                   "finished (resp. producers on a full one with every consumer finished); per-sleeper invariants (futex: "
                   "word = expected or a waker is between its store and its wake; condvar: predicate false or a wake token "
                   "is in flight); refutations of the classic broken variants.  Tie: the real code runs under a "
                   "deterministic scheduler (hooked atomics, emulated futex/mutex/condvar with spurious wake-ups), random "
                   "and model-guided schedules, every trace replayed on the extracted model; an independent monitor checks "
                   "no DEADLOCK/LIVELOCK, every script finishes, every sleeper is resumed by a later wake-up, counts."),
    "design_ref": "DESIGN.md sections 4.2, 4.3, 6/C03",
    "level_note": ("Safety form of no-lost-wake-up (fairness of the OS scheduler is not modelled).  Trusted: Coq kernel, "
                   "extraction, vsched scheduler and its futex/mutex/condvar semantics."),
    "technique": "Coq invariant proofs over all interleavings (N threads) + deterministic-scheduler trace acceptance by the extracted model + model-guided sleeper/waker window schedules",
}
