"""C05 — concurrent memory pools never hand out an owned block: plugin for bin/check."""
import os
import re
import vcommon as V

ID = "C05"
COQ_DIRS = ["C05"]
MODEL_BASE = "c05_model"
OCAML_DRIVER = "ocaml/c05_driver.ml"
OCAML_INCLUDES = ["ocaml/vsacc.ml.inc"]
C_DRIVER = "harness/drivers/c05_driver.c"
REPO_SOURCES = ["muggle/c/memory/threadsafe_memory_pool.c", "muggle/c/memory/sowr_memory_pool.c",
                "muggle/c/memory/ring_memory_pool.c", "muggle/c/sync/spinlock.c", "muggle/c/base/thread.c",
                "muggle/c/base/utils.c"]
HEADER_LINES = 1
SHRINK = False          # a case is (scenario, schedule); schedules are not line-shrinkable
CASE_TIMEOUT = 5.0
RULE = ("scenarios: ts pool with one allocator thread and 1..3 freer threads, ts pool with 2..3 threads that all "
        "allocate and free, sowr pool with one allocator and one freer (free-order usage, alloc_idx preset near the "
        "uint32 wrap in part of the cases), ring pool (threadsafe_alloc with 2..3 allocating threads; plain alloc with "
        "one allocating thread plus freer threads); requested capacities 1..8; scripts of alloc / free-k-th-outstanding "
        "/ free-k-th-own operations; x seeded random schedules (context-switch density 20/50/80/90 %, weak-CAS spurious "
        "failure 0/20 %) and the model-derived ABA schedule, run on the real code under the deterministic scheduler; "
        "every trace replayed on the extracted model; non-trivial = the trace contains a contended or failed "
        "CAS / a NULL return / a cached-position refresh / a skipped in-use block / a contended spinlock; distinct = "
        "distinct trace text")
TRUSTED_BASE = [
    "modelled, not verified: sequentially consistent interleaving of the atomic operations at the granularity of the "
    "scheduler (every muggle_atomic_* / spinlock / yield operation is a step, every plain segment between two of them is "
    "a step: plain accesses inside one segment are not interleaved), plus release/acquire views for the plain ptrs[] "
    "entries of the ts pool (stand-in for C11); aligned_alloc layout (checked by the driver's byte-range test only)",
    "memory orders of the 9 atomic sites are re-extracted from the executed code into coq/gen/Params_C05.v on every run "
    "and the side condition ts_mo_ok is discharged against them",
    "composition of the spinlock (proved in C04) into the ts free path and ring threadsafe_alloc is by re-modelling the "
    "test-and-set/clear steps here (mutual exclusion is re-proved as part of the C05 invariants)",
]
ASSUMPTIONS = [
    "free is only given blocks that are outstanding, each once (the harness ownership list guarantees it)",
    "sowr pool: one allocator thread, one freer thread, frees respect allocation order (free b releases b and everything allocated before it)",
    "ring pool: alloc callers are serialised (one allocating thread) or use threadsafe_alloc; an allocation with every block owned spins until a free happens, so scenarios guarantee (allocs - capacity <= blocking frees <= allocs) that the wait ends under every fair schedule",
    "ts pool theorems at full strength need a single allocator thread; with >= 2 allocator threads see the known finding",
]
EVIDENCE_NOTES = [
    "ts pool: cached_free_pos is a plain field read and written by every allocator thread (a data race in the code); it is modelled as a sequentially consistent cell.  The model shows that this race WIDENS the known class beyond the alloc_idx ABA: (W1) alloc_idx completes a full cycle between an allocator's read of ptrs[expected] and its successful CAS (ABA); (W2) an allocator writes back a free_idx value loaded before other allocations moved alloc_idx (stale cache); (W3) an allocator's CAS succeeds although another allocator rewrote cached_free_pos after this one compared against it.  Each of W2/W3 alone leads to a double hand-out without any ABA (Example ts_cache_race_refuted).",
    "ts_no_double_handout_partial is proved in full for the finalised class (complement of: >= 2 allocator threads AND the model's sticky ghost flag t_race, raised exactly at W1/W2/W3).  Relative to DESIGN.md's first guess of the class ('alloc_idx completes a full cycle inside one read-to-CAS window') the proved safe region is smaller: W2 and W3 are flagged conservatively (any allocation between load and write-back; any foreign write of cached_free_pos between compare and CAS), although some such interleavings are harmless.",
    "visibility: ts_reads_covered is proved for the single-allocator usage (every plain ptrs[] read / lock-protected write covered by the thread's view, given the extracted memory orders).  For several allocators it is REFUTED even outside the known class (ts_multi_visibility_refuted: an allocator that never synchronised reads an entry written by a free, because cached_free_pos is shared unsynchronised and the CAS on alloc_idx is relaxed) -- a C11 data race on ptrs[] that x86 cannot exhibit; recorded as an observation of the model, not replayable on the implementation.  sowr pool: no plain data crosses threads inside the pool (sowr_plain_fields_private).  ring pool: cursor / in_use=1 accesses are mutually exclusive and lock-ordered (ring_cursor_exclusive); that the next lock holder sees the previous holder's writes is C04's lock theorem for the same spinlock (composition, not re-proved with views here).",
    "ring audit: in ts scenarios with at most one allocating thread the driver audits, at every harness scheduling point, that the published part of the ring [alloc_idx, free_idx) holds pairwise distinct blocks none of which is in the ownership map.  This makes the ORDER of the plain store ptrs[free_idx] = block and the publication of free_idx observable without editing the repository: a thread scheduled between an early publication and a late slot store finds a stale pointer (corpus/C05/ts-publish-before-slot-store.case).",
    "exhaustion exactness is claimed for the sowr pool and for the ts pool with ONE allocator thread (NULL only when exactly cap-1 blocks are out of the ring at the load of free_idx).  With several allocators an allocator may return NULL on a stale expected value although blocks have been freed meanwhile; the independent monitor accepts a NULL iff at some moment during the call at least cap-1 blocks were unavailable.",
    "granularity: the repository is not edited, so plain accesses inside one plain segment (e.g. the plain read of alloc_idx, the compare with cached_free_pos and the read of ptrs[expected]) are atomic together in both the model and the scheduled implementation; finer interleavings of these plain accesses are not explored",
]

SITES = [  # (params field, pool kind, op, cell prefix)
    ("mo_ts_load_free", "ts", "load", "free"), ("mo_ts_cas_alloc", "ts", "casw", "alloc"),
    ("mo_ts_store_free", "ts", "store", "free"), ("mo_spin_tas", "ts", "tas", "lock"),
    ("mo_spin_clear", "ts", "clear", "lock"), ("mo_sowr_load_free", "sowr", "load", "free"),
    ("mo_sowr_store_free", "sowr", "store", "free"), ("mo_ring_load_inuse", "ring", "load", "u"),
    ("mo_ring_store_inuse", "ring", "store", "u"),
]
MO = {"rlx": "Rlx", "con": "Con", "acq": "Acq", "rel": "Rel", "acqrel": "AcqRel", "sc": "SeqCst", "none": "MoNone"}


def build_impl(ctx):
    return V.build_vsched_driver(ID, C_DRIVER, REPO_SOURCES)


def _mk(name, pool, scripts, sched):
    return V.Case(name, ["pool " + pool] + ["thr " + (s if s else "-") for s in scripts] + ["sched " + sched],
                  {"pool": pool})


def _discovery_cases():
    return [_mk("disc-ts", "ts 2", ["a,a,f0,a", "a,f0"], "rand 1 30 0 0"),
            _mk("disc-ts2", "ts 4", ["a,a,a,a,f0,a", "f0,f0"], "rand 2 30 0 0"),
            _mk("disc-sowr", "sowr 2 0", ["a,a,a,a", "f0,f0"], "rand 3 30 0 0"),
            _mk("disc-ring", "ring 2 1", ["a,o0,a", "a,o0"], "rand 4 30 0 0")]


def gen_params(ctx):
    """Memory orders actually passed by the code at each atomic site (observed by the hooks)."""
    exe = build_impl(ctx)
    res = V.run_batch(exe, _discovery_cases(), per_case_timeout=5.0)
    seen = {}
    for name, r in res.items():
        kind = name.split("-")[1].rstrip("0123456789")
        for ln in r["lines"]:
            w = ln.split()
            if len(w) >= 5 and w[0] == "E":
                cell = "u" if re.match(r"u\d+\+0$", w[3]) else w[3]
                seen.setdefault((kind, w[2], cell), set()).add(w[4])
    fields, notes = [], []
    for field, kind, op, cell in SITES:
        mos = seen.get((kind, op, cell), set())
        if len(mos) != 1:
            # an unobserved or ambiguous site is a failed obligation, not a default
            notes.append("(* site %s (%s %s %s): observed %s *)" % (field, kind, op, cell, sorted(mos)))
            fields.append("%s := MoNone" % field)
        else:
            fields.append("%s := %s" % (field, MO.get(next(iter(mos)), "MoNone")))
    return ("(* generated by lib/props/c05.py from the memory orders observed at each atomic site of\n"
            "   threadsafe_memory_pool.c / sowr_memory_pool.c / ring_memory_pool.c / spinlock.c on this run; do not edit *)\n"
            "From MV Require Import C05.Model.\n" + "\n".join(notes) + ("\n" if notes else "") +
            "Definition code_params : params :=\n  {| " + ";\n     ".join(fields) + " |}.\n")


# ---------------------------------------------------------------------------
# cases

ABA_SCRIPTS = ["a", "a,a,a,o1,a"]
# model schedule found by Coq (C05/ProofsTs.v, ts_aba_refuted): T0 reads ptrs[0] and stops before its CAS;
# T1 allocates b0 b1 b2, frees b1, allocates b3: alloc_idx is 0 again; T0's CAS succeeds
ABA_SCHED = "list - 0 0 0 " + " ".join(["1"] * 27) + " 0 0"


def corpus_cases(ctx):
    out = []
    p = os.path.join(V.VERIF, "corpus", ID)
    if os.path.isdir(p):
        for f in sorted(os.listdir(p)):
            if f.endswith(".case"):
                out.append(V.Case.load(os.path.join(p, f)))
    return out


def _script(rng, n_ops, p_alloc, free_kind, quota=None):
    ops, held = [], 0
    for _ in range(n_ops):
        if (quota is None or held < quota) and rng.chance(p_alloc, 100):
            ops.append("a")
            held += 1
        else:
            k = rng.below(4)
            ops.append("%s%d" % (free_kind if free_kind != "x" else rng.choice("fo"), k))
            if held > 0:
                held -= 1
    return ",".join(ops)


def _sched(rng, spur=False):
    return "rand %d %d %d 0" % (rng.below(1 << 30), rng.choice([20, 50, 80, 90]), rng.choice([0, 20]) if spur else 0)


def generate(rng, tier):
    cases = []
    q = tier == "quick"
    n_each = 1000 if q else 12000
    # ts pool, single allocator thread, 1..3 freer threads
    for i in range(n_each):
        cap = rng.range(1, 8)
        nf = rng.range(1, 3)
        scripts = [_script(rng, rng.range(4, 14), 75, "x")]
        scripts += [",".join("f%d" % rng.below(4) for _ in range(rng.range(2, 8))) for _ in range(nf)]
        cases.append(_mk("ts1-%d" % i, "ts %d" % cap, scripts, _sched(rng, True)))
    # ts pool, single thread (sequential history, permuted free orders)
    for i in range(n_each // 3):
        cap = rng.range(1, 8)
        cases.append(_mk("tsseq-%d" % i, "ts %d" % cap, [_script(rng, rng.range(8, 30), 60, "f")], _sched(rng, True)))
    # ts pool, 2..3 threads that all allocate and free (known class: frequently hit)
    for i in range(n_each):
        cap = rng.range(2, 8)
        n = rng.range(2, 3)
        scripts = [_script(rng, rng.range(3, 10), 65, "x") for _ in range(n)]
        cases.append(_mk("tsN-%d" % i, "ts %d" % cap, scripts, _sched(rng, True)))
    # sowr pool
    for i in range(n_each):
        cap = rng.range(1, 8)
        rc = 1
        while rc < cap:
            rc *= 2
        base = rng.choice([0, 0, rc, (1 << 32) - rc, (1 << 32) - 2 * rc])
        na = rng.range(3, 20)
        scripts = [",".join(["a"] * na), ",".join("f%d" % rng.below(5) for _ in range(rng.range(1, 10)))]
        cases.append(_mk("sowr-%d" % i, "sowr %d %d" % (cap, base), scripts, _sched(rng)))
    for i in range(n_each // 3):
        cap = rng.range(1, 8)
        rc = 1
        while rc < cap:
            rc *= 2
        base = rng.choice([0, (1 << 32) - rc])
        cases.append(_mk("sowrseq-%d" % i, "sowr %d %d" % (cap, base), [_script(rng, rng.range(6, 30), 70, "f")], _sched(rng)))
    # ring pool, threadsafe_alloc, several allocating threads (quotas sum to <= rounded capacity)
    for i in range(n_each):
        cap = rng.range(2, 8)
        rc = 2
        while rc < cap:
            rc *= 2
        n = rng.range(2, min(3, rc))
        quotas = [1] * n
        for _ in range(rc - n):
            if rng.chance(2, 3):
                quotas[rng.below(n)] += 1
        scripts = [_script(rng, rng.range(3, 10), 65, "o", quota=quotas[t]) for t in range(n)]
        cases.append(_mk("ringL-%d" % i, "ring %d 1" % cap, scripts, _sched(rng)))
    # ring pool, plain alloc, one allocating thread and freer threads
    for i in range(n_each):
        cap = rng.range(1, 8)
        rc = 2
        while rc < cap:
            rc *= 2
        nf = rng.range(0, 2)
        scripts = [_script(rng, rng.range(4, 16), 70, "x", quota=rc)]
        scripts += [",".join("f%d" % rng.below(4) for _ in range(rng.range(1, 6))) for _ in range(nf)]
        cases.append(_mk("ringU-%d" % i, "ring %d 0" % cap, scripts, _sched(rng)))
    # ring pool, the all-owned state: pure allocating thread(s) that allocate more than the capacity while
    # consumers with BLOCKING frees (k >= 100: wait until there is a block to free) release blocks only
    # afterwards; the allocation that finds every block owned must keep scanning until a free has happened.
    # Termination under every fair schedule: allocs - capacity <= frees <= allocs.
    for i in range(n_each):
        locked = i % 2
        cap = rng.range(1, 8) if not locked else rng.range(2, 8)
        rc = 2
        while rc < cap:
            rc *= 2
        if rc > 4 and rng.chance(2, 3):
            cap, rc = rng.choice([(1, 2), (2, 2), (3, 4), (4, 4)])
        na = rng.range(2, 3) if locked else 1
        allocs = [rng.range(1, rc + 2) for _ in range(na)]
        n_all = sum(allocs)
        if n_all <= rc:
            allocs[0] += rc + 1 - n_all
            n_all = rc + 1
        m = rng.range(n_all - rc, n_all)
        nc = rng.range(1, 2)
        per = [0] * nc
        for _ in range(m):
            per[rng.below(nc)] += 1
        scripts = [",".join(["a"] * k) for k in allocs]
        scripts += [",".join("f%d" % (100 + rng.below(4)) for _ in range(k)) for k in per]
        cases.append(_mk("ringW%s-%d" % ("L" if locked else "U", i), "ring %d %d" % (cap, locked), scripts, _sched(rng)))
    # the model-derived ABA schedule, on every capacity that rounds to 4 and with the single-allocator control
    cases.append(_mk("ts-aba-model-schedule", "ts 4", ABA_SCRIPTS, ABA_SCHED))
    cases.append(_mk("ts-aba-model-schedule-cap3", "ts 3", ABA_SCRIPTS, ABA_SCHED))
    return cases


def search(rng, diverging, tier):
    out = []
    for i in range(1500):
        cap = rng.range(1, 8)
        nf = rng.range(1, 3)
        scripts = [_script(rng, rng.range(4, 14), 75, "x")]
        scripts += [",".join("f%d" % rng.below(4) for _ in range(rng.range(2, 8))) for _ in range(nf)]
        out.append(_mk("search-ts1-%d" % i, "ts %d" % cap, scripts, _sched(rng, True)))
    for i in range(1500):
        cap = rng.range(1, 8)
        scripts = [",".join(["a"] * rng.range(3, 20)), ",".join("f%d" % rng.below(5) for _ in range(rng.range(1, 10)))]
        out.append(_mk("search-sowr-%d" % i, "sowr %d 0" % cap, scripts, _sched(rng)))
    for i in range(1000):
        cap = rng.range(1, 8)
        out.append(_mk("search-ring-%d" % i, "ring %d 0" % cap, [_script(rng, rng.range(4, 16), 70, "o", quota=2)], _sched(rng)))
    return out


def _param_vals():
    p = os.path.join(V.COQ, "gen", "Params_C05.v")
    txt = open(p).read()
    vals = []
    for field, _, _, _ in SITES:
        m = re.search(r"%s := (\w+)" % field, txt)
        vals.append(m.group(1) if m else "MoNone")
    return vals


def model_search(ctx):
    """The memory-order obligation broke (an order was weakened): x86 under a serialised run cannot show the
    effect, so look for a history of the MODEL (single-allocator ts pool), with the parameters extracted from
    the code, in which an allocator reads a ptrs[] entry that is not covered by its view."""
    vals = _param_vals()
    cases = []
    scens = [("ts 2", ["a,a,a,a,a,a", "f0,f0,f0"]), ("ts 4", ["a,a,a,a,a,a,a,a", "f0,f0,f0,f0", "f1,f0"]),
             ("ts 2", ["a,f0,a,f0,a"])]
    for i, (pool, scripts) in enumerate(scens):
        c = _mk("modelsearch-%d" % i, pool, scripts, "rand 1 50 0 0")
        c.lines = c.lines[:-1] + ["params " + " ".join(vals), "explore %d 4000 uncov" % (ctx.seed + i)]
        cases.append(c)
    res = ctx.run_model(cases)
    for c in cases:
        r = res.get(c.name)
        if r and r["lines"] and r["lines"][0].startswith("FOUND"):
            return (V.Case(c.name, list(c.lines) + r["lines"]),
                    "model history (memory orders as extracted from the code: %s): %s" % (" ".join(vals), r["lines"][0][6:]))
    return None


def model_cases(cases, impl_results):
    out = []
    for c in cases:
        r = impl_results.get(c.name)
        lines = list(c.lines) + ["TRACE"] + (list(r["lines"]) if r else [])
        out.append(V.Case(c.name, lines, c.meta))
    return out


def canon(lines):
    return [ln for ln in lines if not ln.startswith("G ")]


# ---------------------------------------------------------------------------
# independent monitor (does not use the Coq model)

def _scen(case):
    pool, scripts = None, []
    for ln in case.lines:
        w = ln.split()
        if not w:
            continue
        if w[0] == "pool":
            pool = w[1:]
        elif w[0] == "thr":
            scripts.append(w[1] if len(w) > 1 else "-")
    return pool, scripts


def _round_cap(kind, c):
    if kind == "ring" and c < 2:
        c = 2
    r = 1
    while r < c:
        r *= 2
    return r


def n_allocators(case):
    _, scripts = _scen(case)
    return sum(1 for s in scripts if "a" in s.split(","))


def racy_windows(lines, upto=None):
    """ts pool: which of the racy windows of the allocation path were hit in the trace (prefix up to line
    index `upto`).  W1 = another thread's successful CAS on alloc_idx between a thread's read of ptrs[expected]
    (end of its previous plain segment) and its own successful CAS; W2 = a successful CAS by another thread
    between a thread's load of free_idx and the plain segment that writes it back to cached_free_pos;
    W3 = another thread writes cached_free_pos (plain segment after its load of free_idx) between a thread's
    compare with cached_free_pos and its successful CAS."""
    hits = set()
    last_p = {}          # tid -> index of the end of its last plain segment
    last_ev = {}         # tid -> last event op/cell of the thread
    load_at = {}         # tid -> index of a load of free_idx whose write-back segment has not ended yet
    cas_ok = []          # (index, tid)
    cache_w = []         # (index, tid)  plain segments that wrote cached_free_pos
    for i, ln in enumerate(lines if upto is None else lines[:upto + 1]):
        w = ln.split()
        if not w:
            continue
        if w[0] == "P":
            t = w[1]
            if t in load_at:
                if any(j > load_at[t] and u != t for j, u in cas_ok):
                    hits.add("W2")
                cache_w.append((i, t))
                del load_at[t]
            last_p[t] = i
        elif w[0] == "E":
            t = w[1]
            if w[2] == "load" and w[3] == "free":
                load_at[t] = i
            elif w[2] == "casw" and w[3] == "alloc" and w[7] == "1":
                j0 = last_p.get(t, -1)
                if any(j > j0 and u != t for j, u in cas_ok):
                    hits.add("W1")
                if any(j > j0 and u != t for j, u in cache_w):
                    hits.add("W3")
                cas_ok.append((i, t))
            last_ev[t] = (w[2], w[3])
    return hits


def monitor(case, lines):
    pool, scripts = _scen(case)
    if not pool:
        return None
    kind = pool[0]
    f = [ln for ln in lines if ln.startswith("F ")]
    if f and f[0] == "F badcase":
        return None
    cap = _round_cap(kind, int(pool[1]))
    owner = {}               # block -> owning thread (harness-independent ownership map from the notes)
    order = []               # blocks in order of return (sowr: free order)
    pend_alloc = set()       # threads between a successful take and the return note
    pend_free = {}           # thread -> blocks given to free whose release is not yet published
    in_call = {}             # thread -> max number of unavailable blocks seen during its current alloc call
    obs = {}                 # ts: thread -> line index at which it last observed alloc_idx (call start / own CAS)
    cas_ok = []              # ts: (line index, thread) of successful CAS operations on alloc_idx

    def unavailable():
        return len(owner) + len(pend_alloc) + sum(len(v) for v in pend_free.values())

    def bump():
        u = unavailable()
        for t in in_call:
            if u > in_call[t]:
                in_call[t] = u

    def tag(i):
        if kind == "ts":
            h = racy_windows(lines, i)
            if h:
                return " [racy-window %s hit before this point]" % ",".join(sorted(h))
        return ""

    for i, ln in enumerate(lines):
        w = ln.split()
        if not w:
            continue
        if w[0] in ("DEADLOCK", "LIVELOCK"):
            return "scheduler reported %s" % ln
        if w[0] == "E":
            t = w[1]
            if kind == "ts" and w[2] == "casw" and w[3] == "alloc":
                obs[t] = i
                if w[7] == "1":
                    cas_ok.append((i, t))
                    pend_alloc.add(t)
                    bump()
            elif kind in ("ts", "sowr") and w[2] == "store" and w[3] == "free":
                pend_free.pop(t, None)
            elif kind == "ring" and w[2] == "store":
                pend_free.pop(t, None)
        elif w[0] == "R":
            t = w[1]
            if w[2] == "a":
                in_call[t] = unavailable()
                obs[t] = i
            elif w[2] == "r":
                seen = in_call.pop(t, None)
                pend_alloc.discard(t)
                if w[3] == "NULL":
                    if kind == "ring":
                        return "ring pool alloc returned NULL"
                    if seen is None or seen < cap - 1:
                        stale = kind == "ts" and any(j > obs.get(t, -1) and u != t for j, u in cas_ok)
                        return ("exhaustion reported to thread %s although at most %s of %d blocks were unavailable "
                                "during the call (usable capacity %d)%s%s" % (
                                    t, seen, cap, cap - 1,
                                    " [stale-expected: another allocator moved alloc_idx after this thread read it]" if stale else "",
                                    tag(i)))
                elif re.match(r"b\d+$", w[3]):
                    b = int(w[3][1:])
                    if len(w) > 4 and w[4] != "DUP":
                        return "harness anomaly: %s" % ln
                    if b in owner or any(b in v for v in pend_free.values()):
                        return ("double hand-out: block %d returned to thread %s while still owned by thread %s "
                                "(allocated and not freed)%s" % (b, t, owner.get(b, "?(being freed)"), tag(i)))
                    if len(w) > 4:
                        return "harness reports DUP for block %d which the monitor does not hold" % b
                    if b >= cap:
                        return "block id %d outside the pool of %d blocks" % (b, cap)
                    owner[b] = t
                    order.append(b)
                    bump()
                else:
                    return "harness anomaly: %s" % ln
            elif w[2] == "AUDIT":
                return ("ring audit (harness, at a scheduling point): %s -- the published part of the ring must hold "
                        "distinct, unowned blocks at every instant" % " ".join(w[3:]))
            elif w[2] == "f":
                if w[3] == "skip":
                    continue
                if len(w) > 4 or not re.match(r"b\d+$", w[3]):
                    return "harness anomaly: %s" % ln
                b = int(w[3][1:])
                if b not in owner:
                    return "harness frees block %d which is not outstanding" % b
                if kind == "sowr":
                    k = order.index(b)
                    rel = order[:k + 1]
                    for x in rel:
                        owner.pop(x, None)
                    del order[:k + 1]
                else:
                    owner.pop(b)
                    order.remove(b)
                    rel = [b]
                pend_free[t] = rel
    if not f:
        return "no summary line"
    m = re.search(r" out=(\d+) dups=(\d+)", f[0])
    if not m:
        return "bad summary %r" % f[0]
    if int(m.group(2)) != 0:
        return "double hand-out: harness counted %s returns of a block it still held" % m.group(2)
    if int(m.group(1)) != len(owner):
        return "harness holds %s outstanding blocks, the monitor %d" % (m.group(1), len(owner))
    if any(ln.startswith("F anomalies") for ln in f):
        return "harness anomalies: %s" % f[-1]
    return None


def known_class(case, failure_text):
    """ts-stale-null: the ts pool used by >= 2 allocator threads reports exhaustion although free blocks exist,
    because the NULL test compares free_idx with an alloc_pos derived from a stale expected value (or after a
    racy window has corrupted the ring accounting).
    ts-aba: the ts pool used by >= 2 allocator threads hands a block out twice after one of the racy
    windows of the allocation path was hit (alloc_idx ABA, or the racy cached_free_pos)."""
    pool, _ = _scen(case)
    if not pool or pool[0] != "ts" or not failure_text:
        return None
    if n_allocators(case) < 2:
        return None
    if failure_text.startswith("double hand-out: block") and "[racy-window" in failure_text:
        return "ts-aba"
    if failure_text.startswith("exhaustion reported") and ("[stale-expected" in failure_text or "[racy-window" in failure_text):
        return "ts-stale-null"
    return None


def nontrivial_key(case, lines):
    txt = "\n".join(lines)
    if (re.search(r"casw alloc \w+ \d+ \d+ [02]", txt) or " r NULL" in txt or " load free " in txt
            or re.search(r"load u\d+\+0 \w+ 1 ", txt) or re.search(r"tas lock \w+ 1 ", txt)):
        return hash(txt)
    return None


def tally(dist, case, lines):
    pool, scripts = _scen(case)
    if not pool:
        return
    k = pool[0] + ("-multi-alloc" if pool[0] == "ts" and n_allocators(case) >= 2 else "")
    dist[k] = dist.get(k, 0) + 1
    dist["cap=%d" % _round_cap(pool[0], int(pool[1]))] = dist.get("cap=%d" % _round_cap(pool[0], int(pool[1])), 0) + 1
    run1 = {}
    rcap = _round_cap(pool[0], int(pool[1]))
    for ln in lines:
        if pool[0] == "ring":
            w = ln.split()
            if len(w) > 5 and w[0] == "E" and w[2] == "load" and w[3].startswith("u"):
                run1[w[1]] = run1.get(w[1], 0) + 1 if w[5] == "1" else 0
                if run1[w[1]] == rcap:
                    dist["ring_alloc_scanned_full_lap_all_owned"] = dist.get("ring_alloc_scanned_full_lap_all_owned", 0) + 1
            elif len(w) > 2 and w[0] == "R" and w[2] == "a":
                run1[w[1]] = 0
        if ln.startswith("E "):
            dist["events"] = dist.get("events", 0) + 1
            if " casw alloc " in ln:
                if ln.endswith(" 2"):
                    dist["cas_spurious"] = dist.get("cas_spurious", 0) + 1
                elif ln.endswith(" 0"):
                    dist["cas_failed"] = dist.get("cas_failed", 0) + 1
        elif ln.startswith("R "):
            if " r NULL" in ln:
                dist["null_returns"] = dist.get("null_returns", 0) + 1
            elif " DUP" in ln:
                dist["double_handouts_known_class"] = dist.get("double_handouts_known_class", 0) + 1
            elif " r b" in ln:
                dist["blocks_returned"] = dist.get("blocks_returned", 0) + 1
    if pool[0] == "sowr" and len(pool) > 2 and int(pool[2]) > 0:
        dist["sowr_near_uint32_wrap"] = dist.get("sowr_near_uint32_wrap", 0) + 1


MANIFEST = {
    "level_text": ("Coq theorems over executable interleaving models (every schedule, any number of threads, any capacity, "
                   "spurious weak-CAS failures included) of the three pools with a ghost/harness ownership list: sowr pool "
                   "(one allocator, one freer, free-order usage; uint32 wrap of alloc_idx included) never double-hands, "
                   "reports exhaustion exactly at cap-1 outstanding and keeps serving; ring pool never double-hands; ts pool "
                   "with a single allocator thread and any number of freers never double-hands, reports exhaustion exactly, "
                   "and every plain ptrs[] read is covered (memory orders re-extracted from the code each run).  For >= 2 "
                   "allocator threads the property is REFUTED (known finding ts-aba: witness schedule by vm_compute, replayed "
                   "on the real code) and proved outside the known class (no commit inside another allocator's racy window).  "
                   "Tie: the real code runs under a deterministic scheduler and every trace is replayed on the extracted "
                   "model; an independent monitor keeps its own ownership map and exhaustion count on the traces."),
    "design_ref": "DESIGN.md sections 3.2, 4.2, 4.3, 6/C05, Appendix A.8, B",
    "level_note": ("Trusted: Coq kernel, extraction, vsched scheduler, SC+views memory model as stand-in for C11; plain accesses "
                   "inside one plain segment are not interleaved (the repository is not edited); the racy cached_free_pos is "
                   "modelled as an SC cell."),
    "technique": "Coq invariant proofs over all interleavings (N threads) + known-finding pattern + deterministic-scheduler trace acceptance by the extracted model",
}
