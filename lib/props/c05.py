"""C05 — concurrent memory pools never hand out an owned block: plugin for bin/check."""
import os
import re
import vcommon as V

ID = "C05"
COQ_DIRS = ["C05"]
MODEL_BASE = "c05_model"
OCAML_DRIVER = "ocaml/c05_driver.ml"
OCAML_INCLUDES = ["ocaml/vsacc.ml.inc"]
C_DRIVER = "harness/drivers/c05_driver.c"
REPO_SOURCES = ["muggle/c/memory/threadsafe_memory_pool.c", "muggle/c/memory/sowr_memory_pool.c",
                "muggle/c/memory/ring_memory_pool.c", "muggle/c/sync/spinlock.c", "muggle/c/base/thread.c",
                "muggle/c/base/utils.c"]
HEADER_LINES = 1
SHRINK = False          # a case is (scenario, schedule); schedules are not line-shrinkable
CASE_TIMEOUT = 5.0
RULE = ("scenarios: ts pool with one allocator thread and 1..3 freer threads, ts pool with 2..3 threads that all "
        "allocate and free, sowr pool with one allocator and one freer (free-order usage, alloc_idx preset near the "
        "uint32 wrap in part of the cases), ring pool (threadsafe_alloc with 2..3 allocating threads; plain alloc with "
        "one allocating thread plus freer threads); requested capacities 0..8 (0: ts refuses, sowr default 8, ring minimum 2) "
        "and 9..70 (rounded 16..128) in the *big families; data_size 1..300 given to init (boundaries of the block-size "
        "formulas: 55/56/57, 63/64/65, 111/112/113, 119/120/121, 255/256/257), default 24 in a third of the cases; the "
        "whole user region [p, p+data_size) is written with a per-block pattern, verified at free, checked for containment "
        "in the slab obtained from the allocator and disjointness from every outstanding region; scripts of alloc / free-k-th-outstanding "
        "/ free-k-th-own operations; x seeded random schedules (context-switch density 20/50/80/90 %, weak-CAS spurious "
        "failure 0/20 %) and the model-derived ABA schedule, run on the real code under the deterministic scheduler; "
        "every trace replayed on the extracted model; non-trivial = the trace contains a contended or failed "
        "CAS / a NULL return / a cached-position refresh / a skipped in-use block / a contended spinlock; distinct = "
        "distinct trace text")
TRUSTED_BASE = [
    "modelled, not verified: sequentially consistent interleaving of the atomic operations at the granularity of the "
    "scheduler (every muggle_atomic_* / spinlock / yield operation is a step, every plain segment between two of them is "
    "a step: plain accesses inside one segment are not interleaved), plus release/acquire views for the plain ptrs[] "
    "entries of the ts pool (stand-in for C11); aligned_alloc layout (checked by the driver's byte-range test only)",
    "memory orders of the 9 atomic sites are re-extracted from the executed code into coq/gen/Params_C05.v on every run "
    "and the side condition ts_mo_ok is discharged against them",
    "composition of the spinlock (proved in C04) into the ts free path and ring threadsafe_alloc is by re-modelling the "
    "test-and-set/clear steps here (mutual exclusion is re-proved as part of the C05 invariants)",
    "second tie (translator kind): lib/props/c05_slice.py executes alloc / free / init of the three pools symbolically on the clang "
    "JSON AST of the C text of this run (atomic loads -> inputs ld<k>, weak compare-exchange -> inputs cur<k>/spur<k>, block "
    "pointers -> (block index, width of the offset product, byte offset), same-file helpers inlined, retry / scan loops "
    "unrolled up to their third atomic operation, init loops and a memset of the whole data area summarised with lfill, muggle_next_pow_of_2 uninterpreted) and lib/leaftrans.py translates the "
    "integer expressions with their C widths (coq/gen/Params_C05.v gen_*); obligations gen_*_matches_model prove them equal to "
    "reference functions for every capacity 2^0..2^31 (complete sweep), every uint32 cursor value and every value another "
    "thread may store, by a shape-independent decision tactic, and express the model's steps / tinit / sinit / rinit / "
    "next_pow2 / block geometry with the same references; trusted: clang 14 AST, the slicer and the translator, type sizes "
    "and enum values printed by harness/drivers/c05_params.c compiled against the checked tree; muggle_next_pow_of_2 itself is "
    "C20's model (coq/C20/Model.v model_npo2, tied to utils.c by C20's gen_npo2_eq and proved least-power-of-two there)",
]
ASSUMPTIONS = [
    "free is only given blocks that are outstanding, each once (the harness ownership list guarantees it)",
    "sowr pool: one allocator thread, one freer thread, frees respect allocation order (free b releases b and everything allocated before it)",
    "ring pool: alloc callers are serialised (one allocating thread) or use threadsafe_alloc; an allocation with every block owned spins until a free happens, so scenarios guarantee (allocs - capacity <= blocking frees <= allocs) that the wait ends under every fair schedule",
    "ts pool theorems at full strength need a single allocator thread; with >= 2 allocator threads see the known finding",
]
EVIDENCE_NOTES = [
    "translator tie: an edit of threadsafe_memory_pool.c / sowr_memory_pool.c / ring_memory_pool.c that changes, anywhere in the "
    "domain, the alloc position / cursor advance, an exhaustion test, the block a pointer denotes, the sowr free rule "
    "free_idx = block_idx + 1, the width of a cursor or of a block-offset product, the capacity rounding / defaults / refusals, "
    "the block-size formula, a requested allocation size or the initial ring contents, or makes a function unsliceable, breaks a "
    "gen_*_matches_model obligation even when no generated history reaches the difference.  Not in the translator tie: memory "
    "orders (extracted separately), the spinlock, destroy, muggle_sowr_memory_pool_is_all_free, the order of plain accesses "
    "inside one plain segment, what the CAS-retry / in_use-scan loops do from their third atomic operation on (the unrolling stops there; "
    "the trace acceptance covers them).",
    "init-time size arithmetic is 32-bit in the C text (block_size, capacity * block_size, block_size * i are products of "
    "muggle_sync_t): *_init_sizes_partial prove exactness, block_size >= head + data_size, exact block offsets and the initial "
    "ring whenever the data area is below 4 GiB; *_init_sizes_refuted exhibit accepted arguments (capacity 8, data_size 2^29; "
    "ts: data_size 2^32-8; ring: data_size 2^31) for which init returns MUGGLE_OK with a wrapped allocation size or a block "
    "smaller than the data (ring: block_size 0).  Reported to the coordinator as a suspected defect (pools above 4 GiB); the "
    "model keeps the code's arithmetic.",
    "known classes are attributed causally (TsCausal in lib/props/c05.py): a double hand-out is ts-aba only if the allocation's "
    "own read-to-CAS window contains another allocator's successful CAS (full alloc_idx cycle), or its exhaustion test used the "
    "racy cached_free_pos (rewritten by another thread before its CAS / a stale write-back still in effect), or such an "
    "allocation corrupted the ring before (returned a pointer that is not the current ptrs[expected], or took a slot beyond the "
    "usable capacity); an early NULL is ts-stale-null only if the returning thread's own expected was stale or the pool was "
    "corrupted that way.  Any other multi-allocator anomaly is a VIOLATION.  Cases attributed to a class are still diffed "
    "against the model (bin/check).",
    "ts pool: cached_free_pos is a plain field read and written by every allocator thread (a data race in the code); it is modelled as a sequentially consistent cell.  The model shows that this race WIDENS the known class beyond the alloc_idx ABA: (W1) alloc_idx completes a full cycle between an allocator's read of ptrs[expected] and its successful CAS (ABA); (W2) an allocator writes back a free_idx value loaded before other allocations moved alloc_idx (stale cache); (W3) an allocator's CAS succeeds although another allocator rewrote cached_free_pos after this one compared against it.  Each of W2/W3 alone leads to a double hand-out without any ABA (Example ts_cache_race_refuted).",
    "ts_no_double_handout_partial is proved in full for the finalised class (complement of: >= 2 allocator threads AND the model's sticky ghost flag t_race, raised exactly at W1/W2/W3).  Relative to DESIGN.md's first guess of the class ('alloc_idx completes a full cycle inside one read-to-CAS window') the proved safe region is smaller: W2 and W3 are flagged conservatively (any allocation between load and write-back; any foreign write of cached_free_pos between compare and CAS), although some such interleavings are harmless.",
    "visibility: ts_reads_covered is proved for the single-allocator usage (every plain ptrs[] read / lock-protected write covered by the thread's view, given the extracted memory orders).  For several allocators it is REFUTED even outside the known class (ts_multi_visibility_refuted: an allocator that never synchronised reads an entry written by a free, because cached_free_pos is shared unsynchronised and the CAS on alloc_idx is relaxed) -- a C11 data race on ptrs[] that x86 cannot exhibit; recorded as an observation of the model, not replayable on the implementation.  sowr pool: no plain data crosses threads inside the pool (sowr_plain_fields_private).  ring pool: cursor / in_use=1 accesses are mutually exclusive and lock-ordered (ring_cursor_exclusive); that the next lock holder sees the previous holder's writes is C04's lock theorem for the same spinlock (composition, not re-proved with views here).",
    "ring audit: in ts scenarios with at most one allocating thread the driver audits, at every harness scheduling point, that the published part of the ring [alloc_idx, free_idx) holds pairwise distinct blocks none of which is in the ownership map.  This makes the ORDER of the plain store ptrs[free_idx] = block and the publication of free_idx observable without editing the repository: a thread scheduled between an early publication and a late slot store finds a stale pointer (corpus/C05/ts-publish-before-slot-store.case).",
    "exhaustion exactness is claimed for the sowr pool and for the ts pool with ONE allocator thread (NULL only when exactly cap-1 blocks are out of the ring at the load of free_idx).  With several allocators an allocator may return NULL on a stale expected value although blocks have been freed meanwhile; the independent monitor accepts a NULL iff at some moment during the call at least cap-1 blocks were unavailable.",
    "granularity: the repository is not edited, so plain accesses inside one plain segment (e.g. the plain read of alloc_idx, the compare with cached_free_pos and the read of ptrs[expected]) are atomic together in both the model and the scheduled implementation; finer interleavings of these plain accesses are not explored",
]

SITES = [  # (params field, pool kind, op, cell prefix)
    ("mo_ts_load_free", "ts", "load", "free"), ("mo_ts_cas_alloc", "ts", "casw", "alloc"),
    ("mo_ts_store_free", "ts", "store", "free"), ("mo_spin_tas", "ts", "tas", "lock"),
    ("mo_spin_clear", "ts", "clear", "lock"), ("mo_sowr_load_free", "sowr", "load", "free"),
    ("mo_sowr_store_free", "sowr", "store", "free"), ("mo_ring_load_inuse", "ring", "load", "u"),
    ("mo_ring_store_inuse", "ring", "store", "u"),
]
MO = {"rlx": "Rlx", "con": "Con", "acq": "Acq", "rel": "Rel", "acqrel": "AcqRel", "sc": "SeqCst", "none": "MoNone"}


def build_impl(ctx):
    return V.build_vsched_driver(ID, C_DRIVER, REPO_SOURCES)


def _mk(name, pool, scripts, sched, dsize=None):
    return V.Case(name, ["pool " + pool] + (["dsize %d" % dsize] if dsize is not None else []) +
                  ["thr " + (s if s else "-") for s in scripts] + ["sched " + sched], {"pool": pool})


# data sizes given to init: the boundaries of the block-size formulas (ts: 8 + d rounded to 64, + 128;
# sowr: 16 + d; ring: next power of two of d + 144) and random values up to 300
DSIZES = [1, 7, 8, 24, 40, 48, 55, 56, 57, 63, 64, 65, 104, 111, 112, 113, 119, 120, 121, 128, 200, 255, 256, 257, 300]
BIGCAPS = [9, 12, 16, 17, 24, 31, 32, 33, 48, 63, 64, 65, 70]


def _dsize(rng):
    """None (the driver's default 24) in a third of the cases, a boundary in a third, random 1..300 otherwise"""
    k = rng.below(3)
    if k == 0:
        return None
    if k == 1:
        return rng.choice(DSIZES)
    return rng.range(1, 300)


def _discovery_cases():
    return [_mk("disc-ts", "ts 2", ["a,a,f0,a", "a,f0"], "rand 1 30 0 0"),
            _mk("disc-ts2", "ts 4", ["a,a,a,a,f0,a", "f0,f0"], "rand 2 30 0 0"),
            _mk("disc-sowr", "sowr 2 0", ["a,a,a,a", "f0,f0"], "rand 3 30 0 0"),
            _mk("disc-ring", "ring 2 1", ["a,o0,a", "a,o0"], "rand 4 30 0 0")]


def gen_params(ctx):
    """Memory orders actually passed by the code at each atomic site (observed by the hooks)."""
    exe = build_impl(ctx)
    res = V.run_batch(exe, _discovery_cases(), per_case_timeout=5.0)
    seen = {}
    for name, r in res.items():
        kind = name.split("-")[1].rstrip("0123456789")
        for ln in r["lines"]:
            w = ln.split()
            if len(w) >= 5 and w[0] == "E":
                cell = "u" if re.match(r"u\d+\+0$", w[3]) else w[3]
                seen.setdefault((kind, w[2], cell), set()).add(w[4])
    fields, notes = [], []
    for field, kind, op, cell in SITES:
        mos = seen.get((kind, op, cell), set())
        if len(mos) != 1:
            # an unobserved or ambiguous site is a failed obligation, not a default
            notes.append("(* site %s (%s %s %s): observed %s *)" % (field, kind, op, cell, sorted(mos)))
            fields.append("%s := MoNone" % field)
        else:
            fields.append("%s := %s" % (field, MO.get(next(iter(mos)), "MoNone")))
    return ("(* generated by lib/props/c05.py from the memory orders observed at each atomic site of\n"
            "   threadsafe_memory_pool.c / sowr_memory_pool.c / ring_memory_pool.c / spinlock.c on this run; do not edit *)\n"
            "From MV Require Import C05.Model.\n" + "\n".join(notes) + ("\n" if notes else "") +
            "Definition code_params : params :=\n  {| " + ";\n     ".join(fields) + " |}.\n" + leaf_text())


# second tie (DESIGN.md 4.4): the index arithmetic between the atomic operations, sliced out of the C text of
# this run (lib/props/c05_slice.py) and translated with the shared translator lib/leaftrans.py
PARAMS_C = "harness/drivers/c05_params.c"


def _sizes_and_consts():
    """type sizes / enum values as the headers of the checked tree define them (params program of this run)"""
    V.gen_config_header()
    outdir = os.path.join(V.BUILD, ID)
    os.makedirs(outdir, exist_ok=True)
    exe = os.path.join(outdir, "params.%d" % os.getpid())
    sizeofs, consts = {}, {}
    rc, out, err = V.sh([V.CC, "-std=gnu11", "-w", "-I" + V.REPO, "-I" + V.GEN_INC,
                         os.path.join(V.VERIF, PARAMS_C), "-o", exe], timeout=120)
    if rc == 0:
        rc, out, err = V.sh([exe], timeout=20)
        for ln in out.split("\n"):
            w = ln.split()
            if len(w) == 3 and w[0] == "sizeof":
                sizeofs[w[1]] = int(w[2])
            elif len(w) == 3 and w[0] == "const":
                consts[w[1]] = int(w[2])
    try:
        os.remove(exe)
    except OSError:
        pass
    return sizeofs, consts, (err or "")[-300:] if rc != 0 else ""


def leaf_text():
    from props import c05_slice as S
    lines = ["", "(* --- index arithmetic re-translated from threadsafe_memory_pool.c / sowr_memory_pool.c /",
             "   ring_memory_pool.c on this run (lib/props/c05_slice.py + lib/leaftrans.py); do not edit --- *)",
             "From MV Require Import Lib.Leaf C05.GenLib.", "Local Open Scope Z_scope."]
    sizeofs, consts, perr = _sizes_and_consts()
    if perr:
        lines.append("(* params program failed: %s *)" % perr.replace("*)", "* )").replace("(*", "( *"))
    for k in sorted(sizeofs):
        lines.append("Definition code_sizeof_%s : Z := %d." % (k, sizeofs[k]))
    for k in sorted(consts):
        lines.append("Definition code_%s : Z := %d." % (k, consts[k]))
    flags = ["-std=gnu11", "-I" + V.REPO, "-I" + V.GEN_INC, "-DNDEBUG"]
    for gname, text, err in S.translate_all(V.REPO, flags, sizeofs, consts):
        if text is None:
            # a translator failure must BREAK the obligation: the definition is missing, Properties_C05.v fails
            lines.append("(* %s: %s *)\n" % (gname, err.replace("*)", "* )").replace("(*", "( *")))
        else:
            lines.append(text)
    return "\n".join(lines) + "\n"


# ---------------------------------------------------------------------------
# cases

ABA_SCRIPTS = ["a", "a,a,a,o1,a"]
# model schedule found by Coq (C05/ProofsTs.v, ts_aba_refuted): T0 reads ptrs[0] and stops before its CAS;
# T1 allocates b0 b1 b2, frees b1, allocates b3: alloc_idx is 0 again; T0's CAS succeeds
ABA_SCHED = "list - 0 0 0 " + " ".join(["1"] * 27) + " 0 0"


def corpus_cases(ctx):
    out = []
    p = os.path.join(V.VERIF, "corpus", ID)
    if os.path.isdir(p):
        for f in sorted(os.listdir(p)):
            if f.endswith(".case"):
                out.append(V.Case.load(os.path.join(p, f)))
    return out


def _script(rng, n_ops, p_alloc, free_kind, quota=None):
    ops, held = [], 0
    for _ in range(n_ops):
        if (quota is None or held < quota) and rng.chance(p_alloc, 100):
            ops.append("a")
            held += 1
        else:
            k = rng.below(4)
            ops.append("%s%d" % (free_kind if free_kind != "x" else rng.choice("fo"), k))
            if held > 0:
                held -= 1
    return ",".join(ops)


def _sched(rng, spur=False):
    return "rand %d %d %d 0" % (rng.below(1 << 30), rng.choice([20, 50, 80, 90]), rng.choice([0, 20]) if spur else 0)


def generate(rng, tier):
    cases = []
    q = tier == "quick"
    n_each = 1000 if q else 12000
    # ts pool, single allocator thread, 1..3 freer threads
    for i in range(n_each):
        cap = rng.range(1, 8)
        nf = rng.range(1, 3)
        scripts = [_script(rng, rng.range(4, 14), 75, "x")]
        scripts += [",".join("f%d" % rng.below(4) for _ in range(rng.range(2, 8))) for _ in range(nf)]
        cases.append(_mk("ts1-%d" % i, "ts %d" % cap, scripts, _sched(rng, True), _dsize(rng)))
    # ts pool, single thread (sequential history, permuted free orders)
    for i in range(n_each // 3):
        cap = rng.range(1, 8)
        cases.append(_mk("tsseq-%d" % i, "ts %d" % cap, [_script(rng, rng.range(8, 30), 60, "f")], _sched(rng, True), _dsize(rng)))
    # ts pool, 2..3 threads that all allocate and free (known class: frequently hit)
    for i in range(n_each):
        cap = rng.range(2, 8)
        n = rng.range(2, 3)
        scripts = [_script(rng, rng.range(3, 10), 65, "x") for _ in range(n)]
        cases.append(_mk("tsN-%d" % i, "ts %d" % cap, scripts, _sched(rng, True), _dsize(rng)))
    # sowr pool
    for i in range(n_each):
        cap = rng.range(0, 8)       # 0: the default capacity 8
        rc = _round_cap("sowr", cap)
        base = rng.choice([0, 0, rc, (1 << 32) - rc, (1 << 32) - 2 * rc])
        na = rng.range(3, 20)
        scripts = [",".join(["a"] * na), ",".join("f%d" % rng.below(5) for _ in range(rng.range(1, 10)))]
        cases.append(_mk("sowr-%d" % i, "sowr %d %d" % (cap, base), scripts, _sched(rng), _dsize(rng)))
    for i in range(n_each // 3):
        cap = rng.range(0, 8)
        rc = _round_cap("sowr", cap)
        base = rng.choice([0, (1 << 32) - rc])
        cases.append(_mk("sowrseq-%d" % i, "sowr %d %d" % (cap, base), [_script(rng, rng.range(6, 30), 70, "f")], _sched(rng), _dsize(rng)))
    # ring pool, threadsafe_alloc, several allocating threads (quotas sum to <= rounded capacity)
    for i in range(n_each):
        cap = rng.range(2, 8)
        rc = 2
        while rc < cap:
            rc *= 2
        n = rng.range(2, min(3, rc))
        quotas = [1] * n
        for _ in range(rc - n):
            if rng.chance(2, 3):
                quotas[rng.below(n)] += 1
        scripts = [_script(rng, rng.range(3, 10), 65, "o", quota=quotas[t]) for t in range(n)]
        cases.append(_mk("ringL-%d" % i, "ring %d 1" % cap, scripts, _sched(rng), _dsize(rng)))
    # ring pool, plain alloc, one allocating thread and freer threads
    for i in range(n_each):
        cap = rng.range(0, 8)       # 0 and 1: the minimum capacity 2
        rc = _round_cap("ring", cap)
        nf = rng.range(0, 2)
        scripts = [_script(rng, rng.range(4, 16), 70, "x", quota=rc)]
        scripts += [",".join("f%d" % rng.below(4) for _ in range(rng.range(1, 6))) for _ in range(nf)]
        cases.append(_mk("ringU-%d" % i, "ring %d 0" % cap, scripts, _sched(rng), _dsize(rng)))
    # ring pool, the all-owned state: pure allocating thread(s) that allocate more than the capacity while
    # consumers with BLOCKING frees (k >= 100: wait until there is a block to free) release blocks only
    # afterwards; the allocation that finds every block owned must keep scanning until a free has happened.
    # Termination under every fair schedule: allocs - capacity <= frees <= allocs.
    for i in range(n_each):
        locked = i % 2
        cap = rng.range(1, 8) if not locked else rng.range(2, 8)
        rc = 2
        while rc < cap:
            rc *= 2
        if rc > 4 and rng.chance(2, 3):
            cap, rc = rng.choice([(1, 2), (2, 2), (3, 4), (4, 4)])
        na = rng.range(2, 3) if locked else 1
        allocs = [rng.range(1, rc + 2) for _ in range(na)]
        n_all = sum(allocs)
        if n_all <= rc:
            allocs[0] += rc + 1 - n_all
            n_all = rc + 1
        m = rng.range(n_all - rc, n_all)
        nc = rng.range(1, 2)
        per = [0] * nc
        for _ in range(m):
            per[rng.below(nc)] += 1
        scripts = [",".join(["a"] * k) for k in allocs]
        scripts += [",".join("f%d" % (100 + rng.below(4)) for _ in range(k)) for k in per]
        cases.append(_mk("ringW%s-%d" % ("L" if locked else "U", i), "ring %d %d" % (cap, locked), scripts, _sched(rng), _dsize(rng)))
    # capacities above 8 (requested 9 .. 70, rounded 16 .. 128): fill the pool to exhaustion and beyond, free, go on
    n_big = 60 if q else 600
    for i in range(n_big):
        cap = rng.choice(BIGCAPS)
        kind = ("ts", "sowr", "ring")[i % 3]
        rc = _round_cap(kind, cap)
        ds = _dsize(rng)
        if kind == "ts":
            k1 = rng.range(rc - 2, rc + 1)
            script = ",".join(["a"] * k1 + ["f%d" % rng.below(rc) for _ in range(rng.range(1, 5))] + ["a"] * rng.range(1, 6))
            freer = ",".join("f%d" % rng.below(rc) for _ in range(rng.range(0, 6)))
            cases.append(_mk("tsbig-%d" % i, "ts %d" % cap, [script] + ([freer] if freer else []), _sched(rng, True), ds))
        elif kind == "sowr":
            base = rng.choice([0, 0, (1 << 32) - rc, (1 << 32) - 2 * rc])
            scripts = [",".join(["a"] * rng.range(rc - 2, rc + 6)), ",".join("f%d" % rng.below(rc) for _ in range(rng.range(1, 8)))]
            cases.append(_mk("sowrbig-%d" % i, "sowr %d %d" % (cap, base), scripts, _sched(rng), ds))
        else:
            script = ",".join(["a"] * rc + ["o%d" % rng.below(rc) for _ in range(rng.range(1, 6))] + ["a"] * rng.range(0, 1))
            cases.append(_mk("ringbig-%d" % i, "ring %d 0" % cap, [script], _sched(rng), ds))
    # capacity 0: the thread-safe pool refuses it (the other two have defaults, drawn above)
    for i in range(4 if q else 20):
        cases.append(_mk("ts-cap0-%d" % i, "ts 0", ["a,a,f0"], _sched(rng), _dsize(rng)))
    # the model-derived ABA schedule, on every capacity that rounds to 4 and with the single-allocator control
    cases.append(_mk("ts-aba-model-schedule", "ts 4", ABA_SCRIPTS, ABA_SCHED))
    cases.append(_mk("ts-aba-model-schedule-cap3", "ts 3", ABA_SCRIPTS, ABA_SCHED))
    return cases


def search(rng, diverging, tier):
    out = []
    for i in range(1500):
        cap = rng.range(1, 8)
        nf = rng.range(1, 3)
        scripts = [_script(rng, rng.range(4, 14), 75, "x")]
        scripts += [",".join("f%d" % rng.below(4) for _ in range(rng.range(2, 8))) for _ in range(nf)]
        out.append(_mk("search-ts1-%d" % i, "ts %d" % cap, scripts, _sched(rng, True), rng.choice(DSIZES)))
    for i in range(1500):
        cap = rng.range(1, 8)
        scripts = [",".join(["a"] * rng.range(3, 20)), ",".join("f%d" % rng.below(5) for _ in range(rng.range(1, 10)))]
        out.append(_mk("search-sowr-%d" % i, "sowr %d 0" % cap, scripts, _sched(rng), rng.choice(DSIZES)))
    for i in range(1000):
        cap = rng.range(1, 8)
        out.append(_mk("search-ring-%d" % i, "ring %d 0" % cap, [_script(rng, rng.range(4, 16), 70, "o", quota=2)], _sched(rng),
                       rng.choice(DSIZES)))
    for i in range(300):
        cap = rng.choice(BIGCAPS)
        kind = ("ts", "sowr", "ring")[i % 3]
        rc = _round_cap(kind, cap)
        if kind == "ring":
            scripts = [",".join(["a"] * rc + ["o0", "a"])]
        else:
            scripts = [",".join(["a"] * (rc + 1)), ",".join(["f0"] * 3)]
        # a third of them with large blocks: block offsets beyond 16 bits
        out.append(_mk("search-big-%d" % i, "%s %d%s" % (kind, cap, {"ts": "", "sowr": " 0", "ring": " 0"}[kind]), scripts,
                       _sched(rng), rng.choice(DSIZES) if i % 9 < 6 else rng.choice([1000, 2048, 4000, 4096])))
    return out


def _param_vals():
    p = os.path.join(V.COQ, "gen", "Params_C05.v")
    txt = open(p).read()
    vals = []
    for field, _, _, _ in SITES:
        m = re.search(r"%s := (\w+)" % field, txt)
        vals.append(m.group(1) if m else "MoNone")
    return vals


def model_search(ctx):
    """The memory-order obligation broke (an order was weakened): x86 under a serialised run cannot show the
    effect, so look for a history of the MODEL (single-allocator ts pool), with the parameters extracted from
    the code, in which an allocator reads a ptrs[] entry that is not covered by its view."""
    vals = _param_vals()
    cases = []
    scens = [("ts 2", ["a,a,a,a,a,a", "f0,f0,f0"]), ("ts 4", ["a,a,a,a,a,a,a,a", "f0,f0,f0,f0", "f1,f0"]),
             ("ts 2", ["a,f0,a,f0,a"])]
    for i, (pool, scripts) in enumerate(scens):
        c = _mk("modelsearch-%d" % i, pool, scripts, "rand 1 50 0 0")
        c.lines = c.lines[:-1] + ["params " + " ".join(vals), "explore %d 4000 uncov" % (ctx.seed + i)]
        cases.append(c)
    res = ctx.run_model(cases)
    for c in cases:
        r = res.get(c.name)
        if r and r["lines"] and r["lines"][0].startswith("FOUND"):
            return (V.Case(c.name, list(c.lines) + r["lines"]),
                    "model history (memory orders as extracted from the code: %s): %s" % (" ".join(vals), r["lines"][0][6:]))
    return None


def model_cases(cases, impl_results):
    out = []
    for c in cases:
        r = impl_results.get(c.name)
        lines = list(c.lines) + ["TRACE"] + (list(r["lines"]) if r else [])
        out.append(V.Case(c.name, lines, c.meta))
    return out


def canon(lines):
    return [ln for ln in lines if not ln.startswith("G ")]


# ---------------------------------------------------------------------------
# independent monitor (does not use the Coq model)

def _scen(case):
    pool, scripts = None, []
    for ln in case.lines:
        w = ln.split()
        if not w:
            continue
        if w[0] == "pool":
            pool = w[1:]
        elif w[0] == "thr":
            scripts.append(w[1] if len(w) > 1 else "-")
    return pool, scripts


def _round_cap(kind, c):
    """capacity the pool works with for a requested capacity (0 for the ts pool: init refuses)"""
    if kind == "ring" and c < 2:
        c = 2
    if kind == "sowr" and c == 0:
        c = 8
    if kind == "ts" and c == 0:
        return 0
    r = 1
    while r < c:
        r *= 2
    return r


HEAD = {"ts": 8, "sowr": 16, "ring": 144}


def _dsize_of(case):
    for ln in case.lines:
        w = ln.split()
        if len(w) == 2 and w[0] == "dsize":
            return int(w[1])
    return 24


def n_allocators(case):
    _, scripts = _scen(case)
    return sum(1 for s in scripts if "a" in s.split(","))


class TsCausal:
    """ts pool, several allocators: causal bookkeeping for the two recorded known classes, from the trace alone.
    The ring of pointers, alloc_idx / free_idx and the provenance of the racy plain cached_free_pos are
    reconstructed, and every successful allocation (CAS on alloc_idx) is examined on its own:
      W1  another thread's successful CAS lies between THIS allocation's read of ptrs[expected] (end of its previous
          plain segment) and its CAS: alloc_idx has then completed a full cycle (ABA);
      W3  another thread rewrote cached_free_pos between THIS allocation's compare with it and its CAS;
      SC  the cached_free_pos value THIS allocation compared with had been written back stale (between the writer's
          load of free_idx and its write-back another thread's CAS succeeded - W2 - or another thread refreshed
          cached_free_pos, so that an older snapshot went over a newer one), or alloc_idx had been advanced past it by
          an allocation with a window of its own - by any thread, still in effect (until the next clean refresh).
    The pool is CORRUPTED (and stays so) once such an allocation returned a pointer that is not the current
    ptrs[expected] (the stale pointer of the ABA: one block is now twice in circulation, another lost), or took a slot
    beyond the usable capacity (successful allocations - completed frees > capacity - 1: the racy exhaustion test let
    alloc_idx overtake free_idx).  An anomaly is attributed to the recorded class only if it is this allocation's own
    window (W1 / W3 / SC) or the pool was corrupted by such an allocation before; a stale pointer or an overtake by an
    allocation WITHOUT its own racy window is a different defect and is never attributed."""

    def __init__(self, cap):
        self.cap = cap
        self.ring = list(range(cap))
        self.free_idx = 0
        self.A = self.F = 0
        self.cas_ok = []            # (index, thread)
        self.cache_w = []           # (index, thread): plain segments that wrote cached_free_pos
        self.cache_stale = False    # the value now in cached_free_pos was written back stale
        self.last_p = {}            # thread -> index of the end of its last plain segment
        self.cmp_stale = {}         # thread -> cached_free_pos was stale when the thread last compared with it
        self.load_at = {}           # thread -> index of its load of free_idx, write-back pending
        self.pending = {}           # thread -> facts of its successful CAS until the return note
        self.freeing = {}           # thread -> block it is giving back
        self.corrupted = None       # why, once a racy allocation has corrupted the ring
        self.unexplained = None     # a stale pointer / an overtake by an allocation without a racy window

    def feed(self, i, w):
        if w[0] == "P":
            t = w[1]
            if t in self.load_at:
                ld = self.load_at[t]
                # stale write-back: since this thread loaded free_idx another allocator's CAS succeeded (W2) or another
                # thread refreshed cached_free_pos (this write puts an older snapshot over a newer one)
                self.cache_stale = (any(j > ld and u != t for j, u in self.cas_ok) or
                                    any(j > ld and u != t for j, u in self.cache_w))
                self.cache_w.append((i, t))
                del self.load_at[t]
            self.last_p[t] = i
            self.cmp_stale[t] = self.cache_stale
        elif w[0] == "E":
            t = w[1]
            if w[2] == "load" and w[3] == "free":
                self.load_at[t] = i
            elif w[2] == "store" and w[3] == "free":
                if t in self.freeing and 0 <= self.free_idx < self.cap:
                    self.ring[self.free_idx] = self.freeing.pop(t)
                self.free_idx = int(w[5])
                self.F += 1
            elif w[2] == "casw" and w[3] == "alloc" and w[7] == "1":
                j0 = self.last_p.get(t, -1)
                e = int(w[5])
                why = []
                if any(j > j0 and u != t for j, u in self.cas_ok):
                    why.append("W1")
                if any(j > j0 and u != t for j, u in self.cache_w):
                    why.append("W3")
                if self.cmp_stale.get(t, False):
                    why.append("SC")
                self.cas_ok.append((i, t))
                self.A += 1
                fresh = self.ring[e] if 0 <= e < self.cap else None
                self.pending[t] = {"why": why, "fresh": fresh, "slot": e}
                if why:
                    # alloc_idx was advanced on an exhaustion test that was no longer valid at the CAS: cached_free_pos is
                    # not known to be ahead of alloc_idx any more (until the next clean refresh)
                    self.cache_stale = True
                if self.A - self.F > self.cap - 1:
                    if why:
                        self.corrupted = self.corrupted or ("alloc_idx overtook free_idx in an allocation with window %s"
                                                            % "+".join(why))
                    else:
                        self.unexplained = self.unexplained or "alloc_idx overtook free_idx in an allocation without a racy window"
        elif w[0] == "R":
            t = w[1]
            if w[2] == "f" and len(w) > 3 and re.match(r"b\d+$", w[3]):
                self.freeing[t] = int(w[3][1:])

    def returned(self, t, b):
        """the return note of thread t's allocation: was the pointer the current ptrs[expected]?"""
        pr = self.pending.get(t)
        if pr is not None and pr["fresh"] is not None and pr["fresh"] != b:
            if "W1" in pr["why"]:
                self.corrupted = self.corrupted or "an allocation with window W1 returned the stale ptrs[expected] (ABA)"
            else:
                self.unexplained = self.unexplained or ("an allocation without window W1 returned a pointer that is not "
                                                        "ptrs[expected]")

    def explain(self, t):
        """tag for an anomaly of thread t's current allocation: '' when it cannot be attributed to the racy windows"""
        pr = self.pending.get(t) or {"why": []}
        if self.unexplained and not self.corrupted and not pr["why"]:
            return ""
        if pr["why"]:
            return " [racy-window %s of this allocation]" % ",".join(pr["why"])
        if self.corrupted:
            return " [pool corrupted earlier: %s]" % self.corrupted
        return ""

    def done(self, t):
        self.pending.pop(t, None)


def monitor(case, lines):
    pool, scripts = _scen(case)
    if not pool:
        return None
    kind = pool[0]
    f = [ln for ln in lines if ln.startswith("F ")]
    if f and f[0] == "F badcase":
        return None
    cap = _round_cap(kind, int(pool[1]))
    dsize = _dsize_of(case)
    refused = any(ln == "F init refused" for ln in f)
    if refused != (cap == 0):
        return ("init %s the requested capacity %s (data size %d)" %
                ("refused" if refused else "accepted", pool[1], dsize))
    if refused:
        return None
    if any(ln.startswith("F init ") for ln in f):
        return "init failed: %s" % [ln for ln in f if ln.startswith("F init ")][0]
    # block geometry as init computed it: a block must hold its head and the data, the slab all blocks
    g = [re.match(r"F geom bs=(\d+) head=(\d+) dsize=(\d+) slab=(\d+)$", ln) for ln in f]
    g = [m for m in g if m]
    if g:
        bs, head, ds, slab = [int(x) for x in g[0].groups()]
        if head != HEAD[kind] or ds != dsize:
            return "harness anomaly: geometry line %r does not describe this case" % g[0].group(0)
        if bs < head + dsize:
            return ("block geometry: block size %d is smaller than head %d + data size %d: user regions overlap the "
                    "next block" % (bs, head, dsize))
        if slab < cap * bs:
            return ("block geometry: the data area obtained from the allocator has %d bytes, %d blocks of %d bytes need %d"
                    % (slab, cap, bs, cap * bs))
    elif any(ln.startswith("F ") and ln.split()[1] in ("ts", "sowr", "ring") for ln in f):
        return "no geometry line"
    owner = {}               # block -> owning thread (harness-independent ownership map from the notes)
    order = []               # blocks in order of return (sowr: free order)
    pend_alloc = set()       # threads between a successful take and the return note
    pend_free = {}           # thread -> blocks given to free whose release is not yet published
    in_call = {}             # thread -> max number of unavailable blocks seen during its current alloc call
    obs = {}                 # ts: thread -> line index at which it last observed alloc_idx (call start / own CAS)
    cas_ok = []              # ts: (line index, thread) of successful CAS operations on alloc_idx
    causal = TsCausal(cap) if kind == "ts" else None

    def unavailable():
        return len(owner) + len(pend_alloc) + sum(len(v) for v in pend_free.values())

    def bump():
        u = unavailable()
        for t in in_call:
            if u > in_call[t]:
                in_call[t] = u

    for i, ln in enumerate(lines):
        w = ln.split()
        if not w:
            continue
        if causal is not None:
            causal.feed(i, w)
        if w[0] in ("DEADLOCK", "LIVELOCK"):
            return "scheduler reported %s" % ln
        if w[0] == "E":
            t = w[1]
            if kind == "ts" and w[2] == "casw" and w[3] == "alloc":
                obs[t] = i
                if w[7] == "1":
                    cas_ok.append((i, t))
                    pend_alloc.add(t)
                    bump()
            elif kind in ("ts", "sowr") and w[2] == "store" and w[3] == "free":
                pend_free.pop(t, None)
            elif kind == "ring" and w[2] == "store":
                pend_free.pop(t, None)
        elif w[0] == "R":
            t = w[1]
            if w[2] == "a":
                in_call[t] = unavailable()
                obs[t] = i
            elif w[2] == "r":
                seen = in_call.pop(t, None)
                pend_alloc.discard(t)
                if w[3] == "NULL":
                    if kind == "ring":
                        return "ring pool alloc returned NULL"
                    if seen is None or seen < cap - 1:
                        # attributed to the recorded class only when THIS thread's expected was stale (another allocator's
                        # CAS succeeded after this thread last observed alloc_idx), or the pool was corrupted before
                        stale = kind == "ts" and any(j > obs.get(t, -1) and u != t for j, u in cas_ok)
                        return ("exhaustion reported to thread %s although at most %s of %d blocks were unavailable "
                                "during the call (usable capacity %d)%s%s" % (
                                    t, seen, cap, cap - 1,
                                    " [stale-expected: another allocator moved alloc_idx after this thread read it]" if stale else "",
                                    (" [pool corrupted earlier: %s]" % causal.corrupted) if causal is not None and causal.corrupted else ""))
                    if causal is not None:
                        causal.done(t)
                elif re.match(r"b\d+$", w[3]):
                    b = int(w[3][1:])
                    if len(w) > 4 and w[4] != "DUP":
                        return "harness anomaly: %s" % ln
                    if causal is not None:
                        causal.returned(t, b)
                    if b in owner or any(b in v for v in pend_free.values()):
                        return ("double hand-out: block %d returned to thread %s while still owned by thread %s "
                                "(allocated and not freed)%s" % (b, t, owner.get(b, "?(being freed)"),
                                                                 causal.explain(t) if causal is not None else ""))
                    if len(w) > 4:
                        return "harness reports DUP for block %d which the monitor does not hold" % b
                    if b >= cap:
                        return "block id %d outside the pool of %d blocks" % (b, cap)
                    owner[b] = t
                    order.append(b)
                    bump()
                    if causal is not None:
                        causal.done(t)
                else:
                    return "harness anomaly: %s" % ln
            elif w[2] == "AUDIT":
                return ("ring audit (harness, at a scheduling point): %s -- the published part of the ring must hold "
                        "distinct, unowned blocks at every instant" % " ".join(w[3:]))
            elif w[2] == "f":
                if w[3] == "skip":
                    continue
                if len(w) > 4 or not re.match(r"b\d+$", w[3]):
                    return "harness anomaly: %s" % ln
                b = int(w[3][1:])
                if b not in owner:
                    return "harness frees block %d which is not outstanding" % b
                if kind == "sowr":
                    k = order.index(b)
                    rel = order[:k + 1]
                    for x in rel:
                        owner.pop(x, None)
                    del order[:k + 1]
                else:
                    owner.pop(b)
                    order.remove(b)
                    rel = [b]
                pend_free[t] = rel
    if not f:
        return "no summary line"
    m = re.search(r" out=(\d+) dups=(\d+)", f[0])
    if not m:
        return "bad summary %r" % f[0]
    if int(m.group(2)) != 0:
        return "double hand-out: harness counted %s returns of a block it still held" % m.group(2)
    if int(m.group(1)) != len(owner):
        return "harness holds %s outstanding blocks, the monitor %d" % (m.group(1), len(owner))
    if any(ln.startswith("F anomalies") for ln in f):
        return "harness anomalies: %s" % f[-1]
    return None


def known_class(case, failure_text):
    """ts-stale-null: the ts pool used by >= 2 allocator threads reports exhaustion although free blocks exist,
    because the NULL test compares free_idx with an alloc_pos derived from THIS thread's stale expected value
    (another allocator's CAS succeeded after the thread last observed alloc_idx), or after a racy allocation has
    corrupted the ring accounting.
    ts-aba: the ts pool used by >= 2 allocator threads hands a block out twice and the double hand-out is causally the
    recorded one: the allocation's own read-to-CAS window spans a full alloc_idx cycle (W1), or its exhaustion test
    used the racy cached_free_pos (W3 / a stale write-back still in effect), or such an allocation corrupted the ring
    before (stale pointer returned / alloc_idx overtook free_idx); see TsCausal.  Any other double hand-out or early
    NULL in a multi-allocator case - e.g. one caused by an allocation with no racy window of its own - is reported."""
    pool, _ = _scen(case)
    if not pool or pool[0] != "ts" or not failure_text:
        return None
    if n_allocators(case) < 2:
        return None
    if failure_text.startswith("double hand-out: block") and ("[racy-window" in failure_text or "[pool corrupted earlier" in failure_text):
        return "ts-aba"
    if failure_text.startswith("exhaustion reported") and ("[stale-expected" in failure_text or "[pool corrupted earlier" in failure_text):
        return "ts-stale-null"
    return None


def nontrivial_key(case, lines):
    txt = "\n".join(lines)
    if (re.search(r"casw alloc \w+ \d+ \d+ [02]", txt) or " r NULL" in txt or " load free " in txt
            or re.search(r"load u\d+\+0 \w+ 1 ", txt) or re.search(r"tas lock \w+ 1 ", txt)):
        return hash(txt)
    return None


def tally(dist, case, lines):
    pool, scripts = _scen(case)
    if not pool:
        return
    k = pool[0] + ("-multi-alloc" if pool[0] == "ts" and n_allocators(case) >= 2 else "")
    dist[k] = dist.get(k, 0) + 1
    dist["cap=%d" % _round_cap(pool[0], int(pool[1]))] = dist.get("cap=%d" % _round_cap(pool[0], int(pool[1])), 0) + 1
    run1 = {}
    rcap = _round_cap(pool[0], int(pool[1]))
    for ln in lines:
        if pool[0] == "ring":
            w = ln.split()
            if len(w) > 5 and w[0] == "E" and w[2] == "load" and w[3].startswith("u"):
                run1[w[1]] = run1.get(w[1], 0) + 1 if w[5] == "1" else 0
                if run1[w[1]] == rcap:
                    dist["ring_alloc_scanned_full_lap_all_owned"] = dist.get("ring_alloc_scanned_full_lap_all_owned", 0) + 1
            elif len(w) > 2 and w[0] == "R" and w[2] == "a":
                run1[w[1]] = 0
        if ln.startswith("E "):
            dist["events"] = dist.get("events", 0) + 1
            if " casw alloc " in ln:
                if ln.endswith(" 2"):
                    dist["cas_spurious"] = dist.get("cas_spurious", 0) + 1
                elif ln.endswith(" 0"):
                    dist["cas_failed"] = dist.get("cas_failed", 0) + 1
        elif ln.startswith("R "):
            if " r NULL" in ln:
                dist["null_returns"] = dist.get("null_returns", 0) + 1
            elif " DUP" in ln:
                dist["double_handouts_known_class"] = dist.get("double_handouts_known_class", 0) + 1
            elif " r b" in ln:
                dist["blocks_returned"] = dist.get("blocks_returned", 0) + 1
    if pool[0] == "sowr" and len(pool) > 2 and int(pool[2]) > 0:
        dist["sowr_near_uint32_wrap"] = dist.get("sowr_near_uint32_wrap", 0) + 1


MANIFEST = {
    "level_text": ("Coq theorems over executable interleaving models (every schedule, any number of threads, any capacity, "
                   "spurious weak-CAS failures included) of the three pools with a ghost/harness ownership list: sowr pool "
                   "(one allocator, one freer, free-order usage; uint32 wrap of alloc_idx included) never double-hands, "
                   "reports exhaustion exactly at cap-1 outstanding and keeps serving; ring pool never double-hands; ts pool "
                   "with a single allocator thread and any number of freers never double-hands, reports exhaustion exactly, "
                   "and every plain ptrs[] read is covered (memory orders re-extracted from the code each run).  For >= 2 "
                   "allocator threads the property is REFUTED (known finding ts-aba: witness schedule by vm_compute, replayed "
                   "on the real code) and proved outside the known class (no commit inside another allocator's racy window).  "
                   "Tie: the real code runs under a deterministic scheduler and every trace is replayed on the extracted "
                   "model; an independent monitor keeps its own ownership map and exhaustion count on the traces.  Second "
                   "tie: the index arithmetic between the atomic operations, the capacity rounding and the block geometry of "
                   "the init functions are regenerated from the C text on every run and proved equal to the model's "
                   "definitions for every capacity 2^0..2^31 and every 32-bit cursor value (gen_*_matches_model); user "
                   "regions of data_size bytes at stride block_size are proved pairwise disjoint and inside the slab."),
    "design_ref": "DESIGN.md sections 3.2, 4.2, 4.3, 6/C05, Appendix A.8, B",
    "level_note": ("Trusted: Coq kernel, extraction, vsched scheduler, SC+views memory model as stand-in for C11; plain accesses "
                   "inside one plain segment are not interleaved (the repository is not edited); the racy cached_free_pos is "
                   "modelled as an SC cell."),
    "technique": "Coq invariant proofs over all interleavings (N threads) + known-finding pattern + deterministic-scheduler trace acceptance by the extracted model",
}
