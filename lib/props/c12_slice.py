"""C12 — slicer for the parameter-validation front of the set_key entry points (second tie of the
translator kind, DESIGN.md 4.4): muggle_openssl_aes_set_key (the key-size chain), muggle_aes_set_key and
muggle_des_set_key (argument checks, stored op / mode, what is handed to the key schedule).

The function is read from the clang JSON AST of the C text of this run (lib/leaftrans.load_function, the
preprocessor has already selected the configured branch and removed the NDEBUG asserts) and executed
symbolically by an extension of the shared leaf translator (lib/leaftrans.Tr) into ONE Gallina term over Z in
the vocabulary of coq/Lib/Leaf.v.  Nothing depends on the shape of the text:

  * integer parameters are arguments of the same name; every pointer parameter p is the argument nn_p (its
    address as an integer, 0 = NULL): `p != NULL`, `p == NULL`, `!p`, `if (p)` are translated, nothing else
    may be computed from a pointer;
  * the scalar fields named in `fields` of the structure parameters are arguments f_<name> (all of them,
    whether used or not) and every path returns their final values;
  * if / else, the conditional operator, `switch` on an integer (case groups, fall-through, `break` at the top
    level of the switch body, `default`), integer locals, assignment and compound assignment are followed;
  * a call of a function named in `opaque` is not entered: the k-th call on a path returns the argument
    ores_k and fills call slot k = (index of the callee in `opaque` (1-based), its integer arguments in order,
    padded with 0 up to three); unused slots are (0, 0, 0, 0).  The pointer arguments of these calls are
    summarised as text ($i = i-th parameter of the translated function, member paths, casts and & dropped:
    "openssl_key_expansion($1,$3->rd_key)") in a separate list, the same for every path;
  * pointer locals are followed when they are bound to such a description;
  * enumeration constants are resolved to their values by compiling a small C program against the headers;
  * every path ends in the same tuple (return value, f_<fields in sorted order>, slot_1 .. slot_n).

Anything else raises LeafError: the caller writes the reason as a comment and a definition that does not
type-check into coq/gen/Params_C12.v, which breaks the obligation (never a silent skip)."""
import os
import re
import subprocess
import leaftrans as L

LeafError = L.LeafError
NINT = 3            # integer arguments recorded per call slot


def qt(n):
    return n.get("type", {}).get("qualType", "")


def is_ptr_type(t):
    return t.replace("const", "").replace("restrict", "").strip().endswith("*") or "[" in t


def strip_all(n):
    """parentheses and value-preserving / pointer casts removed"""
    while True:
        k = n.get("kind")
        if k in ("ParenExpr", "ConstantExpr"):
            n = n["inner"][0]
        elif k in ("ImplicitCastExpr", "CStyleCastExpr") and n.get("castKind") in (
                "NoOp", "LValueToRValue", "BitCast", "ArrayToPointerDecay", "FunctionToPointerDecay"):
            n = n["inner"][-1]
        else:
            return n


def is_null(n):
    n = strip_all(n)
    k = n.get("kind")
    if k == "GNUNullExpr":
        return True
    if k in ("ImplicitCastExpr", "CStyleCastExpr") and n.get("castKind") == "NullToPointer":
        return True
    if k == "IntegerLiteral" and int(n.get("value", "1")) == 0:
        return True
    return False


def contains_kind(n, kind):
    if n.get("kind") == kind:
        return True
    return any(contains_kind(c, kind) for c in n.get("inner", []) if isinstance(c, dict))


class SetKeyTr(L.Tr):
    def __init__(self, fn, src, cflags, fields, opaque, nslots):
        super().__init__(fn, src, cflags)
        self.want_fields = sorted("f_" + f for f in fields)
        self.opaque = list(opaque)
        self.nslots = nslots
        self.enums = set()
        self.ptrcalls = set()
        self.parm_pos = {}
        self.pparams = []
        pos = 0
        for c in fn.get("inner", []):
            if c.get("kind") == "ParmVarDecl":
                pos += 1
                self.parm_pos[c["name"]] = pos
                if L.ctype(c) is None:
                    self.pparams.append(c["name"])

    # ---- fields: only the announced scalar fields of the structure parameters
    def fkey(self, node):
        base = strip_all(node["inner"][0])
        if base.get("kind") != "DeclRefExpr" or base["referencedDecl"]["name"] not in self.ptrs:
            raise LeafError("member access whose base is not a structure parameter")
        key = "f_%s" % node["name"]
        if key not in self.want_fields or L.ctype(node) is None:
            raise LeafError("field %s is not one of the scalar fields %s" % (node["name"], ", ".join(self.want_fields)))
        return key

    # ---- pointers
    def pdesc(self, n, env):
        """canonical text of a pointer-valued (or structure lvalue) expression"""
        n = strip_all(n)
        k = n.get("kind")
        if is_null(n):
            return "NULL"
        if k == "DeclRefExpr":
            nm = n["referencedDecl"]["name"]
            if n["referencedDecl"].get("kind") == "ParmVarDecl":
                return "$%d" % self.parm_pos[nm]
            v = env.get(nm)
            if isinstance(v, tuple) and v[0] == "P":
                return v[1]
            raise LeafError("pointer variable %s has no known value" % nm)
        if k == "UnaryOperator" and n.get("opcode") == "&":
            return self.pdesc(n["inner"][0], env)
        if k == "MemberExpr":
            return self.pdesc(n["inner"][0], env) + ("->" if n.get("isArrow") else ".") + n["name"]
        raise LeafError("unsupported pointer expression " + str(k))

    def pz(self, n, env):
        """integer value of a pointer for the purpose of NULL tests"""
        if is_null(n):
            return "0"
        m = strip_all(n)
        if m.get("kind") == "DeclRefExpr" and m["referencedDecl"].get("kind") == "ParmVarDecl" and \
                m["referencedDecl"]["name"] in self.pparams:
            return "nn_" + m["referencedDecl"]["name"]
        raise LeafError("NULL test of something that is not a pointer parameter")

    # ---- opaque calls
    def call(self, n, env):
        callee = strip_all(n["inner"][0])
        if callee.get("kind") != "DeclRefExpr":
            raise LeafError("indirect call")
        name = callee["referencedDecl"]["name"]
        if name not in self.opaque:
            raise LeafError("call of %s (only %s may be called)" % (name, ", ".join(self.opaque)))
        ints, ptrs = [], []
        for a in n["inner"][1:]:
            if is_ptr_type(qt(a)):
                ptrs.append(self.pdesc(a, env))
            else:
                ints.append(self.z(a, env))
        if len(ints) > NINT:
            raise LeafError("call of %s with more than %d integer arguments" % (name, NINT))
        slots = list(env.get("@slots", ()))
        if len(slots) >= self.nslots:
            raise LeafError("more than %d call(s) on one path" % self.nslots)
        slots.append("(%s)" % ", ".join(["(%d)" % (self.opaque.index(name) + 1)] + ints + ["0"] * (NINT - len(ints))))
        env["@slots"] = tuple(slots)
        self.ptrcalls.add("%s(%s)" % (name, ",".join(ptrs)))
        return ("ores_%d" % len(slots), "Z")

    # ---- expressions (env may be extended by a call: callers pass a private copy)
    def ex(self, n, env):
        k = n.get("kind")
        if k == "CallExpr":
            return self.call(n, env)
        if k == "DeclRefExpr" and n["referencedDecl"].get("kind") == "EnumConstantDecl":
            self.enums.add(n["referencedDecl"]["name"])
            return ("@ENUM:%s@" % n["referencedDecl"]["name"], "Z")
        if k in ("ImplicitCastExpr", "CStyleCastExpr") and n.get("castKind") == "PointerToBoolean":
            return ("(negb (%s =? 0))" % self.pz(n["inner"][-1], env), "B")
        if k == "UnaryOperator" and n.get("opcode") == "!" and is_ptr_type(qt(n["inner"][0])):
            return ("(%s =? 0)" % self.pz(n["inner"][0], env), "B")
        if k == "BinaryOperator" and n.get("opcode") in ("==", "!=") and \
                (is_ptr_type(qt(n["inner"][0])) or is_ptr_type(qt(n["inner"][1]))):
            e = "(%s =? %s)" % (self.pz(n["inner"][0], env), self.pz(n["inner"][1], env))
            return (e if n["opcode"] == "==" else "(negb %s)" % e, "B")
        if k == "BinaryOperator" and n.get("opcode") == ",":
            raise LeafError("comma operator")
        return super().ex(n, env)

    # ---- statements
    def switch_runs(self, body):
        """-> [(label value nodes | None for default, [statements executed from there])], falls_out_default"""
        items = []

        def flat(s):
            k = s.get("kind")
            if k == "CaseStmt":
                items.append(("case", s["inner"][0]))
                flat(s["inner"][-1])
            elif k == "DefaultStmt":
                items.append(("default", None))
                flat(s["inner"][-1])
            elif k == "CompoundStmt":
                for c in s.get("inner", []):
                    flat(c)
            else:
                items.append(("stmt", s))
        flat(body)
        runs = []
        for i, (kind, val) in enumerate(items):
            if kind == "stmt":
                continue
            run = []
            for kind2, s in items[i + 1:]:
                if kind2 != "stmt":
                    continue
                if s.get("kind") == "BreakStmt":
                    break
                if contains_kind(s, "BreakStmt") or contains_kind(s, "CaseStmt") or contains_kind(s, "DefaultStmt"):
                    raise LeafError("break / case label nested inside a statement of a switch")
                run.append(s)
            runs.append((val if kind == "case" else None, run))
        for kd, x in items:
            if kd != "stmt":
                break
            if x.get("kind") != "NullStmt":
                raise LeafError("statement before the first case label")
        return runs

    def stmts(self, ss, env, ret_kind):
        if not ss:
            return self.result(None, dict(env), ret_kind)
        s, rest = ss[0], ss[1:]
        k = s.get("kind")
        if k == "DeclStmt":
            # pointer locals are bound to a description (or left unbound); integer locals as in the base class
            ptr_decls = [d for d in s.get("inner", []) if d.get("kind") == "VarDecl" and L.ctype(d) is None]
            if ptr_decls:
                if len(ptr_decls) != len(s.get("inner", [])):
                    raise LeafError("mixed declaration")
                env = dict(env)
                for d in ptr_decls:
                    if not is_ptr_type(qt(d)):
                        raise LeafError("local of type " + qt(d))
                    init = [c for c in d.get("inner", []) if isinstance(c, dict) and c.get("kind") not in ("FullComment",)]
                    env[d["name"]] = ("P", self.pdesc(init[-1], env)) if init else ("U",)
                return self.stmts(rest, env, ret_kind)
            env = dict(env)
            out = ""
            for d in s.get("inner", []):
                if d.get("kind") != "VarDecl":
                    raise LeafError("unsupported declaration")
                nm = self.fresh(d["name"])
                init = d.get("inner", [])
                val = self.z(init[-1], env) if init else "0"
                out += "let %s := %s in\n  " % (nm, val)
                env[d["name"]] = nm
            return out + self.stmts(rest, env, ret_kind)
        if k == "BinaryOperator" and s.get("opcode") == "=" and is_ptr_type(qt(s["inner"][0])):
            lhs = strip_all(s["inner"][0])
            if lhs.get("kind") != "DeclRefExpr" or lhs["referencedDecl"].get("kind") != "VarDecl":
                raise LeafError("store of a pointer into something that is not a local")
            env = dict(env)
            env[lhs["referencedDecl"]["name"]] = ("P", self.pdesc(s["inner"][1], env))
            return self.stmts(rest, env, ret_kind)
        if k == "CallExpr":
            env = dict(env)
            self.call(s, env)
            return self.stmts(rest, env, ret_kind)
        if k in ("CStyleCastExpr",) and qt(s) == "void":
            return self.stmts(rest, env, ret_kind)
        if k == "ReturnStmt":
            inner = s.get("inner", [])
            return self.result(inner[0] if inner else None, dict(env), ret_kind)
        if k == "IfStmt":
            inner = s["inner"]
            env = dict(env)
            c = self.b(inner[0], env)
            then = [inner[1]]
            els = [inner[2]] if len(inner) > 2 else []
            return "(if %s\n  then %s\n  else %s)" % (c, self.stmts(then + rest, env, ret_kind),
                                                      self.stmts(els + rest, env, ret_kind))
        if k == "SwitchStmt":
            inner = [c for c in s["inner"] if isinstance(c, dict)]
            env = dict(env)
            v = self.fresh("sw")
            head = "let %s := %s in\n  " % (v, self.z(inner[0], env))
            runs = self.switch_runs(inner[-1])
            default = None
            chain = []
            for val, run in runs:
                if val is None:
                    default = run
                else:
                    chain.append((self.z(val, env), run))
            tail = self.stmts((default if default is not None else []) + rest, env, ret_kind)
            for cv, run in reversed(chain):
                tail = "(if (%s =? %s)\n  then %s\n  else %s)" % (v, cv, self.stmts(run + rest, env, ret_kind), tail)
            return head + tail
        if k in ("BinaryOperator", "CompoundAssignOperator") and (s["opcode"] == "=" or s["opcode"].endswith("=")) and \
                s["opcode"] not in ("==", "!=", "<=", ">="):
            # as the base class, but the right-hand side may contain a call (evaluated on a private copy of env)
            env = dict(env)
            lhs, rhs = s["inner"]
            if s["opcode"] == "=":
                val = self.z(rhs, env)
            else:
                fake = {"kind": "BinaryOperator", "opcode": s["opcode"][:-1], "inner": [lhs, rhs],
                        "type": s.get("computeResultType", s["type"])}
                val = self.z(fake, env)
                ty = L.ctype(s)
                if ty and not ty[0]:
                    val = "(wrapu %d %s)" % (ty[1], val)
            return self.assign(L.strip(lhs), val, env) + self.stmts(rest, env, ret_kind)
        if k in ("WhileStmt", "ForStmt", "DoStmt", "GotoStmt", "LabelStmt"):
            raise LeafError("loop / jump: " + k)
        return super().stmts(ss, env, ret_kind)

    def result(self, retexpr, env, ret_kind):
        parts = [self.z(retexpr, env) if retexpr is not None else "0"]
        parts += [env.get(k, k) for k in self.want_fields]
        slots = list(env.get("@slots", ()))
        slots += ["(0, %s)" % ", ".join(["0"] * NINT)] * (self.nslots - len(slots))
        return "(" + ", ".join(parts + slots) + ")"


def enum_values(names, headers, cflags, builddir):
    """values of enumeration constants / macros, by compiling a C program against the headers"""
    names = sorted(names)
    if not names:
        return {}
    os.makedirs(builddir, exist_ok=True)
    src = os.path.join(builddir, "c12_enums.c")
    with open(src, "w") as f:
        f.write("#include <stdio.h>\n" + "".join('#include "%s"\n' % h for h in headers))
        f.write("int main(void){\n" + "".join('printf("%s %%ld\\n", (long)(%s));\n' % (n, n) for n in names) + "return 0;}\n")
    exe = os.path.join(builddir, "c12_enums")
    p = subprocess.run(["gcc", "-w"] + [x for x in cflags] + [src, "-o", exe], capture_output=True, text=True, timeout=120)
    if p.returncode != 0:
        raise LeafError("cannot compile the enumeration printer: " + p.stderr[-300:])
    out = subprocess.run([exe], capture_output=True, text=True, timeout=20).stdout
    vals = {}
    for ln in out.strip().split("\n"):
        w = ln.split()
        if len(w) == 2:
            vals[w[0]] = int(w[1])
    missing = [n for n in names if n not in vals]
    if missing:
        raise LeafError("no value for " + ", ".join(missing))
    return vals


def translate(src, name, cflags, gname, fields, opaque, nslots, headers, builddir):
    """-> (gallina definition text, [pointer-argument summaries of the opaque calls])
    signature of the definition: f_<fields, sorted> nn_<pointer parameters, in order> <integer parameters, in
    order> ores_1 .. ores_<nslots>, all Z."""
    fn = L.load_function(src, name, cflags)
    rt = fn["type"]["qualType"].split("(")[0].strip()
    if rt not in L.INT_TYPES:
        raise LeafError("unsupported return type " + rt)
    t = SetKeyTr(fn, src, cflags, fields, opaque, nslots)
    t.all_written = list(t.want_fields)
    body = [c for c in fn["inner"] if c.get("kind") == "CompoundStmt"][0]
    env = {p: p for p in t.params}
    code = t.stmts([body], env, "Z")
    vals = enum_values(t.enums, headers, cflags, builddir)
    code = re.sub(r"@ENUM:(\w+)@", lambda m: "(%d)" % vals[m.group(1)], code)
    args = ["(%s : Z)" % k for k in t.want_fields] + ["(nn_%s : Z)" % p for p in t.pparams] + \
           ["(%s : Z)" % p for p in t.params] + ["(ores_%d : Z)" % (i + 1) for i in range(nslots)]
    text = "Definition %s %s :=\n  %s.\n" % (gname, " ".join(args), code)
    return text, sorted(t.ptrcalls)


# ---------------------------------------------------------------------------
# rotation schedule of the DES key schedule, by evaluating the index arithmetic of the C text

class RotationSchedule:
    """Walks the body of a function (clang JSON AST) in execution order with every DATA value opaque and every
    integer that is computed from literals, constant-initialised locals / arrays and loop counters known: counting
    loops with evaluable bounds are run iteration by iteration, branches on known conditions are followed, other
    branches are walked on both sides.  Wherever an expression of the form (X >> A) | (X << B) (either order, any
    parentheses / casts, X one variable) is met with A and B known, the triple (X, A, B) is recorded.  Nothing depends
    on how the amounts are written: two tables, one table and `28 - n`, constants hoisted into locals, a while loop."""

    def __init__(self):
        self.records = []
        self.steps = 0

    def ev(self, n, env):
        k = n.get("kind")
        if k in ("ParenExpr", "ConstantExpr", "ImplicitCastExpr", "CStyleCastExpr"):
            return self.ev(n["inner"][-1], env)
        if k == "IntegerLiteral":
            return int(n["value"])
        if k == "DeclRefExpr":
            v = env.get(n["referencedDecl"]["name"])
            return v if isinstance(v, int) else None
        if k == "ArraySubscriptExpr":
            b = strip_all(n["inner"][0])
            i = self.ev(n["inner"][1], env)
            if b.get("kind") == "DeclRefExpr" and i is not None:
                arr = env.get(b["referencedDecl"]["name"])
                if isinstance(arr, list) and 0 <= i < len(arr):
                    return arr[i]
            return None
        if k == "UnaryOperator":
            v = self.ev(n["inner"][0], env)
            if v is None:
                return None
            return {"-": -v, "+": v, "~": ~v, "!": int(not v)}.get(n.get("opcode"))
        if k == "ConditionalOperator":
            c = self.ev(n["inner"][0], env)
            if c is None:
                return None
            return self.ev(n["inner"][1 if c else 2], env)
        if k == "BinaryOperator":
            a, b = self.ev(n["inner"][0], env), self.ev(n["inner"][1], env)
            if a is None or b is None:
                return None
            op = n.get("opcode")
            try:
                if op == "/":
                    return int(a / b) if b else None
                if op == "%":
                    return a - b * int(a / b) if b else None
                return {"+": lambda: a + b, "-": lambda: a - b, "*": lambda: a * b, "<<": lambda: a << b, ">>": lambda: a >> b,
                        "&": lambda: a & b, "|": lambda: a | b, "^": lambda: a ^ b, "<": lambda: int(a < b),
                        "<=": lambda: int(a <= b), ">": lambda: int(a > b), ">=": lambda: int(a >= b),
                        "==": lambda: int(a == b), "!=": lambda: int(a != b), "&&": lambda: int(bool(a and b)),
                        "||": lambda: int(bool(a or b))}[op]()
            except (KeyError, ValueError, OverflowError):
                return None
        return None

    def scan(self, n, env):
        """look for rotations inside an expression (data flow is not followed, only the index arithmetic)"""
        if not isinstance(n, dict):
            return
        if n.get("kind") == "BinaryOperator" and n.get("opcode") == "|":
            a, b = strip_all(n["inner"][0]), strip_all(n["inner"][1])
            if a.get("kind") == "BinaryOperator" and b.get("kind") == "BinaryOperator" and \
                    {a.get("opcode"), b.get("opcode")} == {">>", "<<"}:
                xa, xb = strip_all(a["inner"][0]), strip_all(b["inner"][0])
                if xa.get("kind") == "DeclRefExpr" and xb.get("kind") == "DeclRefExpr" and \
                        xa["referencedDecl"]["id"] == xb["referencedDecl"]["id"]:
                    r, l = (a, b) if a["opcode"] == ">>" else (b, a)
                    ra, la = self.ev(r["inner"][1], env), self.ev(l["inner"][1], env)
                    if ra is not None and la is not None:
                        self.records.append((xa["referencedDecl"]["name"], ra, la))
        for c in n.get("inner", []):
            self.scan(c, env)

    def assign_target(self, n):
        n = strip_all(n)
        return n["referencedDecl"]["name"] if n.get("kind") == "DeclRefExpr" else None

    def stmt(self, n, env):
        self.steps += 1
        if self.steps > 200000:
            raise LeafError("too many steps while evaluating the loop structure")
        k = n.get("kind")
        if k == "CompoundStmt":
            for c in n.get("inner", []):
                self.stmt(c, env)
        elif k == "DeclStmt":
            for d in n.get("inner", []):
                if d.get("kind") != "VarDecl":
                    continue
                init = [c for c in d.get("inner", []) if isinstance(c, dict) and c.get("kind") != "FullComment"]
                val = None
                if init:
                    self.scan(init[-1], env)
                    if init[-1].get("kind") == "InitListExpr":
                        vals = [self.ev(x, env) for x in init[-1].get("inner", [])]
                        val = vals if all(v is not None for v in vals) else None
                    else:
                        val = self.ev(init[-1], env)
                env[d["name"]] = val
        elif k == "ForStmt":
            parts = n["inner"]          # init, (condition variable), cond, inc, body
            init, cond, inc, body = parts[0], parts[2], parts[3], parts[4]
            if init and init.get("kind"):
                self.stmt(init, env)
            self.loop(cond, inc, body, env)
        elif k == "WhileStmt":
            self.loop(n["inner"][0], None, n["inner"][-1], env)
        elif k == "DoStmt":
            self.stmt(n["inner"][0], env)
            self.loop(n["inner"][1], None, n["inner"][0], env)
        elif k == "IfStmt":
            c = self.ev(n["inner"][0], env)
            self.scan(n["inner"][0], env)
            if c is None:
                for b in n["inner"][1:]:
                    self.stmt(b, env)
            elif c:
                self.stmt(n["inner"][1], env)
            elif len(n["inner"]) > 2:
                self.stmt(n["inner"][2], env)
        elif k in ("BinaryOperator", "CompoundAssignOperator") and n.get("opcode", "").endswith("=") and \
                n.get("opcode") not in ("==", "!=", "<=", ">="):
            self.scan(n["inner"][1], env)
            tgt = self.assign_target(n["inner"][0])
            if tgt is not None:
                if n["opcode"] == "=":
                    env[tgt] = self.ev(n["inner"][1], env)
                else:
                    fake = {"kind": "BinaryOperator", "opcode": n["opcode"][:-1], "inner": n["inner"]}
                    env[tgt] = self.ev(fake, env)
        elif k == "UnaryOperator" and n.get("opcode") in ("++", "--"):
            tgt = self.assign_target(n["inner"][0])
            if tgt is not None and isinstance(env.get(tgt), int):
                env[tgt] += 1 if n["opcode"] == "++" else -1
        elif k in ("ReturnStmt", "NullStmt", "BreakStmt", "ContinueStmt"):
            for c in n.get("inner", []):
                self.scan(c, env)
        else:
            self.scan(n, env)

    def loop(self, cond, inc, body, env):
        for _ in range(4096):
            c = self.ev(cond, env) if cond and cond.get("kind") else None
            if c is None:
                # bounds not evaluable: the body is walked once with the variables it changes unknown
                self.stmt(body, env)
                return
            if not c:
                return
            self.stmt(body, env)
            if inc and inc.get("kind"):
                self.stmt(inc, env)
        raise LeafError("loop does not terminate within 4096 iterations")


def rotation_schedule(src, name, cflags, rounds=16):
    """-> ([right amounts], [left amounts]) of the per-round rotation of the two key halves in function `name`: the two
    variables that are rotated exactly once per round, by the same amounts"""
    fn = L.load_function(src, name, cflags)
    body = [c for c in fn["inner"] if c.get("kind") == "CompoundStmt"][0]
    rs = RotationSchedule()
    rs.stmt(body, {})
    byvar = {}
    for v, r, l in rs.records:
        byvar.setdefault(v, []).append((r, l))
    cands = {v: seq for v, seq in byvar.items() if len(seq) == rounds}
    if len(cands) != 2:
        raise LeafError("expected two variables rotated once per round, found %s" % (
            ", ".join("%s x%d" % (v, len(q)) for v, q in sorted(byvar.items())) or "no rotation"))
    (v1, s1), (v2, s2) = sorted(cands.items())
    if s1 != s2:
        raise LeafError("the two key halves %s and %s are rotated by different amounts" % (v1, v2))
    return [r for r, _ in s1], [l for _, l in s1]
