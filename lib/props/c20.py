"""C20 — pure utilities (next_pow_of_2, numeric parsers, path functions, strip/find/count,
hex, endian swaps): plugin for bin/check.

The monitor is written against the PROPERTY (Python int()/bit_length, bytes.find/count,
binascii, a component-wise path algebra), not against the Coq model."""
import binascii
import os
import re
from fractions import Fraction

import vcommon as V
from props import c20_leaf as LEAF

ID = "C20"
COQ_DIRS = ["C20"]
MODEL_BASE = "c20_model"
OCAML_DRIVER = "ocaml/c20_driver.ml"
C_DRIVER = "harness/drivers/c20_driver.c"
REPO_SOURCES = ["muggle/c/base/utils.c", "muggle/c/base/str.c", "muggle/c/os/path.c",
                "muggle/c/encoding/hex.c"]
HEADER_LINES = 0
CASE_TIMEOUT = 0.25
SHRINK_BUDGET = 60
RULE = ("one utility call per line on exact-size heap buffers under ASan/UBSan; next_pow_of_2 on 0, 2^k, 2^k+-1 "
        "(k=0..64), seeded random 64- and 32-bit values; the six integer parsers on numerals at INT/UINT/LONG/ULONG "
        "MIN/MAX +-{0,1,2} with signs, bases 0/2/8/10/16/36 (with and without prefix), leading/trailing blanks and "
        "trailing junk, plus malformed specials, bases the strtol family refuses (1, 37, negative, huge), NULL string / "
        "NULL out-parameter; float parsers on finite/overflowing/inf/nan/hex numerals and on underflowing ones (to zero, "
        "to an inexact subnormal, exact subnormals, both sides of the smallest normal / smallest subnormal of float, "
        "double and x87 long double), the generator's expected libc result (consumed, inf, ERANGE, zero) compared with "
        "the real strtof/strtod/strtold; "
        "path functions on generated plain paths and idiosyncratic ones for EVERY size 0..len+2, and on mixed-separator "
        "long inputs in BOTH tiers (total lengths 255/256, 511/512, 1023/1024 = MUGGLE_MAX_PATH, 1025; thorough +-1 as "
        "well) for basename/dirname/normpath/join/abspath with sizes around them; "
        "strings over {a,b,/,\\,:,.} (thorough: every string of length <= 6; quick: every string of length <= 3 plus a "
        "seeded sample of the longer ones), join pairs over them, the library's own join products fed back to basename/"
        "dirname/normpath, abspath with mixed cwd/path, each for every size 0..len+2; strip/startswith/"
        "endswith on all byte values 1..255; find/count exhaustively on short strings over {a,b} and on periodic / "
        "nearly-matching / overlapping haystack-needle pairs up to 40 bytes over every byte value (needle longer than the "
        "haystack, empty needle, windows), startswith/endswith with every prefix / suffix length and one byte changed at "
        "every position, strip on blank runs around longer texts, NULL arguments of every str.c function; hex on all byte "
        "values; MUGGLE_ENDIAN_SWAP_16 on EVERY 16-bit value with operands of type uint16/uint32/uint64/int consumed as a "
        "wider integer and as a nested round trip without a 16-bit store (swapw), SWAP_32 likewise on uint64 operands; "
        "every macro on an lvalue operand of EVERY integer type int8..int64 / uint8..uint64 (negative values, INT_MIN, "
        "low/high byte >= 0x80) consumed as uint64, int64, uintN and as a nested round trip (swapt); "
        "a case is non-trivial when the call returned success; distinct = distinct case text")
TRUSTED_BASE = [
    "assumed libc behaviour (modelled in Gallina, compared with the real functions on every numeral of every run): "
    "strtol/strtoul/strtoll/strtoull of glibc 2.36 in the C locale; strstr, strncpy, memcpy, strlen, isspace",
    "float parsers: strtof/strtod/strtold are an abstract oracle (consumed length, is-infinite, ERANGE); the value the "
    "wrapper stores is compared bit for bit with the real function by the driver, never inside Coq",
    "leaf translator lib/props/c20_leaf.py (clang 14 JSON AST -> Gallina) for muggle_next_pow_of_2, muggle_hex_to_byte "
    "and muggle_path_isabs (a const char* parameter is a byte list; strlen and s[k] with literal k only); for the six "
    "integer parsers (translate_parser: the whole wrapper over an abstract libc result - returned value, end offset, "
    "ERANGE, *endptr, lstrip_idx(endptr), str[lstrip_idx(str)], errno and *pval on entry; a char read is its byte value, "
    "only compared with ASCII constants); for lstrip_idx/rstrip_idx/startswith/endswith (translate_loop: prelude; one "
    "loop; epilogue -> an iteration function run by Loop.run_loop with fuel 1 + the string lengths; isspace -> "
    "Model.is_space (clang is run with -D__NO_CTYPE so that isspace is a call), memcmp(..) == 0 -> Loop.mem_eq, s[e] -> "
    "nth, reading the terminator or beyond gives 0); the separator "
    "scan of basename/dirname is tied by a recognised loop shape (descending `while (p >= 0) { if (C) break; --p; }`), "
    "whose meaning 'index of the last character satisfying C' is part of the trusted translator",
    "hex_from_bytes: the 256-row string table of hex.c is modelled as 'two upper-case hex digits'; all 256 rows are "
    "compared on every run",
]
ASSUMPTIONS = [
    "strings are NUL-terminated and shorter than 2^31; the output buffer has exactly the size passed",
    "muggle_os_curdir succeeds with a path shorter than MUGGLE_MAX_PATH (abspath takes cwd as a parameter)",
    "hex_to_bytes/hex_from_bytes: the caller's buffers have the documented sizes",
]
EVIDENCE_NOTES = [
    "the model transcribes the REPAIRED code (fixes/C20-01..17); on the unchanged tree the check reports VIOLATION "
    "with the replays kept under corpus/C20/ (15: corpus-swap32-signed-operand, 16: corpus-float-underflow, 17: "
    "corpus-invalid-base)",
    "C text tied to the model by regenerated obligations: gen_npo2_eq, gen_hex_to_byte_eq, gen_isabs_eq, "
    "gen_last_sep_scan_eq, gen_parsers_eq + gen_parser_libc (the six integer parsers: NULL checks, base check, errno "
    "reset, which strtol-family member is called, end-pointer tests, range / sign chain, store, return codes), "
    "gen_strip_eq, gen_startswith_endswith_eq; NOT tied by a translator (differential run + monitor only): "
    "muggle_str_find / muggle_str_count (strstr pointer arithmetic, two loop variables), the float wrappers, the path "
    "functions other than isabs and the separator scan, hex_to_bytes / hex_from_bytes",
    "integer parsers: exact for EVERY base (toX base s = Some v <-> valid_base base /\\ well_formed .. /\\ range); "
    "float wrapper: success <-> converted, only blanks behind, libc reported no range error (overflow or underflow)",
    "endian_swap_any_operand: the macros' value depends only on the low N bits of the operand (any integer type, "
    "negative values included), the nested round trip returns those bits, intN_t/uintN_t objects are restored",
    "PROVED in Coq, unbounded: next_pow_of_2 least power of two on [1,2^63] + behaviour outside (0 and >2^63 -> 0) + "
    "gen_npo2_eq / gen_hex_to_byte_eq / gen_isabs_eq / gen_last_sep_scan_eq (C text regenerated by the leaf translator on "
    "every run; the last one ties the separator predicate of basename's and dirname's backwards scan to is_sep); toi/tou/tol/toul/toll/"
    "toull exact (success with v iff one well-formed in-range numeral with surrounding blanks) RELATIVE to the Gallina "
    "strtol-family model; float wrapper logic over an abstract libc result; path_no_overflow and path_terminated for "
    "basename/dirname/normpath/join/abspath, all inputs and sizes, reads of the output buffer included; path_algebra: "
    "normpath equals the component algebra ('..' against the preceding name, leading '../' chain, './' for empty, "
    "error above the root) on paths pre ++ components for every size, abspath of a relative path = normpath of "
    "join(cwd, path) and hence the algebra on '/' cwd-components '/' path-components; path_algebra_leaf: isabs, "
    "basename, dirname, join, normpath without adjacent dots, abspath of absolute paths for every NUL-free input; lstrip/"
    "rstrip/startswith/endswith/find/count against list specifications; hex round trip and rejection of non-hex; "
    "endian swap involutions 16/32/64 and endian_swap_range (swapN maps EVERY value into [0, 2^N), so the macro's "
    "value does not depend on the integer type that consumes it)",
    "NOT proved, covered by the differential run + independent monitor only: the equality of the Gallina libc model with the "
    "real strtol family (compared on every numeral of every run); float VALUES (compared bit for bit with the real "
    "strtof/strtod/strtold by the driver); hex_from_bytes' 256-row table (modelled as two upper-case digits, all rows "
    "compared every run); strncpy/memcpy/strlen/strstr/isspace semantics (modelled)",
    "libc model vs real libc: every integer-parser op prints a 'libc <value> <end> <erange>' line computed by the REAL "
    "strtol-family function (implementation side) and by the Gallina libc model (model side); they are compared by the "
    "same differ and counted in input_distribution['libc_model_vs_real_compared']; a mismatch shows up as a "
    "correspondence divergence on a line starting with 'libc'",
    "float parsers: 'libcf' lines compare the generator's assumed abstract libc result with the real strtof/strtod/"
    "strtold and report whether the stored value is bit-identical (input_distribution['libc_float_oracle_compared'])",
    "next_pow_of_2: the property's 'every 32-bit argument' is covered by the theorem (whole domain), not enumerated; "
    "the run uses 0, 2^k, 2^k+-1 and seeded random 64/32-bit values",
    "conventions recorded as the reference because the repository's own unit tests encode them: startswith/endswith "
    "with an empty pattern match only the empty string; lstrip_idx(\"\") = 0 while an all-blank string gives -1; "
    "count with an empty pattern is 0 (repaired: the unchanged code never returns); unsigned parsers accept \"-0\"",
]

INCLUDE_DIRS = [V.REPO, V.GEN_INC]

BLANKS = b" \t\n\v\f\r"
U64 = 1 << 64


# ---------------------------------------------------------------------------
# encoding helpers

def hx(b):
    if isinstance(b, str):
        b = b.encode("latin-1")
    return binascii.hexlify(b).decode() if b else "-"


def unhx(t):
    return b"" if t == "-" else binascii.unhexlify(t)


NULLTOK = "~"      # a NULL pointer (only the str.c functions are documented to accept one)


# ---------------------------------------------------------------------------
# Params: leaf translator output (regenerated from the working tree on every run)

def gen_params(ctx):
    V.gen_config_header()
    parts = ["(* GENERATED by lib/props/c20.py (leaf translator, DESIGN.md 4.4) from",
             "   muggle/c/base/utils.c, muggle/c/base/str.c, muggle/c/encoding/hex.c and muggle/c/os/path.c of the checked tree.",
             "   Do not edit. *)",
             "From Coq Require Import ZArith NArith Bool List.",
             "From MV Require Import C20.Model C20.Loop.", ""]
    for rel, fn, gname, mode, fallback in (
            ("muggle/c/base/utils.c", "muggle_next_pow_of_2", "gen_npo2", "N",
             "Definition gen_npo2 (x : N) : N := (x + 12345)%N.\n"),
            ("muggle/c/encoding/hex.c", "muggle_hex_to_byte", "gen_hex_to_byte", "Z",
             "Definition gen_hex_to_byte (x : Z) : Z := (x + 12345)%Z.\n"),
            ("muggle/c/os/path.c", "muggle_path_isabs", "gen_isabs", "Z",
             "Definition gen_isabs (x : list Z) : Z := 12345%Z.\n")):
        try:
            f = LEAF.clang_ast(V.REPO, rel, fn, INCLUDE_DIRS)
            parts.append(LEAF.translate(f, gname, mode,
                                        loader=lambda name, rel=rel: LEAF.clang_ast(V.REPO, rel, name, INCLUDE_DIRS)))
        except Exception as e:  # translator error = broken obligation (the equality lemma cannot hold)
            msg = str(e).replace("*)", "* )").replace("(*", "( *")[:300]
            parts.append("(* TRANSLATOR ERROR for %s: %s *)" % (fn, msg))
            parts.append(fallback)
    # the separator scan of basename / dirname (a recognised loop shape, see c20_leaf.translate_scan_down)
    for fn, gname in (("muggle_path_basename", "gen_basename_sep"), ("muggle_path_dirname", "gen_dirname_sep")):
        try:
            f = LEAF.clang_ast(V.REPO, "muggle/c/os/path.c", fn, INCLUDE_DIRS)
            parts.append(LEAF.translate_scan_down(
                f, gname, loader=lambda name: LEAF.clang_ast(V.REPO, "muggle/c/os/path.c", name, INCLUDE_DIRS)))
        except Exception as e:
            msg = str(e).replace("*)", "* )").replace("(*", "( *")[:300]
            parts.append("(* TRANSLATOR ERROR for the separator scan of %s: %s *)" % (fn, msg))
            parts.append("Definition %s (c : Z) : bool := (c =? 12345)%%Z.\n" % gname)
    # the six integer parsers: the whole wrapper body over an abstract libc result (c20_leaf.translate_parser)
    for fn in ("toi", "tou", "tol", "toul", "toll", "toull"):
        gname = "gen_" + fn
        try:
            ld = lambda name: LEAF.clang_ast(V.REPO, "muggle/c/base/str.c", name, INCLUDE_DIRS)
            parts.append(LEAF.translate_parser(ld("muggle_str_" + fn), gname, loader=ld))
        except Exception as e:
            msg = str(e).replace("*)", "* )").replace("(*", "( *")[:300]
            parts.append("(* TRANSLATOR ERROR for muggle_str_%s: %s *)" % (fn, msg))
            parts.append("Definition %s (str_null pval_null : bool) (base errno0 pval0 lret lend endc tailidx firstc : Z) "
                         "(ler : bool) : Z * Z := (12345, 12345)%%Z.\n\nDefinition %s_libc : Z := 0%%Z.\n" % (gname, gname))
    # prelude ; one loop ; epilogue  over strings (c20_leaf.translate_loop); isspace must be a call: -D__NO_CTYPE
    for fn, gname, fb_args in (("lstrip_idx", "gen_lstrip_idx", "(str_null : bool) (str : list Z)"),
                               ("rstrip_idx", "gen_rstrip_idx", "(str_null : bool) (str : list Z)"),
                               ("startswith", "gen_startswith", "(a_null b_null : bool) (a b : list Z)"),
                               ("endswith", "gen_endswith", "(a_null b_null : bool) (a b : list Z)")):
        try:
            f = LEAF.clang_ast(V.REPO, "muggle/c/base/str.c", "muggle_str_" + fn, INCLUDE_DIRS, defines=["__NO_CTYPE"])
            parts.append(LEAF.translate_loop(f, gname))
        except Exception as e:
            msg = str(e).replace("*)", "* )").replace("(*", "( *")[:300]
            parts.append("(* TRANSLATOR ERROR for muggle_str_%s: %s *)" % (fn, msg))
            parts.append("Definition %s %s : option Z := Some 12345%%Z.\n" % (gname, fb_args))
    return "\n".join(parts)


# ---------------------------------------------------------------------------
# reference definitions used by the monitor (independent of the Coq model)

INT_RANGES = {
    "toi": (-(1 << 31), (1 << 31) - 1), "tou": (0, (1 << 32) - 1),
    "tol": (-(1 << 63), (1 << 63) - 1), "toul": (0, (1 << 64) - 1),
    "toll": (-(1 << 63), (1 << 63) - 1), "toull": (0, (1 << 64) - 1),
}
DIGS = "0123456789abcdefghijklmnopqrstuvwxyz"


def strip_blanks(s):
    i, j = 0, len(s)
    while i < j and s[i] in BLANKS:
        i += 1
    while j > i and s[j - 1] in BLANKS:
        j -= 1
    return s[i:j]


def ref_int_value(s, base):
    """value of a single well-formed numeral with surrounding blanks, else None; a base other than 0 or 2..36
    denotes no numeral at all"""
    if base != 0 and not 2 <= base <= 36:
        return None
    body = strip_blanks(s)
    try:
        t = body.decode("ascii")
    except UnicodeDecodeError:
        return None
    m = re.fullmatch(r"([+-]?)(.*)", t, re.S)
    sign, rest = m.group(1), m.group(2)
    b = base
    if base == 0:
        if re.fullmatch(r"0[xX][0-9a-fA-F]+", rest):
            b, rest = 16, rest[2:]
        elif re.fullmatch(r"0[0-7]*", rest):
            b = 8
        elif re.fullmatch(r"[1-9][0-9]*", rest):
            b = 10
        else:
            return None
    elif base == 16 and re.fullmatch(r"0[xX][0-9a-fA-F]+", rest):
        rest = rest[2:]
    if not rest or any(c not in DIGS[:b] for c in rest.lower()):
        return None
    v = int(rest, b)          # Python's arbitrary precision parser
    return -v if sign == "-" else v


FLOAT_RE = re.compile(
    r"[+-]?(?:infinity|inf|nan(?:\([0-9a-zA-Z_]*\))?"
    r"|0[xX](?:[0-9a-fA-F]+\.?[0-9a-fA-F]*|\.[0-9a-fA-F]+)(?:[pP][+-]?[0-9]+)?"
    r"|(?:[0-9]+\.?[0-9]*|\.[0-9]+)(?:[eE][+-]?[0-9]+)?)", re.I)
# binary formats: precision p (bits, the explicit leading bit of x87 extended included) and the exponent of the
# smallest subnormal 2^qmin; the smallest NORMAL number is 2^(qmin+p-1), the largest finite (2-2^(1-p))*2^emax
FLT_FMT = {"tof": (24, -149, 127), "tod": (53, -1074, 1023), "told": (64, -16445, 16383)}
# overflow threshold = largest finite + half an ulp (ties go to infinity: the largest finite is odd)
FLT_OVER = {op: (2 - Fraction(1, 1 << p)) * (1 << emax) for op, (p, _q, emax) in FLT_FMT.items()}
TINY = Fraction(1, 10 ** 20000)        # stands for any non-zero magnitude below every format's smallest subnormal


def float_exact(t):
    """exact rational magnitude of a finite C float numeral (text without sign)"""
    t = t.lower()
    if t.startswith("0x"):
        m = re.fullmatch(r"0x([0-9a-f]*)\.?([0-9a-f]*)(?:p([+-]?[0-9]+))?", t)
        ip, fp, ex = m.group(1), m.group(2), int(m.group(3) or 0)
        v = Fraction(int((ip + fp) or "0", 16), 16 ** len(fp))
        if abs(ex) > 70000:
            return Fraction(0) if v == 0 else (TINY if ex < 0 else Fraction(10) ** 20000)
        return v * (Fraction(2) ** ex)
    m = re.fullmatch(r"([0-9]*)\.?([0-9]*)(?:e([+-]?[0-9]+))?", t)
    ip, fp, ex = m.group(1), m.group(2), int(m.group(3) or 0)
    v = Fraction(int((ip + fp) or "0"), 10 ** len(fp))
    if abs(ex) > 20000:
        return Fraction(0) if v == 0 else (TINY if ex < 0 else Fraction(10) ** 20000)
    return v * (Fraction(10) ** ex)


def float_prefix(s):
    """(consumed, numeral text) of the longest numeral prefix after blanks; consumed 0 = none"""
    i = 0
    while i < len(s) and s[i] in BLANKS:
        i += 1
    try:
        t = s[i:].decode("ascii")
    except UnicodeDecodeError:
        t = s[i:].split(b"\x80")[0].decode("ascii", "ignore")
    m = FLOAT_RE.match(t)
    if not m:
        return 0, None
    return i + m.end(), m.group(0)


def _rne(x):
    """round a non-negative Fraction to the nearest integer, ties to even"""
    n = x.numerator // x.denominator
    rem = x - n
    if rem > Fraction(1, 2) or (rem == Fraction(1, 2) and n % 2 == 1):
        n += 1
    return n


def float_round(v, op):
    """v > 0 exact -> (r, inexact, tiny): r = v rounded to nearest-even on the format's grid (subnormals
    included, unbounded above); tiny = the value rounded with an UNBOUNDED exponent range is still below the
    smallest normal number (tininess detected after rounding, as x86 glibc does)"""
    p, qmin, _emax = FLT_FMT[op]
    e = v.numerator.bit_length() - v.denominator.bit_length()
    while Fraction(2) ** e > v:
        e -= 1
    while Fraction(2) ** (e + 1) <= v:
        e += 1
    q = max(e - (p - 1), qmin)
    r = _rne(v / Fraction(2) ** q) * Fraction(2) ** q
    qu = e - (p - 1)
    ru = _rne(v / Fraction(2) ** qu) * Fraction(2) ** qu
    return r, r != v, ru < Fraction(2) ** (qmin + p - 1)


def float_class(num, op):
    """-> (is_inf, is_zero, erange) expected of libc (glibc, round to nearest) for numeral text num"""
    t = num.lstrip("+-").lower()
    if t.startswith("inf"):
        return 1, 0, 0
    if t.startswith("nan"):
        return 0, 0, 0
    v = float_exact(t)
    if v == 0:
        return 0, 1, 0
    if v >= FLT_OVER[op]:
        return 1, 0, 1
    if v == TINY:
        return 0, 1, 1
    r, inexact, tiny = float_round(v, op)
    return 0, int(r == 0), int(tiny and inexact)


def float_in_range(num, op):
    """the PROPERTY's verdict on a well-formed numeral: in range iff converting it is no range error in the sense
    of C11 7.12.1 - no overflow (the correctly rounded value is finite) and no underflow (the value is zero, or its
    correctly rounded value is a normal number, or it is an exactly representable subnormal: nothing of the
    numeral is silently lost beyond the rounding to the type's full precision)"""
    t = num.lstrip("+-").lower()
    if t.startswith(("inf", "nan")):
        return True
    v = float_exact(t)
    if v == 0:
        return True
    if v >= FLT_OVER[op] or v == TINY:
        return False
    _r, inexact, tiny = float_round(v, op)
    return not (tiny and inexact)


SEPS = "/\\"


def last_sep_idx(t):
    """index of the last separator of EITHER kind, -1 if none"""
    return max(t.rfind("/"), t.rfind("\\"))


def parse_comps(t):
    """component class of path_algebra: optional "/" or "./" (".\\") prefix, then components (a name or
    "..") each followed by ONE separator of either kind, the last optionally without.  Names are non-empty,
    hold no separator and no "..", and are not ".".  -> (absolute?, [(text, sep)]) or None"""
    absolute = False
    if t[:2] in ("./", ".\\"):
        t = t[2:]
    elif t[:1] == "/":
        absolute, t = True, t[1:]
    comps, i = [], 0
    while i < len(t):
        j = i
        while j < len(t) and t[j] not in SEPS:
            j += 1
        name = t[i:j]
        if name == "" or name == "." or (name != ".." and ".." in name):
            return None
        comps.append((name, t[j] if j < len(t) else ""))
        i = j + 1
    return absolute, comps


def ref_normpath(t):
    """reference algebra: ".." removes the preceding name, a leading "../" chain is kept, "./" for the empty
    result.  -> (in class?, result or None=error above the root)"""
    pc = parse_comps(t)
    if pc is None:
        return False, None
    absolute, comps = pc
    kept = []
    for c, sep in comps:
        if c == "..":
            if kept and kept[-1][0] != "..":
                kept.pop()
            elif not kept and absolute:
                return True, None
            else:
                kept.append((c, sep))
        else:
            kept.append((c, sep))
    out = ("/" if absolute else "") + "".join(c + sep for c, sep in kept)
    return True, (out if out else "./")


def ref_join(a, b):
    """every input: a, exactly one separator, b without its leading '/'"""
    if not a or not b or b == "/":
        return None
    return a + ("" if a[-1] in SEPS else "/") + (b[1:] if b[0] == "/" else b)


def ref_isabs(t):
    return (len(t) > 1 and t[0] == "/") or bool(re.match(r"[A-Za-z]:[/\\]", t))


def ref_dirname(t):
    """every input: the part before the last separator of either kind; the separator is kept for the root
    and behind a drive colon"""
    k = last_sep_idx(t)
    if k < 0:
        return None
    a = t[:k]
    if a == "":
        return t[k]
    if len(a) > 1 and a[-1] == ":":
        return a + t[k]
    return a


def ref_basename(t):
    """every input: the part behind the last separator of either kind"""
    r = t[last_sep_idx(t) + 1:]
    return r if r else None


# ---------------------------------------------------------------------------
# monitor

def expected(line):
    """-> (list of expected output lines with None = 'not judged', number of output lines)"""
    w = line.split(" ")
    op = w[0]
    if op == "npo2":
        x = int(w[1])
        if 1 <= x <= 1 << 63:
            return [str(1 << (x - 1).bit_length())]
        return ["0"]                       # outside the domain: 0 (stated behaviour)
    if op == "swapw":
        v = int(w[1]) % 65536
        r = int.from_bytes(v.to_bytes(2, "little"), "big")
        return ["%d %d %d %d %d %d" % (r, r, r, r, v, v)]
    if op == "swapw32":
        v = int(w[1]) % (1 << 32)
        return ["%d %d" % (int.from_bytes(v.to_bytes(4, "little"), "big"), v)]
    if op == "swapt":
        n, ty, v = int(w[1]), w[2], int(w[3])
        bits, signed = int(ty[1:]), ty[0] == "i"
        x = v % (1 << bits)                        # the object of type T holding (T)V ...
        if signed and x >= 1 << (bits - 1):
            x -= 1 << bits                         # ... and its value
        low = x % (1 << n)                         # the N bits the macro swaps
        r = int.from_bytes(low.to_bytes(n // 8, "little"), "big")
        s64 = r - (1 << 64) if r >= 1 << 63 else r
        return ["%d %d %d %d" % (r, s64, r, low)]
    if op in ("swap16", "swap32", "swap64"):
        n = int(op[4:]) // 8
        v = int(w[1]) % (1 << (8 * n))
        return [str(int.from_bytes(v.to_bytes(n, "little"), "big"))]
    if op in INT_RANGES:
        if w[2] == NULLTOK or w[-1] == "P0":
            return ["fail", "libc -"]
        base, s = int(w[1]), unhx(w[2])
        v = ref_int_value(s, base)
        lo, hi = INT_RANGES[op]
        if v is not None and lo <= v <= hi:
            return ["ok %d" % v, None]
        return ["fail", None]
    if op in ("tof", "tod", "told"):
        if w[1] == NULLTOK or w[-1] == "P0":
            return ["fail", "libcf -"]
        s = unhx(w[1])
        consumed, num = float_prefix(s)
        ok = bool(consumed) and all(c in BLANKS for c in s[consumed:]) and float_in_range(num, op)
        return ["ok" if ok else "fail", "FLOATLIBC"]
    if op in ("lstrip", "rstrip") and w[1] == NULLTOK:
        return ["-1"]
    if op in ("startswith", "endswith") and NULLTOK in w[1:3]:
        return ["0"]
    if op in ("find", "count") and NULLTOK in w[1:3]:
        return ["-1" if op == "find" else "0"]
    if op == "lstrip":
        s = unhx(w[1])
        n = 0
        while n < len(s) and s[n] in BLANKS:
            n += 1
        return [str(-1 if (s and n == len(s)) else n)]
    if op == "rstrip":
        s = unhx(w[1])
        n = len(s) - 1
        while n >= 0 and s[n] in BLANKS:
            n -= 1
        return [str(n)]
    if op == "startswith":
        s, p = unhx(w[1]), unhx(w[2])
        return ["1" if (s.startswith(p) and not (s and not p)) else "0"]
    if op == "endswith":
        s, p = unhx(w[1]), unhx(w[2])
        return ["1" if (s.endswith(p) and not (s and not p)) else "0"]
    if op in ("find", "count"):
        s, sub, a, b = unhx(w[1]), unhx(w[2]), int(w[3]), int(w[4])
        bad = "-1" if op == "find" else "0"
        if a < 0 or b < 0 or a >= len(s):
            return [bad]
        e = len(s) if b == 0 else min(b, len(s))
        if e <= a:
            return [bad]
        if op == "find":
            return [str(s.find(sub, a, e))]
        return [str(s.count(sub, a, e)) if sub else "0"]
    if op == "hexbyte":
        c = chr(int(w[1]))
        return [str(int(c, 16)) if c in "0123456789abcdefABCDEF" else "255"]
    if op == "hex2b":
        s = unhx(w[1])
        use = s[:2 * (len(s) // 2)]
        if all(chr(c) in "0123456789abcdefABCDEF" for c in use):
            return ["ok " + hx(binascii.unhexlify(use))]
        return ["fail"]
    if op == "b2hex":
        return [hx(binascii.hexlify(unhx(w[1])).upper())]
    if op == "isabs":
        return ["1" if ref_isabs(unhx(w[1]).decode("latin-1")) else "0"]
    if op in ("basename", "dirname", "normpath", "join", "abspath"):
        return ["PATH"]
    return [None]


def path_verdict(line, out):
    """safety for every input; exact agreement with the reference algebra on the plain class"""
    w = line.split(" ")
    op, size = w[0], int(w[1])
    args = [unhx(t) for t in w[2:]]
    m = re.fullmatch(r"rc=(\d+)(?: nul=(\d) str=(\S+))?", out or "")
    if not m:
        return "unparsable path result %r" % out
    rc = int(m.group(1))
    got = None
    if rc == 0:
        if m.group(2) != "1":
            return "%s reported success but left no NUL inside the %d-byte buffer (buffer=%s)" % (op, size, m.group(3))
        got = unhx(m.group(3))
    if size <= 1 and rc == 0:
        return "%s reported success with a %d-byte buffer" % (op, size)
    t = [a.decode("latin-1") for a in args]
    # basename / dirname / join: reference for EVERY input (both separator characters alike);
    # normpath / abspath: reference algebra on the component class, safety only outside it
    if op == "basename":
        ref = ref_basename(t[0])
        need = len(ref) + 1 if ref is not None else 0
    elif op == "dirname":
        ref = ref_dirname(t[0])
        need = len(ref) + 1 if ref is not None else 0
    elif op == "join":
        ref = ref_join(t[0], t[1])
        need = len(ref) + 1 if ref is not None else 0
    elif op == "normpath":
        ok, ref = ref_normpath(t[0])
        if not ok:
            return None
        need = len(t[0]) + 1
    else:
        if ref_isabs(t[1]):
            ref, need = t[1], len(t[1]) + 1
        else:
            j = ref_join(t[0], t[1])
            if j is None or len(j) >= 1024:
                ref, need = None, 0
            else:
                ok, ref = ref_normpath(j)
                if not ok:
                    return None
                need = len(j) + 1
    if ref is None:
        return None if rc != 0 else "%s succeeded (%r) where the reference algebra has no result" % (op, got)
    need = max(need, 2, len(ref) + 1)
    if rc == 0:
        if got.decode("latin-1") != ref:
            return "%s returned %r, reference path algebra gives %r" % (op, got, ref)
        return None
    if size >= need:
        return "%s failed (rc=%d) although a %d-byte buffer suffices for %r" % (op, rc, size, ref)
    return None


def monitor(case, lines):
    k = 0
    for ln in case.lines:
        exp = expected(ln)
        got = lines[k:k + len(exp)]
        if len(got) < len(exp):
            return "missing output for %r" % ln
        k += len(exp)
        for e, g in zip(exp, got):
            if e is None:
                continue
            if e == "PATH":
                msg = path_verdict(ln, g)
                if msg:
                    return "%s: %s" % (describe(ln), msg)
            elif e == "FLOATLIBC":
                if not g.startswith("libcf ") or not g.endswith(" 1"):
                    return "%s: stored value differs from the libc result (%s)" % (describe(ln), g)
            elif e != g:
                return "%s: implementation answered %r, reference says %r" % (describe(ln), g, e)
    return None


STRPOS = {"toi": (2,), "tou": (2,), "tol": (2,), "toul": (2,), "toll": (2,), "toull": (2,), "tof": (1,), "tod": (1,),
          "told": (1,), "lstrip": (1,), "rstrip": (1,), "isabs": (1,), "hex2b": (1,), "b2hex": (1,),
          "startswith": (1, 2), "endswith": (1, 2), "find": (1, 2), "count": (1, 2), "basename": (2,), "dirname": (2,),
          "normpath": (2,), "join": (2, 3), "abspath": (2, 3)}


def describe(ln):
    w = ln.split(" ")
    out = [w[0]]
    for i, t in enumerate(w[1:], 1):
        out.append(("NULL" if t == NULLTOK else repr(unhx(t))[1:]) if i in STRPOS.get(w[0], ()) else t)
    return " ".join(out)


# ---------------------------------------------------------------------------
# generator

def in_base(v, b):
    if v == 0:
        return "0"
    out = ""
    while v:
        out = DIGS[v % b] + out
        v //= b
    return out


def numerals(rng, tier):
    """strings (bytes) with a base to try"""
    lims = [(1 << 31) - 1, 1 << 31, (1 << 32) - 1, 1 << 32, (1 << 63) - 1, 1 << 63, (1 << 64) - 1, 1 << 64]
    mags = set([0, 1, 5, 7, 8, 9, 10, 15, 16, 255])
    for L in lims:
        for d in (-2, -1, 0, 1, 2):
            mags.add(L + d)
    mags.add(10 ** 23)
    mags.add(1 << 100)
    mags = sorted(mags)
    out = []
    pre_blank = [b"", b" ", b"\t ", b"\n"]
    post = [b"", b" ", b"\t\n", b"  \r", b"x", b" 5", b".", b"-", b" \x0bz"]
    for mag in mags:
        for sign in (b"", b"-", b"+"):
            for base, render in ((10, in_base(mag, 10)), (0, in_base(mag, 10)),
                                 (16, in_base(mag, 16)), (16, "0x" + in_base(mag, 16)),
                                 (0, "0X" + in_base(mag, 16).upper()), (0, "0" + in_base(mag, 8)),
                                 (8, in_base(mag, 8)), (2, in_base(mag, 2)), (36, in_base(mag, 36))):
                body = sign + render.encode()
                if base in (10, 0) or tier != "quick":
                    combos = [(a, b) for a in pre_blank for b in post]
                else:
                    combos = [(b"", b""), (b" ", b" "), (b"", b"\t\n"), (b"", b"x")]
                if tier == "quick" and base != 10:
                    combos = combos[:: 3] if len(combos) > 8 else combos
                for a, b in combos:
                    out.append((base, a + body + b))
    specials = [b"", b" ", b"  \t", b"-", b"+", b"- 5", b"--5", b"+-5", b"-+5", b"5 6", b" 5 6", b"5-", b"0x", b"0x ",
                b"0xg", b"0X", b" 0x", b"-0", b"+0", b"-0 ", b"00", b"08", b"09", b"0b1", b"0x0x1", b"1e3", b"1.0",
                b"1_0", b"0x-1", b"hello", b"\xa05", b"5\xa0", b"\x80", b"9" * 40, b"-" + b"9" * 40, b"0" * 30 + b"7",
                b"z", b"Z", b"a", b"7fffffff", b"-80000000", b"ffffffffffffffff", b"-ffffffffffffffff",
                b"-18446744073709551615", b"-18446744073709551614", b"-4294967295", b"-4294967296", b"-1", b"-2",
                b"\x0b\x0c\r5\x0b", b" +7\t"]
    for s in specials:
        for base in (0, 10, 16, 8, 36, 2):
            out.append((base, s))
    # bases the strtol family does not accept (glibc: EINVAL, endptr left unset): every wrapper must refuse
    for base in (1, -1, 37, 38, 100, -10, -16, 255, 256, 65536, 2147483647, -2147483648):
        for s in (b"0", b"1", b"12", b" 12 ", b"-7", b"+0", b"z", b"10", b"0x1f", b"", b" ", b"x", b"9" * 25):
            out.append((base, s))
    n = 200 if tier == "quick" else 3000
    for _ in range(n):
        base = rng.choice([0, 10, 16, 8, 2, 36, 7, 3, 35])
        k = rng.range(0, 22)
        alphabet = b"0123456789abcdefxXzZ +-\t" if rng.chance(1, 2) else (DIGS[:max(base, 2)].encode() + b" -+")
        s = bytes(rng.choice(list(alphabet)) for _ in range(k))
        out.append((base, s))
    return out


def float_cases(rng, tier):
    bodies = ["0", "1", "11.0", "-11.0", "+.5", "5.", "1e3", "1E-3", "3.4028234e38", "3.5e38", "-3.5e38", "1e39",
              "1.7976931348623157e308", "1.8e308", "-1.8e308", "1e309", "-1e309", "1e4932", "1.2e4932", "-1.2e4932",
              "1e4933", "-1e4933", "1e5000", "10e300", "10e10000", "inf", "-inf", "INF", "infinity", "-Infinity", "nan",
              "NAN", "-nan", "nan(1)", "0x1p3", "0x1.8p1", "-0x.8p0", "0x1p128", "0x1p1024", "0x1p16384", "0x1p20000",
              "123456789012345678901234567890", "0.1", "1e-3", "2.5e-5",
              # underflow to zero, subnormal results (exact and inexact), both sides of every boundary
              "1e-50", "-1e-50", "1e-46", "7e-46", "7.1e-46", "1.4e-45", "1e-45", "1e-40", "-1e-40", "1.1754942e-38",
              "1.17549435e-38", "1.1754943e-38", "1.17549421e-38", "0x1p-149", "0x1p-150", "0x1.8p-150", "0x1.000002p-150",
              "0x1p-151", "0x1p-126", "0x1.fffffcp-127", "0x1.fffffep-127", "0x1.ffffffp-127", "0x.8p-148",
              "1e-400", "-1e-400", "1e-324", "2e-324", "2.4e-324", "2.5e-324", "3e-324", "4.9e-324", "5e-324", "-4.9e-324",
              "1e-310", "2.2250738585072014e-308", "2.2250738585072011e-308", "2.225073858507201e-308",
              "0x1p-1074", "0x1p-1075", "0x1.8p-1075", "0x1.0000000000001p-1075", "0x1p-1022", "0x1.fffffffffffffp-1023",
              "0x1.fffffffffffff8p-1023", "1e-5000", "-1e-5000", "1e-4951", "1.8e-4951", "1.9e-4951", "3.6e-4951", "1e-4940",
              "3.3621031431120935e-4932", "3.362103143112093e-4932", "0x1p-16445", "0x1p-16446", "0x1.8p-16446",
              "0x1p-16382", "0x1p-16383", "0x1p-20000", "0x1p-99999", "1e-99999", "0e-99999", "0.0e-400", "0x0p-99999", "-0.0",
              "0." + "0" * 60 + "1", "0." + "0" * 330 + "1", "1" + "0" * 40, "1" + "0" * 310, "0." + "0" * 46 + "7"]
    junk = ["", " ", "\t\n", " 5", "x", "e", "e+", "f", "(", "in"]
    pre = ["", " ", "\n\t"]
    bad = ["", " ", "hello", ".", "e5", "+", "-", "- 1", "in", "na", "0x", ".e1", "++1", "i", "n"]
    out = []
    first_new = bodies.index("1e-50")
    for i, b in enumerate(bodies):
        jj = junk if tier != "quick" else junk[:6]
        if tier == "quick" and i >= first_new:
            jj = junk[:3]          # the range-error cases matter with nothing / blanks behind them; junk is covered above
        for j in jj:
            for p in (pre if tier != "quick" else pre[:2]):
                out.append((p + b + j).encode())
    for b in bad:
        out.append(b.encode())
        out.append((" " + b + " ").encode())
    return out


NAMES = ["a", "bc", ".h", "x.y", "d."]


def plain_paths(rng, tier):
    comps = NAMES + [".."]
    res = set()
    maxn = 3 if tier == "quick" else 4

    def rec(prefix, n):
        if n == 0:
            return
        for c in comps:
            p = prefix + [c]
            for pre in ("", "/", "./"):
                for tr in ("", "/"):
                    res.add(pre + "/".join(p) + tr)
            rec(p, n - 1)
    rec([], maxn)
    res.add("./")
    res = sorted(res)
    if tier == "quick":
        short = [p for p in res if p.count("/") <= 2]
        rest = [p for p in res if p.count("/") > 2]
        rest = rng.shuffle(rest)[:400]
        res = short + rest
    return res


ODD_PATHS = [b"", b"/", b".", b"..", b"...", b"a/./b", b"a//b", b"//", b"a/..b", b"a/...", b"a..", b"a../..", b"..a",
             b"c:/", b"c:/x", b"c:\\x\\y", b"c:", b"c:x", b"C:\\", b"1:/x", b"a\\b", b"a\\..\\b", b".\\x", b".\\", b"\\",
             b"\\a", b"a\\", b"/..", b"/../a", b"/a/../..", b"x/c:/y", b"ab:/c", b"a:/b/..", b"a/\x80\xff", b"\xff",
             b"a/b/c/d/e/f", b"./.", b"./..", b"././a", b"../", b"../..", b"../../..", b"a/../../..", b"a/..", b"a/../",
             b"....", b"a/..../b", b". ./a", b" ", b"a b/c d", b"a/.", b"/.", b"/a", b"/ab"]


def path_cases(rng, tier):
    cases = []

    def add(name, line):
        cases.append(V.Case(name, [line]))
    plain = [p.encode() for p in plain_paths(rng, tier)]
    n = 0
    for p in plain + ODD_PATHS:
        for op in ("normpath", "dirname", "basename"):
            for size in range(0, len(p) + 3):
                add("p%d-%s-%d" % (n, op, size), "%s %d %s" % (op, size, hx(p)))
        add("p%d-isabs" % n, "isabs %s" % hx(p))
        n += 1
    # join: every pair of a small set, every size
    left = [b"a", b"a/", b"/a", b"./a", b"a/bc", b"a/bc/", b"..", b"../", b"/", b"./", b".", b"", b"a\\", b"c:/", b"x.y/..",
            b"\xe9"]
    right = [b"b", b"/b", b"b/", b"../b", b"..", b"/", b"", b"//b", b"\\b", b"b/cd", b"/b/cd", b".h", b"\xff\x01"]
    if tier != "quick":
        left += [p.encode() for p in ("a/bc/.h", "/a/bc", "../..", "./a/")]
        right += [p.encode() for p in ("../../b", "b/../c", "x.y/d./")]
    k = 0
    for a in left:
        for b in right:
            tot = len(a) + len(b) + 1
            for size in range(0, tot + 3):
                add("j%d-%d" % (k, size), "join %d %s %s" % (size, hx(a), hx(b)))
            k += 1
    # abspath: cwd as a parameter
    cwds = [b"/", b"/w", b"/w/d", b"/w/d."] if tier == "quick" else [b"/", b"/w", b"/w/d", b"/w/d.", b"/" + b"y" * 1015,
                                                                    b"/" + b"y" * 1021, b"/" + b"y" * 1022]
    rel = [b"a", b"a/bc", b"../a", b"..", b"../..", b"../../..", b"a/../b", b"./a", b"/abs", b"/abs/x/", b"/", b"",
           b"c:/x", b"a/", b"a//b", b"hello/../hello", b"a\\b", b"x", b"xy"]
    k = 0
    for c in cwds:
        for r in rel:
            tot = len(c) + len(r) + 1
            sizes = range(0, tot + 3) if tot < 64 else list(range(0, 4)) + list(range(tot - 3, tot + 3)) + [1024, 1025, 1030]
            for size in sizes:
                add("ab%d-%d" % (k, size), "abspath %d %s %s" % (size, hx(c), hx(r)))
            k += 1
    return cases


MIX_ALPHABET = b"ab/\\:."


def mixed_strings(maxlen):
    """every string of length 1..maxlen over {a, b, '/', '\\', ':', '.'}"""
    out, layer = [], [b""]
    for _ in range(maxlen):
        layer = [w + bytes([c]) for w in layer for c in MIX_ALPHABET]
        out += layer
    return out


JOIN_LEFT = [b"f:\\data\\in", b"f:/tmp", b"a\\b", b"/mnt/share", b"./a", b"x\\", b"c:", b".\\w", b"/a\\b/c"]
JOIN_RIGHT = [b"sub\\x.csv", b"x.txt", b"d\\e/f", b"..\\y", b"/z\\w", b"..", b"p/q\\..\\r"]


def mixed_path_cases(rng, tier):
    """mixed-separator paths for ALL path functions, every size 0..len+2; one case per path (or pair)"""
    cases = []

    def single(name, p):
        lines = ["isabs %s" % hx(p)]
        for op in ("basename", "dirname", "normpath"):
            lines += ["%s %d %s" % (op, size, hx(p)) for size in range(0, len(p) + 3)]
        cases.append(V.Case(name, lines))

    def pair(name, a, b):
        tot = len(a) + len(b) + 1
        cases.append(V.Case(name, ["join %d %s %s" % (size, hx(a), hx(b)) for size in range(0, tot + 3)]))

    def absp(name, cwd, q):
        tot = len(cwd) + len(q) + 1
        cases.append(V.Case(name, ["abspath %d %s %s" % (size, hx(cwd), hx(q)) for size in range(0, tot + 3)]))

    if tier == "quick":
        short = mixed_strings(3)
        longer = mixed_strings(6)[len(short):]
        strs = short + [longer[rng.below(len(longer))] for _ in range(500)]
    else:
        strs = mixed_strings(6)
    for i, p in enumerate(strs):
        single("mx%d" % i, p)
    # join: pairs of mixed strings, and the library's own mixed products fed back to the other functions
    small = [b""] + mixed_strings(2)
    if tier == "quick":
        pairs = [(small[rng.below(len(small))], small[rng.below(len(small))]) for _ in range(200)]
    else:
        pairs = [(a, b) for a in small for b in small]
    pairs += [(a, b) for a in JOIN_LEFT for b in JOIN_RIGHT]
    for i, (a, b) in enumerate(pairs):
        pair("mxj%d" % i, a, b)
    k = 0
    for a in JOIN_LEFT:
        for b in JOIN_RIGHT:
            j = ref_join(a.decode("latin-1"), b.decode("latin-1"))
            if j is not None:
                single("mxjp%d" % k, j.encode("latin-1"))
                k += 1
    # abspath: cwd a parameter
    cwds = [b"/", b"/w", b"/w\\d", b"/a/b", b"/a\\..", b"/a:"]
    rel = mixed_strings(3) if tier != "quick" else [strs[rng.below(len(strs))] for _ in range(120)]
    rel = rel + JOIN_RIGHT
    k = 0
    for c in cwds:
        for q in (rel if tier != "quick" else rel[k % 3::3]):
            absp("mxa%d" % k, c, q)
            k += 1
    return cases

LONG_MARKS = (255, 256, 511, 512, 1023, 1024)      # 1024 = MUGGLE_MAX_PATH


def long_path_cases(rng, tier):
    """long inputs for ALL five path functions in BOTH tiers: total lengths around 255/256, 511/512, 1023/1024
    (= MUGGLE_MAX_PATH, the size of abspath's two stack buffers) and output sizes around them.  One call per case."""
    cases = []

    def add(name, line):
        cases.append(V.Case(name, [line]))

    def sizes_around(need, extra=()):
        return sorted(set([0, 1, 2, need - 2, need - 1, need, need + 1, need + 2] + list(extra)))

    totals = sorted(set(m + d for m in LONG_MARKS for d in (-1, 0, 1)))
    if tier == "quick":
        totals = list(LONG_MARKS) + [1025]          # the model needs ~30 ms per call on 1024-cell buffers
    k = 0
    for T in totals:
        # basename / dirname / normpath: a long directory part, a long base part, a long single component
        for path in (b"/" + b"d" * (T - 6) + b"/base", b"dd/" + b"b" * (T - 3), b"n" * T, b"./" + b"q" * (T - 2),
                     b"/" + b"e" * (T // 2 - 1) + b"/" + b"f" * (T - T // 2 - 1)):
            assert len(path) == T, (T, len(path))
            for op in ("basename", "dirname", "normpath"):
                ref = {"basename": ref_basename, "dirname": ref_dirname}.get(op)
                r = ref(path.decode("latin-1")) if ref else None
                needs = set([T + 1])
                if r is not None:
                    needs.add(len(r) + 1)
                for need in sorted(needs):
                    for size in (need - 1, need, need + 1):
                        add("lp%d-%s-%d" % (k, op, size), "%s %d %s" % (op, size, hx(path)))
            add("lp%d-isabs" % k, "isabs %s" % hx(path))
            k += 1
        # normpath with ".." that pops a long component / keeps a long "../" chain
        for path in (b"/" + b"g" * (T - 9) + b"/../tail", b"../" * ((T - 1) // 3) + b"x" * (T - 3 * ((T - 1) // 3))):
            for size in (T, T + 1, T + 2):
                add("lp%d-normpath-%d" % (k, size), "normpath %d %s" % (size, hx(path)))
            k += 1
        # join: long left / long right / both; the product has exactly T bytes
        for a, b in ((b"/" + b"l" * (T - 3), b"r"), (b"l", b"r" * (T - 2)), (b"l" * (T // 2), b"/" + b"r" * (T - T // 2 - 1)),
                     (b"l" * (T - 3) + b"/", b"rr")):
            j = ref_join(a.decode("latin-1"), b.decode("latin-1"))
            assert j is not None and len(j) == T, (T, len(j))
            for size in sizes_around(T + 1)[3:]:
                add("lj%d-%d" % (k, size), "join %d %s %s" % (size, hx(a), hx(b)))
            k += 1
        # abspath: cwd + "/" + path has exactly T bytes (T >= 1024 does not fit MUGGLE_MAX_PATH: an error, no overflow)
        for cwd, q in ((b"/" + b"y" * (T - 3), b"a"), (b"/w", b"p" * (T - 3)), (b"/" + b"y" * (T - 9), b"../a/bc"),
                       (b"/" + b"y" * (T // 2 - 1), b"z" * (T - T // 2 - 1))):
            assert len(cwd) + 1 + len(q) == T, (T, len(cwd), len(q))
            if tier == "quick" and cwd == b"/w" and T % 2 == 0:
                continue
            for size in ((T, T + 1, T + 2) if tier == "quick" else (T, T + 1, T + 2, 2048)):
                add("la%d-%d" % (k, size), "abspath %d %s %s" % (size, hx(cwd), hx(q)))
            k += 1
        # abspath of a long ABSOLUTE path (copied, not joined)
        q = b"/" + b"h" * (T - 1)
        for size in (T, T + 1, T + 2):
            add("la%d-%d" % (k, size), "abspath %d %s %s" % (size, hx(b"/w"), hx(q)))
        k += 1
    return cases


def rotations(w):
    return [w[i:] + w[:i] for i in range(len(w))]


def long_string_lines(rng, tier):
    """find / count / startswith / endswith / strip on inputs well beyond length 5 and alphabets beyond {a,b,c}:
    periodic haystacks, overlapping and nearly-matching needles (what a hand-rolled strstr gets wrong), needles longer
    than the haystack, empty needle, every byte value; NULL arguments."""
    out = []
    units = [b"a", b"ab", b"aab", b"aba", b"abc", b"abcab", b"aabaa", b"abab", b"\xff\x80", b"\x01\xfe\x01", b"a\xe9", b"xyzxy"]
    hay = []
    for u in units:
        for n in (6, 7, 12, 13, 24):
            s = (u * (n // len(u) + 1))[:n]
            hay.append(s)
            hay.append(s[:-1] + (b"z" if s[-1:] != b"z" else b"y"))      # period broken at the end
            hay.append(s[: n // 2] + b"q" + s[n // 2:])                   # ... and in the middle
    # the classic failures of a search that skips ahead after a partial match
    classic = [(b"aaab" * 3, b"aab"), (b"aaaaaaaab", b"aaab"), (b"ababac", b"abac"), (b"abababc", b"ababc"),
               (b"aabaabaac", b"aabaac"), (b"abcabcabd", b"abcabd"), (b"xxxxxxxy", b"xxxy"), (b"aaaaaa", b"aa"),
               (b"aaaaaaa", b"aaa"), (b"abababa", b"aba"), (b"abababab", b"abab"), (b"mississippi", b"issip"),
               (b"mississippi", b"ssi"), (b"\x80\x80\x80\x81", b"\x80\x81"), (b"\xff\xff\xfe", b"\xff\xfe")]
    pairs = list(classic)
    for s in hay:
        subs = set([b"", s, s + b"a", s[1:], s[:-1], s * 2, s[-3:], s[:3], s[2:7], s[len(s) // 2:], s[len(s) // 2 - 2:len(s) // 2 + 3]])
        for sub in list(subs):
            if len(sub) >= 2:
                k = rng.below(len(sub))
                subs.add(sub[:k] + bytes([(sub[k] % 255) + 1]) + sub[k + 1:])        # one byte changed
                subs.update(rotations(sub)[1:3])
        for sub in subs:
            if b"\x00" not in sub:
                pairs.append((s, sub))
    n_rand = 150 if tier == "quick" else 3000
    for _ in range(n_rand):
        alpha = rng.choice([b"ab", b"abc", b"ab ", bytes(range(1, 256)), b"\x7f\x80\xff", b"aA"])
        s = bytes(rng.choice(list(alpha)) for _ in range(rng.range(6, 40)))
        if rng.chance(2, 3):
            i = rng.below(len(s)); j = rng.range(i, min(len(s), i + 9))
            sub = s[i:j]
        else:
            sub = bytes(rng.choice(list(alpha)) for _ in range(rng.range(0, 6)))
        pairs.append((s, sub))
    if tier == "quick":
        keep = classic + rng.shuffle(pairs[len(classic):])[:700]
        pairs = keep
    for s, sub in pairs:
        L = len(s)
        wins = [(0, 0), (1, 0), (0, L - 1), (2, L), (0, L + 5), (L // 2, 0), (L - 1, 0), (1, L - 1), (0, max(len(sub), 1)),
                (L - max(len(sub), 1), 0)]
        if tier == "quick":
            wins = wins[:3] + [wins[3 + rng.below(len(wins) - 3)]]
        for a, b in wins:
            if a < 0:
                continue
            out.append("find %s %s %d %d" % (hx(s), hx(sub), a, b))
            if sub:
                out.append("count %s %s %d %d" % (hx(s), hx(sub), a, b))
    # startswith / endswith: every prefix / suffix length, one byte changed at every position, longer than the string
    sw = [b"abcabcabcabc", b"aaaaaaaaab", b"\xff\x80\xff\x80\x7f", b"path/to/file.txt", b"x" * 33]
    for s in sw:
        for k in range(0, len(s) + 1):
            out.append("startswith %s %s" % (hx(s), hx(s[:k])))
            out.append("endswith %s %s" % (hx(s), hx(s[len(s) - k:])))
            if k and (tier != "quick" or k % 3 == 1 or k == len(s)):
                for pos in (0, k // 2, k - 1):
                    pre = s[:k]
                    bad = pre[:pos] + bytes([(pre[pos] % 255) + 1]) + pre[pos + 1:]
                    out.append("startswith %s %s" % (hx(s), hx(bad)))
                    suf = s[len(s) - k:]
                    bad = suf[:pos] + bytes([(suf[pos] % 255) + 1]) + suf[pos + 1:]
                    out.append("endswith %s %s" % (hx(s), hx(bad)))
        out.append("startswith %s %s" % (hx(s), hx(s + b"a")))
        out.append("endswith %s %s" % (hx(s), hx(b"a" + s)))
        out.append("startswith %s %s" % (hx(s), hx(s[1:])))
        out.append("endswith %s %s" % (hx(s), hx(s[:-1])))
    # strip indices: runs of every blank character before / behind / inside longer texts
    texts = [b"x", b"word", b"two words", b"a\tb\nc", b"\x85\xa0", b"\xff", b"0", b"a" * 30, b"in  ner   blanks"]
    for tx in texts:
        for nl in (0, 1, 2, 6, 11):
            for nr in (0, 1, 5, 12):
                lead = bytes(BLANKS[(i * 5 + nl) % 6] for i in range(nl))
                trail = bytes(BLANKS[(i * 7 + nr) % 6] for i in range(nr))
                out.append("lstrip %s" % hx(lead + tx + trail))
                out.append("rstrip %s" % hx(lead + tx + trail))
    for n in (3, 8, 21, 64):
        out.append("lstrip %s" % hx(bytes(BLANKS[i % 6] for i in range(n))))
        out.append("rstrip %s" % hx(bytes(BLANKS[i % 6] for i in range(n))))
    # NULL arguments (str.c checks them)
    N, A = NULLTOK, hx(b"ab")
    out += ["lstrip " + N, "rstrip " + N, "startswith %s %s" % (N, A), "startswith %s %s" % (A, N), "startswith %s %s" % (N, N),
            "endswith %s %s" % (N, A), "endswith %s %s" % (A, N), "endswith %s %s" % (N, N),
            "find %s %s 0 0" % (N, A), "find %s %s 0 0" % (A, N), "find %s %s 0 0" % (N, N), "find %s %s -1 3" % (N, A),
            "count %s %s 0 0" % (N, A), "count %s %s 0 0" % (A, N), "count %s %s 0 0" % (N, N), "count %s - 0 0" % N]
    return out


def group(cases, prefix, lines, per=12):
    for i in range(0, len(lines), per):
        cases.append(V.Case("%s-%d" % (prefix, i // per), lines[i:i + per]))


def corpus_cases(ctx):
    """regression cases: every defect the unchanged tree showed (corpus/C20/*.case)"""
    d = os.path.join(V.VERIF, "corpus", "C20")
    out = []
    if os.path.isdir(d):
        for f in sorted(os.listdir(d)):
            if f.endswith(".case"):
                out.append(V.Case.load(os.path.join(d, f)))
    return out


def generate(rng, tier):
    cases = []
    # next_pow_of_2
    xs = [0]
    for k in range(0, 65):
        for d in (-1, 0, 1):
            v = (1 << k) + d
            if 0 <= v < U64:
                xs.append(v)
    for _ in range(300 if tier == "quick" else 20000):
        xs.append(rng.next())
        xs.append(rng.next() >> rng.range(0, 63))
        xs.append(rng.next() & 0xFFFFFFFF)
    group(cases, "npo2", ["npo2 %d" % x for x in xs], 16)
    # endian swaps
    sw = []
    for bits in (16, 32, 64):
        vals = [0, 1, (1 << bits) - 1, 0x0102030405060708 % (1 << bits), 0x80 << (bits - 8)]
        vals += [1 << k for k in range(bits)]
        vals += [rng.next() % (1 << bits) for _ in range(60 if tier == "quick" else 2000)]
        sw += ["swap%d %d" % (bits, v) for v in vals]
    group(cases, "swap", sw, 16)
    # the 16-bit macro in wider integer contexts and as a nested round trip, EVERY 16-bit value
    group(cases, "swapw", ["swapw %d" % v for v in range(65536)], 128)
    group(cases, "swapw32", ["swapw32 %d" % v for v in
                             [0, 1, 0xFF, 0x100, 0xFFFF, 0x10000, 0x01020304, 0x80000000, 0xFFFFFFFF, 0xFF000000] +
                             [rng.next() & 0xFFFFFFFF for _ in range(300 if tier == "quick" else 5000)]], 32)
    # every macro on an operand of EVERY integer type (an lvalue of that type), consumed as uint64 / int64 / uintN and
    # as a nested round trip: negative values, INT_MIN, low / high bytes >= 0x80, all-ones
    tv = [0, 1, 0x7F, 0x80, 0xFF, 0x100, 0x7FFF, 0x8000, 0xFFFF, 0x10000, 0x7FFFFFFF, 0x80000000, 0xFFFFFFFF, 1 << 32,
          0x7FFFFFFFFFFFFFFF, 1 << 63, U64 - 1, 0x11223380, 0x80332211, 0x1122334455667780, 0x8877665544332211,
          0x0102030405060708, 0xF1F2F3F4F5F6F7F8, U64 - 2, U64 - 0x80, U64 - 0x8000, U64 - 0x80000000, 0x00FF00FF00FF00FF,
          0xFF00FF00FF00FF00, 0x80, 0x8080, 0x80808080, 0x8080808080808080]
    tv += [1 << k for k in range(0, 64, 7)]
    tv += [rng.next() for _ in range(24 if tier == "quick" else 600)]
    tv += [rng.next() | 0x8000000080008080 for _ in range(12 if tier == "quick" else 200)]
    st_lines = []
    for v in tv:
        for n in (16, 32, 64):
            for ty in ("i8", "u8", "i16", "u16", "i32", "u32", "i64", "u64"):
                st_lines.append("swapt %d %s %d" % (n, ty, v))
    group(cases, "swapt", st_lines, 24)
    # integer parsers
    nums = numerals(rng, tier)
    lines = []
    for base, s in nums:
        if b"\x00" in s:
            continue
        for op in ("toi", "tou", "tol", "toul", "toll", "toull"):
            lines.append("%s %d %s" % (op, base, hx(s)))
    for op in ("toi", "tou", "tol", "toul", "toll", "toull"):
        lines += ["%s 10 %s" % (op, NULLTOK), "%s 10 %s P0" % (op, hx(b"12")), "%s 0 %s P0" % (op, NULLTOK),
                  "%s 1 %s" % (op, NULLTOK), "%s 37 %s P0" % (op, hx(b"12"))]
    group(cases, "int", lines, 12)
    # float parsers (abstract libc result supplied by the generator: consumed, is-inf, ERANGE, is-zero)
    fl = []
    for s in float_cases(rng, tier):
        consumed, num = float_prefix(s)
        for op in ("tof", "tod", "told"):
            inf, zero, er = (0, 1, 0)           # nothing converted: libc returns zero
            if consumed:
                inf, zero, er = float_class(num, op)
            fl.append("%s %s %d %d %d %d" % (op, hx(s), consumed, inf, er, zero))
    fl += ["%s %s 0 0 0 0" % (op, NULLTOK) for op in ("tof", "tod", "told")]
    fl += ["%s %s 1 0 0 0 P0" % (op, hx(b"1")) for op in ("tof", "tod", "told")]
    fl += ["%s %s 0 0 0 0 P0" % (op, NULLTOK) for op in ("tof", "tod", "told")]
    group(cases, "flt", fl, 12)
    # strip / startswith / endswith on all byte values
    st = []
    for b in range(1, 256):
        c = bytes([b])
        for s in (c, c + b"x", b"x" + c, c + c, c + b"x" + c, b" " + c, c + b" "):
            st.append("lstrip %s" % hx(s))
            st.append("rstrip %s" % hx(s))
        st.append("startswith %s %s" % (hx(c + b"yz"), hx(c)))
        st.append("startswith %s %s" % (hx(b"y" + c), hx(c)))
        st.append("endswith %s %s" % (hx(b"yz" + c), hx(c)))
        st.append("endswith %s %s" % (hx(c + b"y"), hx(c)))
    for s in (b"", b" ", b"  ", b"\t\n\v\f\r ", b"a", b" a", b"a ", b" a ", b"  a b  ", b"\x85", b"\xa0"):
        st.append("lstrip %s" % hx(s))
        st.append("rstrip %s" % hx(s))
    words = [b"", b"a", b"ab", b"abc", b"b", b"bc", b"abcd", b"aab", b"aba", b"ba"]
    for s in words:
        for p in words:
            st.append("startswith %s %s" % (hx(s), hx(p)))
            st.append("endswith %s %s" % (hx(s), hx(p)))
    group(cases, "strip", st, 16)
    # find / count exhaustively on short strings over {a,b}
    fc = []
    maxlen = 3 if tier == "quick" else 5
    strs = [b""]
    for n in range(1, maxlen + 1):
        strs += [bytes(97 + ((i >> k) & 1) for k in range(n)) for i in range(1 << n)]
    subs = [b"", b"a", b"b", b"ab", b"aa", b"ba", b"aba", b"c"]
    for s in strs:
        for sub in subs:
            for a in range(-1, len(s) + 2):
                for b in range(-1, len(s) + 3):
                    fc.append("find %s %s %d %d" % (hx(s), hx(sub), a, b))
                    if sub or (len(s) <= 1 and a <= 0 and b <= 0):    # an empty sub: only a handful (hang class)
                        fc.append("count %s %s %d %d" % (hx(s), hx(sub), a, b))
    fc += ["count %s %s %d %d" % (hx(b"ooooo"), hx(b"o" * k), a, 0) for k in range(1, 7) for a in range(0, 6)]
    group(cases, "findcount", fc, 16)
    group(cases, "longstr", long_string_lines(rng, tier), 16)
    # hex
    hxs = ["hexbyte %d" % c for c in range(256)]
    for c in range(1, 256):
        hxs.append("hex2b %s" % hx(bytes([c, 0x34])))
        hxs.append("hex2b %s" % hx(bytes([0x41, c])))
    hxs.append("b2hex %s" % hx(bytes(range(256))))
    hxs.append("hex2b %s" % hx(binascii.hexlify(bytes(range(256)))))
    hxs.append("hex2b %s" % hx(binascii.hexlify(bytes(range(256))).upper()))
    hxs += ["hex2b -", "b2hex -", "hex2b %s" % hx(b"a"), "hex2b %s" % hx(b"abc"), "hex2b %s" % hx(b"abg"), "hex2b %s" % hx(b"12zz")]
    for _ in range(50 if tier == "quick" else 1000):
        b = bytes(rng.below(256) for _ in range(rng.range(0, 24)))
        hxs.append("b2hex %s" % hx(b))
        hh = binascii.hexlify(b)
        hh = bytes((c - 32 if (97 <= c <= 102 and rng.chance(1, 2)) else c) for c in hh)
        hxs.append("hex2b %s" % hx(hh))
        if hh:
            k = rng.below(len(hh))
            hxs.append("hex2b %s" % hx(hh[:k] + bytes([rng.range(1, 255)]) + hh[k + 1:]))
    group(cases, "hex", hxs, 16)
    # paths: one call per case (a sanitizer abort ends the case)
    cases += path_cases(rng, tier)
    cases += mixed_path_cases(rng, tier)
    cases += long_path_cases(rng, tier)
    return cases


def search(rng, diverging, tier):
    """extra inputs aimed at the arithmetic boundaries, used when an obligation or the correspondence broke"""
    lines = []
    for k in range(0, 65):
        for d in (-3, -2, -1, 0, 1, 2, 3):
            v = (1 << k) + d
            if 0 <= v < U64:
                lines.append("npo2 %d" % v)
    for _ in range(4000):
        lines.append("npo2 %d" % (rng.next() >> rng.range(0, 63)))
    lines += ["hexbyte %d" % c for c in range(256)]
    out = []
    group(out, "search", lines, 1)
    return out


def nontrivial_key(case, lines):
    if any(l.startswith("ok") or l.startswith("rc=0") for l in lines) or case.lines[0].split(" ")[0] in (
            "npo2", "swap16", "swap32", "swap64", "swapw", "swapw32", "swapt", "lstrip", "rstrip", "startswith", "endswith", "find", "count",
            "hexbyte", "b2hex", "isabs"):
        return "\n".join(case.lines)
    return None


def tally(dist, case, lines):
    k = 0
    for ln in case.lines:
        op = ln.split(" ", 1)[0]
        dist["op=" + op] = dist.get("op=" + op, 0) + 1
        n = 2 if (op in INT_RANGES or op in ("tof", "tod", "told")) else 1
        got = lines[k:k + n]
        k += n
        if op in INT_RANGES and len(got) == 2 and got[1].startswith("libc "):
            dist["libc_model_vs_real_compared"] = dist.get("libc_model_vs_real_compared", 0) + 1
            if got[1].endswith(" 1"):
                dist["libc_erange_results"] = dist.get("libc_erange_results", 0) + 1
        if op in ("tof", "tod", "told") and len(got) == 2:
            dist["libc_float_oracle_compared"] = dist.get("libc_float_oracle_compared", 0) + 1
        if got:
            if got[0].startswith("ok") or got[0].startswith("rc=0"):
                dist["success"] = dist.get("success", 0) + 1
            elif got[0].startswith("fail") or got[0].startswith("rc="):
                dist["rejected"] = dist.get("rejected", 0) + 1


MANIFEST = {
    "level_text": ("Coq theorems over an executable model of the repaired utilities: next_pow_of_2 is the least power of "
                   "two >= x on [1, 2^63] (bit-smearing lemma over N.testbit) and is tied to the C text by the leaf "
                   "translator obligation gen_npo2_eq; the six integer parsers succeed with v iff the base is 0 or 2..36 and the string is one "
                   "well-formed in-range numeral with surrounding blanks, relative to a Gallina model of the strtol "
                   "family that is itself compared with the real libc on every run, and their C text (NULL/base checks, errno, end-pointer, range and sign chain) is regenerated and proved equal to the model on every run (gen_parsers_eq), as is the text of lstrip/rstrip/startswith/endswith (loops as iteration functions); path functions never touch a cell "
                   "outside the caller's buffer and NUL-terminate every success for all inputs and sizes; normpath, abspath, "
                   "join, dirname, basename, isabs agree with the reference path algebra (path_algebra, path_algebra_leaf); hex round-trip and rejection; endian swaps are involutions; strip/startswith/endswith/find/"
                   "count against list specifications.  Model tied to the code by a differential run on exact-size ASan buffers plus an "
                   "independent Python monitor (int(), bytes.find/count, binascii, component path algebra)."),
    "design_ref": "DESIGN.md section 6 / C20, section 4.4",
    "level_note": ("Trusted: Coq kernel, extraction, leaf translator, the differential harness, ASan as the memory oracle; "
                   "libc strtol family modelled (compared with the real one every run); float values never enter Coq."),
    "technique": "Coq proofs (N.testbit smearing, list induction, finite sweeps lifted by lemmas) + leaf translator "
                 "obligation + extracted-model differential run with ASan exact-size buffers + independent monitor",
}
