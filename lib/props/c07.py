"""C07 — bytes buffer is a lossless byte FIFO: plugin for bin/check."""
import vcommon as V

ID = "C07"
COQ_DIRS = ["C07"]
MODEL_BASE = "c07_model"
OCAML_DRIVER = "ocaml/c07_driver.ml"
C_DRIVER = "harness/drivers/c07_driver.c"
REPO_SOURCES = ["muggle/c/memory/bytes_buffer.c"]
HEADER_LINES = 1
CASE_TIMEOUT = 5.0
SHRINK_BUDGET = 200

RULE = ("(1) explicit-state enumeration: every (w,r,t) state reachable from init for capacities 2..6 (quick) / 2..12 "
        "(thorough), each reached by replaying a shortest BFS-generated operation sequence and then probed with every "
        "operation at every size 0..c (wfc n x wmn k<=n, rfc n x rmove k<=n+1 included), followed by a full drain and a "
        "capacity re-use round; (2) seeded random long histories for capacities up to 64 with sizes drawn at the "
        "case-split boundaries of the current state (cw, jw, cr, rd, wr and their +-1); (3) sequences aimed at: "
        "truncating jump, reader wrap (by read or reader_move), writer arriving at t-1 / exactly t / t+1 of the stale "
        "mark by write / writer_move_n / writer_move, then reads.  A case is non-trivial when at least one write was "
        "accepted and at least one byte was delivered; distinct = distinct script text")
TRUSTED_BASE = [
    "modelled, not verified: C int overflow (sizes and capacities are far below 2^31); malloc'ed contents (the driver fills the fresh buffer with 0xEE and the model starts from the same filler)",
    "memory safety on the implementation side is ASan on exact-size heap blocks (buffer, every source and destination); on the model side the theorem bb_indices_in_range",
]
ASSUMPTIONS = [
    "sizes are non-negative; capacity >= 1",
    "writer_move_n(ptr,k) directly follows the writer_fc(n) that returned ptr, with k <= n (DESIGN.md Appendix B); a reader operation in between is an API hazard outside the property's histories",
    "deprecated writer_move(n) is exercised in its documented pairing: writer_fc(n), store n bytes, writer_move(n)",
]
EVIDENCE_NOTES = [
    "model and theorems are for the REPAIRED code (fixes/C07-stale-truncation-mark.patch, fixes/C07-reader-move-wrap.patch); on the unpatched tree the monitor reports both defects",
    "proved (unbounded, every capacity, every history; nothing is left _partial): bb_inv_reachable, bb_refines_fifo (trace-level FIFO refinement incl. readable = accepted - consumed after every operation, zero-copy pairs with partial advances, deprecated writer_move pairing), bb_step_refines (same from any state satisfying the invariant), bb_readable_exact, bb_fail_iff_lack (every operation kind) and bb_refused_changes_nothing, bb_reader_never_stuck, bb_space_accounting, bb_empty_all_writable, bb_indices_in_range; Examples orig_stale_mark_resurrects / orig_reader_move_stuck show by computation that the two original tests break the invariant",
    "second tie: contiguous_writable / jump_writable / jump_readable / contiguous_readable are translated from the C text on every run by the shared AST translator lib/leaftrans.py (coq/gen/Params_C07.v) and bb_helpers_match_source proves them equal to the model's helpers by a decision tactic that does not depend on the shape of the C text; an edit of a helper that changes its value anywhere, or makes it untranslatable or absent, breaks that obligation; only these four functions are required to exist by name",
    "only covered by the differential run, not by a theorem: agreement of the hand-written model of the operations themselves (write/read/fetch/fc/move bodies) with the C text; behaviour for negative sizes or for writer_move_n used outside its contract",
    "'st' lines (private fields c w r t) are informational: used for the distinct-state tally, never compared between model and implementation",
]

FILL = 0xEE


# --------------------------------------------------------------------------
# second tie (DESIGN.md 4.4): the four space helpers of bytes_buffer.c are re-translated from the
# C text (clang JSON AST, shared translator lib/leaftrans.py) into Gallina on every run, and
# Properties_C07.v / C07/ProofsGen.v prove them equal to the model's helpers.
#
# REQUIRED of the source: functions with a body named muggle_bytes_buffer_<leaf> for the four leaves
# below, taking the buffer pointer only, inside the translator's leaf subset (integer locals, if/else,
# guard clauses, ?:, && || !, + - * ...; no loops, no calls).  Nothing else is required: refresh /
# clear / any new private helper may be inlined, renamed, added or removed freely.  A leaf that is
# missing or untranslatable yields "Definition gen_<leaf> ... := -1" with the reason in a comment, so
# the obligation FAILS (translator error = broken obligation), it never silently passes.
#
# The translated definition takes the fields in order of first use (which a rewrite may change); the
# wrapper gen_<leaf> (c w r t) emitted here has a fixed signature, so the lemma statements do not
# depend on the shape of the C text.

import os

LEAVES = ["contiguous_writable", "jump_writable", "jump_readable", "contiguous_readable"]
_FIELD_ARG = {"f_c": "c", "f_w": "w", "f_r": "r", "f_t": "t"}


def gen_params(ctx):
    import leaftrans as L
    V.gen_config_header()
    flags = ["-std=gnu11", "-I" + V.REPO, "-I" + V.GEN_INC, "-DNDEBUG"]
    src = os.path.join(V.REPO, REPO_SOURCES[0])
    out = ["(* generated by lib/props/c07.py + lib/leaftrans.py from the C text of %s on this run; do not edit *)" % REPO_SOURCES[0],
           "From MV Require Import Lib.Leaf.", "Local Open Scope Z_scope.", ""]
    for name in LEAVES:
        try:
            text, fields, params, written, ret = L.translate(src, "muggle_bytes_buffer_" + name, flags, "raw_" + name)
            if params or written or ret != "Z":
                raise L.LeafError("not a pure int function of the buffer fields (params %s, writes %s, returns %s)" % (
                    params, written, ret))
            bad = [k for k, arr in fields if arr or k not in _FIELD_ARG]
            if bad:
                raise L.LeafError("reads fields other than c, w, r, t: %s" % bad)
            out.append(text)
            out.append("Definition gen_%s (c w r t : Z) : Z := raw_%s%s.\n" % (
                name, name, "".join(" " + _FIELD_ARG[k] for k, _ in fields)))
        except Exception as ex:      # LeafError, clang missing, malformed AST: all are a broken obligation
            msg = ("%s: %s" % (type(ex).__name__, ex)).replace("*)", "* )").replace("(*", "( *")
            out.append("(* translator error for %s: %s *)" % (name, msg[:400]))
            out.append("Definition gen_%s (c w r t : Z) : Z := -1.\n" % name)
    return "\n".join(out)


# --------------------------------------------------------------------------
# abstract cursor machine used ONLY to steer the generator (which sizes are
# interesting in the current state, BFS over cursor states).  It never judges.

def a_cw(c, s):
    w, r, t = s
    return (c - w if r != 0 else c - w - 1) if w >= r else r - w - 1


def a_jw(c, s):
    w, r, t = s
    return (r - 1 if r != 0 else 0) if w >= r else 0


def a_cr(c, s):
    w, r, t = s
    return w - r if w >= r else t - r


def a_jr(c, s):
    w, r, t = s
    return 0 if w >= r else w


def a_rd(c, s):
    return a_cr(c, s) + a_jr(c, s)


def a_wr(c, s):
    return a_cw(c, s) + a_jw(c, s)


def _adv(c, s, n):
    w, r, t = s
    w1 = w + n
    t1 = c if t <= w1 else t
    return (0 if w1 == c else w1, r, t1)


def _refresh(c, s):
    return (0, 0, c) if s[0] == s[1] else s


def a_write(c, s, n):
    w, r, t = s
    cw, jw = a_cw(c, s), a_jw(c, s)
    if cw >= n:
        return _adv(c, s, n), True
    if cw + jw < n:
        return s, False
    if jw >= n:
        return (n, r, w), True
    return (n - cw, r, c), True


def a_read(c, s, n):
    w, r, t = s
    cr, jr = a_cr(c, s), a_jr(c, s)
    if cr >= n:
        r1 = r + n
        return _refresh(c, (w, 0 if r1 == t else r1, t)), True
    if cr + jr < n:
        return s, False
    return _refresh(c, (w, n - cr, t)), True


def a_wfc(c, s, n):
    if a_cw(c, s) >= n:
        return s[0]
    if a_jw(c, s) >= n:
        return 0
    return None


def a_wmn(c, s, off, k):
    w, r, t = s
    if off == 0:
        return (k, r, w if w > 0 else t)
    return _adv(c, s, k)


def a_wmove(c, s, n):
    w, r, t = s
    if a_cw(c, s) >= n:
        return _adv(c, s, n), True
    if a_jw(c, s) >= n:
        return (n, r, w), True
    return s, False


def a_rmove(c, s, k):
    w, r, t = s
    if a_cr(c, s) >= k:
        r1 = r + k
        return _refresh(c, (w, 0 if r1 == t else r1, t)), True
    return s, False


def a_apply(c, s, pend, aop):
    """abstract effect of one script op; returns (state, pending pointer)"""
    k = aop[0]
    if k == "write":
        return a_write(c, s, aop[1])[0], None
    if k == "read":
        return a_read(c, s, aop[1])[0], None
    if k == "wfc":
        off = a_wfc(c, s, aop[1])
        return s, ((off, aop[1]) if off is not None else None)
    if k == "wmn":
        if pend is not None and aop[1] <= pend[1]:
            return a_wmn(c, s, pend[0], aop[1]), None
        return s, None
    if k == "wmove":
        return a_wmove(c, s, aop[1])[0], None
    if k == "rmove":
        return a_rmove(c, s, aop[1])[0], None
    if k == "clear":
        return (0, 0, c), None
    if k == "st":
        return s, pend
    return s, None          # fetch, rfc


def bfs_states(c):
    """reachable cursor states with one shortest op path each"""
    start = (0, 0, c)
    paths = {start: []}
    order = [start]
    i = 0
    while i < len(order):
        s = order[i]
        i += 1
        succ = []
        for n in range(0, c + 1):
            s2, ok = a_write(c, s, n)
            if ok:
                succ.append((s2, [("write", n)]))
            s2, ok = a_read(c, s, n)
            if ok:
                succ.append((s2, [("read", n)]))
            s2, ok = a_rmove(c, s, n)
            if ok:
                succ.append((s2, [("rmove", n)]))
            s2, ok = a_wmove(c, s, n)
            if ok:
                succ.append((s2, [("wmove", n)]))
            off = a_wfc(c, s, n)
            if off is not None:
                for k in range(0, n + 1):
                    succ.append((a_wmn(c, s, off, k), [("wfc", n), ("wmn", k)]))
        for s2, ops in succ:
            if s2 not in paths:
                paths[s2] = paths[s] + ops
                order.append(s2)
    return order, paths


def probes(c, s):
    """every operation at every size applicable (or just refused) in state s"""
    out = []
    for n in range(0, c + 1):
        out.append([("write", n)])
        out.append([("read", n)])
        out.append([("fetch", n)])
        out.append([("wmove", n)])
        out.append([("rmove", n)])
        off = a_wfc(c, s, n)
        if off is None:
            out.append([("wfc", n), ("wmn", 0)])
        else:
            for k in range(0, n + 1):
                out.append([("wfc", n), ("wmn", k)])
        if a_cr(c, s) >= n:
            for k in range(0, n + 2):
                out.append([("rfc", n), ("rmove", k)])
        else:
            out.append([("rfc", n)])
    out.append([("clear",)])
    return out


def with_drain(c, aops):
    """append: st, read everything that should be left, st, refill c-1, read it back"""
    s, pend = (0, 0, c), None
    for a in aops:
        s, pend = a_apply(c, s, pend, a)
    rest = a_rd(c, s)
    return list(aops) + [("st",), ("read", rest), ("st",), ("write", c - 1), ("fetch", c - 1), ("read", c - 1)]


def mk_case(name, c, aops):
    """abstract ops -> script lines; written bytes are a running counter (never the filler)"""
    lines = ["init %d" % c]
    ctr = [0]

    def data(n):
        if n <= 0:
            return "-"
        bs = []
        for _ in range(n):
            bs.append("%02x" % (ctr[0] % 199 + 1))
            ctr[0] += 1
        return "".join(bs)
    s, pend, pred = (0, 0, c), None, []
    for a in aops:
        k = a[0]
        s, pend = a_apply(c, s, pend, a)
        if k in ("write", "wmn", "wmove"):
            lines.append("%s %s" % (k, data(a[1])))
        elif k in ("clear", "st"):
            lines.append(k)
            if k == "st":
                pred.append("st %d %d %d %d" % (c, s[0], s[1], s[2]))
        else:
            lines.append("%s %d" % (k, a[1]))
    # pred: the cursor state the generator expects at each 'st' line (tallied, never judged)
    return V.Case(name, lines, {"c": c, "pred": pred})


# --------------------------------------------------------------------------

def corpus_cases(ctx):
    import os
    if os.environ.get("VERIF_C07_NOCORPUS"):      # bring-up aid: show that the generator finds the defects unaided
        return []
    cs = [
        # the two defects of the unrepaired code (DESIGN.md section 5), shortest forms
        mk_case("corpus-rmove-reaches-mark", 5, [("write", 4), ("read", 3), ("write", 2), ("st",), ("rmove", 1), ("st",),
                                                 ("rfc", 1), ("read", 2)]),
        mk_case("corpus-stale-mark-resurrects", 5, [("write", 4), ("read", 3), ("write", 2), ("read", 1), ("st",),
                                                    ("write", 2), ("st",), ("read", 4), ("st",), ("read", 1)]),
        mk_case("corpus-split-write", 8, [("write", 6), ("read", 4), ("write", 4), ("st",), ("fetch", 6), ("read", 6)]),
        mk_case("corpus-wmn-partial-jump", 8, [("write", 6), ("read", 4), ("wfc", 3), ("wmn", 1), ("st",), ("rfc", 2),
                                               ("rmove", 2), ("st",), ("read", 1)]),
        mk_case("corpus-wmn-zero-jump", 8, [("write", 6), ("read", 4), ("wfc", 3), ("wmn", 0), ("st",), ("read", 2), ("st",)]),
        mk_case("corpus-contract-skip", 8, [("wmn", 1), ("wfc", 2), ("read", 0), ("wmn", 1), ("wfc", 2), ("wmn", 3), ("read", 1)]),
        mk_case("corpus-cap1", 1, [("write", 0), ("write", 1), ("read", 0), ("read", 1), ("wfc", 0), ("wmn", 0), ("rfc", 0)]),
    ]
    # recorded replays (minimised failing inputs of the unrepaired code and of mutation runs)
    d = os.path.join(V.VERIF, "corpus", "C07")
    if os.path.isdir(d):
        for f in sorted(os.listdir(d)):
            if f.endswith(".case"):
                c = V.Case.load(os.path.join(d, f))
                c.name = "corpusfile-" + f[:-5]
                cs.append(c)
    return cs


def gen_bfs(tier):
    cases = []
    cmax = 6 if tier == "quick" else 12
    for c in range(2, cmax + 1):
        order, paths = bfs_states(c)
        for si, s in enumerate(order):
            for pi, pr in enumerate(probes(c, s)):
                aops = paths[s] + [("st",)] + pr
                cases.append(mk_case("bfs-c%d-s%d_%d_%d-p%d" % (c, s[0], s[1], s[2], pi), c, with_drain(c, aops)))
    return cases


def gen_stale(tier):
    """jump, reader wrap, writer arriving around the stale mark, reads"""
    cases = []
    cmax = 9 if tier == "quick" else 14
    idx = 0
    for c in range(5, cmax + 1):
        for a in range(3, c):                  # w before the jump = the future mark
            for b in range(2, a):              # r before the jump
                for n in range(c - a + 1, b):  # cw < n <= jw : a pure jump
                    for wrap in ("read", "rmove", "rfc-rmove", "read-over"):
                        pre = [("write", a), ("read", b), ("write", n), ("st",)]
                        if wrap == "read":
                            pre += [("read", a - b)]
                        elif wrap == "rmove":
                            pre += [("rmove", a - b)]
                        elif wrap == "rfc-rmove":
                            pre += [("rfc", a - b), ("rmove", a - b)]
                        else:
                            if n < 2:
                                continue
                            pre += [("read", a - b + 1)]      # wraps over the mark, r = 1
                        pre += [("st",)]
                        for delta in (-1, 0, 1):
                            tgt = a + delta
                            need = tgt - n
                            if need < 0 or tgt >= c:
                                continue
                            for how in ("write", "wmn", "wmove"):
                                if how == "write":
                                    land = [("write", need)]
                                elif how == "wmn":
                                    land = [("wfc", min(need + 1, c)), ("wmn", need)]
                                else:
                                    land = [("wmove", need)]
                                land += [("st",)]
                                r0 = 1 if wrap == "read-over" else 0
                                left = tgt - r0
                                for rd in ("read-all", "read-to-mark", "rmove-to-mark", "chunks"):
                                    if rd == "read-all":
                                        post = [("read", left)]
                                    elif rd == "read-to-mark":
                                        post = [("read", max(0, a - r0)), ("st",), ("read", left)]
                                    elif rd == "rmove-to-mark":
                                        post = [("rfc", max(0, a - r0)), ("rmove", max(0, a - r0)), ("st",), ("rfc", 1)]
                                    else:
                                        post = [("read", 1), ("rmove", 1), ("fetch", 2)]
                                    cases.append(mk_case("stale-%d-c%d-a%d-b%d-n%d-%s-%+d-%s-%s" % (
                                        idx, c, a, b, n, wrap, delta, how, rd), c, with_drain(c, pre + land + post)))
                                    idx += 1
    return cases


def gen_zero_commit(tier):
    """a granted jump committed with 0 (or 1) bytes, reader drained exactly to the mark (the buffer is empty at
    the origin: any mark left behind is stale), a commit from the origin that reaches or passes the old mark,
    reader advances that end on it"""
    cases = []
    cmax = 9 if tier == "quick" else 14
    idx = 0
    for c in range(5, cmax + 1):
        for a in range(3, c):
            for b in range(2, a):
                for n in sorted(set([c - a + 1, b - 1])):
                    if not (c - a < n < b):
                        continue
                    for k in (0, 1):
                        if k > n:
                            continue
                        for drain in ("read", "rmove", "rfc-rmove"):
                            pre = [("write", a), ("read", b), ("wfc", n), ("wmn", k), ("st",)]
                            d = a - b + k
                            if drain == "read":
                                pre += [("read", d)]
                            elif drain == "rmove":
                                pre += [("rmove", d)]
                            else:
                                pre += [("rfc", a - b), ("rmove", a - b)] + ([("read", k)] if k else [])
                            pre += [("st",)]
                            for m in sorted(set([a - 1, a, a + 1, c - 1])):
                                if m < 1 or m > c - 1:
                                    continue
                                for how in ("wmn", "write", "wmove"):
                                    if how == "wmn":
                                        land = [("wfc", m), ("wmn", m)]
                                    elif how == "write":
                                        land = [("write", m)]
                                    else:
                                        land = [("wmove", m)]
                                    land += [("st",)]
                                    for rd in ("to-mark-move", "to-mark-read", "all", "chunks"):
                                        if rd == "to-mark-move":
                                            post = [("rfc", min(a, m)), ("rmove", min(a, m)), ("st",), ("rfc", 1), ("read", 1)]
                                        elif rd == "to-mark-read":
                                            post = [("read", min(a, m)), ("st",), ("read", 1)]
                                        elif rd == "all":
                                            post = [("read", m)]
                                        else:
                                            post = [("read", 1), ("rmove", 1), ("fetch", 2)]
                                        cases.append(mk_case("zc-%d-c%d-a%d-b%d-n%d-k%d-%s-m%d-%s-%s" % (
                                            idx, c, a, b, n, k, drain, m, how, rd), c, with_drain(c, pre + land + post)))
                                        idx += 1
    return cases


def _rand_size(rng, c, s):
    cands = [0, 1, a_cw(c, s), a_cw(c, s) + 1, a_jw(c, s), a_jw(c, s) + 1, a_wr(c, s), a_wr(c, s) + 1,
             a_cr(c, s), a_cr(c, s) + 1, a_cr(c, s) - 1, a_rd(c, s), a_rd(c, s) + 1, a_rd(c, s) - 1,
             a_cw(c, s) - 1, a_jw(c, s) - 1, s[2] - s[0], s[2] - s[0] - 1, s[2] - s[1]]
    if rng.chance(1, 3):
        n = rng.below(c + 2)
    else:
        n = rng.choice(cands)
    return max(0, min(c + 1, n))


def gen_random(rng, count, cmin, cmax, maxlen, tag):
    cases = []
    for i in range(count):
        c = rng.range(cmin, cmax)
        s, pend = (0, 0, c), None
        aops = []
        nops = rng.range(4, maxlen)
        bias = rng.choice([0, 1, 2])          # 0 balanced, 1 writer-heavy, 2 reader-heavy
        while len(aops) < nops:
            kinds = ["write", "write", "read", "read", "fetch", "wfc", "rfc", "wmove", "rmove"]
            if bias == 1:
                kinds += ["write", "wfc", "wmove"]
            elif bias == 2:
                kinds += ["read", "rfc", "rmove"]
            if rng.chance(1, 60):
                kinds = ["clear"]
            if rng.chance(1, 25):
                kinds = ["st"]
            k = rng.choice(kinds)
            if k == "wfc":
                n = _rand_size(rng, c, s)
                seq = [("wfc", n)]
                if rng.chance(9, 10):
                    kk = rng.choice([0, n, n, max(0, n - 1), rng.below(n + 1)])
                    seq.append(("wmn", kk))
            elif k == "rfc":
                n = _rand_size(rng, c, s)
                seq = [("rfc", n)]
                if rng.chance(9, 10):
                    kk = rng.choice([0, n, n, max(0, n - 1), rng.below(n + 1), n + 1])
                    seq.append(("rmove", kk))
            elif k in ("clear", "st"):
                seq = [(k,)]
            else:
                seq = [(k, _rand_size(rng, c, s))]
            for a in seq:
                s, pend = a_apply(c, s, pend, a)
                aops.append(a)
        cases.append(mk_case("%s-%d-c%d" % (tag, i, c), c, with_drain(c, aops)))
    return cases


def generate(rng, tier):
    cases = []
    cases += gen_bfs(tier)
    cases += gen_stale(tier)
    cases += gen_zero_commit(tier)
    if tier == "quick":
        cases += gen_random(rng.fork("small"), 1500, 2, 9, 40, "rnds")
        cases += gen_random(rng.fork("long"), 400, 2, 64, 300, "rndl")
    else:
        cases += gen_random(rng.fork("small"), 20000, 2, 12, 60, "rnds")
        cases += gen_random(rng.fork("long"), 4000, 2, 64, 1200, "rndl")
    return cases


def search(rng, diverging, tier):
    """extra cases when a proof or the correspondence broke: many short histories on small capacities"""
    return gen_random(rng.fork("s1"), 6000, 2, 9, 30, "search") + gen_random(rng.fork("s2"), 600, 2, 40, 200, "searchl")


# --------------------------------------------------------------------------
# independent monitor: a plain bytearray FIFO.  Knows nothing about w, r, t.

def _unhex(h):
    return bytearray() if h == "-" else bytearray.fromhex(h)


def monitor(case, lines):
    if len(lines) != len(case.lines):
        return "implementation printed %d result lines for %d script lines" % (len(lines), len(case.lines))
    c = None
    fifo = bytearray()
    accepted = consumed = 0
    prev = None
    pend = None
    for i, (inp, out) in enumerate(zip(case.lines, lines)):
        w = inp.split()
        if not w:
            continue
        where = "line %d (%s)" % (i, inp if len(inp) < 60 else inp[:57] + "...")
        if w[0] == "init":
            c = int(w[1])
            exp = "init 1 | rd=0 wr=%d cr=0" % (c - 1)
            if out != exp:
                return "%s: got %r, a fresh buffer must report %r" % (where, out, exp)
            fifo, accepted, consumed, prev, pend = bytearray(), 0, 0, (0, c - 1, 0), None
            continue
        if c is None:
            return None if out == "nobuf" else "%s: no buffer but got %r" % (where, out)
        if w[0] == "st":
            if not out.startswith("st "):
                return "%s: got %r" % (where, out)
            continue
        body, sep, tl = out.partition(" | ")
        try:
            kv = dict(x.split("=") for x in tl.split())
            rd, wr, cr = int(kv["rd"]), int(kv["wr"]), int(kv["cr"])
        except Exception:
            return "%s: unparsable result %r" % (where, out)
        b = body.split()
        if not b or b[0] != w[0]:
            return "%s: result %r does not answer the operation" % (where, out)
        p, pend = pend, None
        failed = False
        op = w[0]
        if op == "write":
            data = _unhex(w[1])
            if b[1] == "1":
                fifo += data
                accepted += len(data)
            else:
                failed = True
                if len(data) <= prev[1]:
                    return "%s: write of %d bytes refused although writable() was %d" % (where, len(data), prev[1])
        elif op in ("read", "fetch"):
            n = int(w[1])
            if b[1] == "1":
                got = _unhex(b[2]) if len(b) > 2 else bytearray()
                if n > len(fifo):
                    return "%s: %s of %d bytes succeeded but only %d accepted bytes are unread (got %s)" % (
                        where, op, n, len(fifo), got.hex())
                if got != fifo[:n]:
                    return "%s: %s delivered %s but the accepted stream continues with %s" % (
                        where, op, got.hex() or "-", bytes(fifo[:n]).hex() or "-")
                if op == "read":
                    del fifo[:n]
                    consumed += n
            else:
                failed = True
                if n <= len(fifo):
                    return "%s: %s of %d bytes refused although %d accepted bytes are unread" % (where, op, n, len(fifo))
        elif op == "wfc":
            n = int(w[1])
            if b[1] == "null":
                failed = True
                if 2 * n <= prev[1]:
                    return "%s: writer_fc(%d) found nothing although writable() was %d (one of the two free stretches has >= half)" % (
                        where, n, prev[1])
                if not fifo and n <= c - 1:
                    return "%s: writer_fc(%d) found nothing in an empty buffer of capacity %d" % (where, n, c)
            else:
                off = int(b[1])
                if off < 0 or off + n > c:
                    return "%s: writer_fc(%d) returned offset %d: region leaves the buffer of %d bytes" % (where, n, off, c)
                pend = (off, n)
        elif op == "wmn":
            data = _unhex(w[1])
            if p is None or len(data) > p[1]:
                if b[1] != "skip":
                    return "%s: driver protocol: expected skip" % where
                failed = True
            else:
                if b[1] != "1":
                    return "%s: writer_move_n refused %d bytes inside the region of %d bytes it was given" % (where, len(data), p[1])
                fifo += data
                accepted += len(data)
        elif op == "wmove":
            data = _unhex(w[1])
            if b[1] == "1":
                if b[2] == "null":
                    return "%s: writer_move(%d) succeeded although writer_fc(%d) returned NULL" % (where, len(data), len(data))
                off = int(b[2])
                if off < 0 or off + len(data) > c:
                    return "%s: writer_fc(%d) returned offset %d: region leaves the buffer" % (where, len(data), off)
                fifo += data
                accepted += len(data)
            else:
                failed = True
                if b[2] != "null":
                    return "%s: writer_move(%d) refused although writer_fc(%d) found room" % (where, len(data), len(data))
                if 2 * len(data) <= prev[1]:
                    return "%s: writer_move(%d) refused although writable() was %d" % (where, len(data), prev[1])
        elif op == "rfc":
            n = int(w[1])
            if b[1] == "null":
                failed = True
                if n <= prev[2]:
                    return "%s: reader_fc(%d) found nothing although contiguous_readable() was %d" % (where, n, prev[2])
            else:
                off = int(b[1])
                got = _unhex(b[2]) if len(b) > 2 else bytearray()
                if off < 0 or off + n > c:
                    return "%s: reader_fc(%d) returned offset %d: region leaves the buffer" % (where, n, off)
                if n > len(fifo) or got != fifo[:n]:
                    return "%s: reader_fc(%d) exposes %s but the unread accepted bytes are %s" % (
                        where, n, got.hex() or "-", bytes(fifo[:n]).hex() or "-")
        elif op == "rmove":
            k = int(w[1])
            if b[1] == "1":
                if k > len(fifo):
                    return "%s: reader_move(%d) succeeded but only %d accepted bytes are unread" % (where, k, len(fifo))
                del fifo[:k]
                consumed += k
            else:
                failed = True
                if k <= prev[2]:
                    return "%s: reader_move(%d) refused although contiguous_readable() was %d" % (where, k, prev[2])
        elif op == "clear":
            consumed += len(fifo)
            fifo = bytearray()
        else:
            return "%s: unknown operation" % where
        # observable state after the operation
        if rd != accepted - consumed:
            return "%s: readable() = %d but %d bytes were accepted and %d consumed (unread: %s)" % (
                where, rd, accepted, consumed, bytes(fifo[:16]).hex() or "-")
        if wr < 0 or wr > c - 1 - len(fifo):
            return "%s: writable() = %d with capacity %d and %d unread bytes" % (where, wr, c, len(fifo))
        if cr < 0 or cr > rd:
            return "%s: contiguous_readable() = %d with readable() = %d" % (where, cr, rd)
        if rd > 0 and cr < 1:
            return "%s: %d bytes unread but contiguous_readable() = %d: reader_fc can never make progress" % (where, rd, cr)
        if not fifo and wr != c - 1:
            return "%s: buffer is empty but writable() = %d, capacity %d" % (where, wr, c)
        if failed and (rd, wr, cr) != prev:
            return "%s: the operation failed but rd/wr/cr changed from %s to %s" % (where, prev, (rd, wr, cr))
        prev = (rd, wr, cr)
    return None


def canon(lines):
    return [ln for ln in lines if not ln.startswith("st ")]


def nontrivial_key(case, lines):
    acc = any(ln.startswith("write 1") or ln.startswith("wmn 1") or ln.startswith("wmove 1") for ln in lines)
    dlv = any((ln.startswith("read 1 ") and not ln.startswith("read 1 - ")) for ln in lines)
    if acc and dlv:
        return "\n".join(case.lines)
    return None


_STATES = set()


def tally(dist, case, lines):
    c = None
    pred = list((case.meta or {}).get("pred", []))
    dist.setdefault("st_lines_differing_from_generator_prediction", 0)
    for inp, out in zip(case.lines, lines):
        w = inp.split()
        if not w:
            continue
        if w[0] == "init":
            c = w[1]
            key = "cap<=12" if int(c) <= 12 else "cap>12"
            dist[key] = dist.get(key, 0) + 1
            continue
        if w[0] == "st":
            _STATES.add(out)
            if pred:
                if pred.pop(0) != out:
                    dist["st_lines_differing_from_generator_prediction"] += 1
            continue
        b = out.split(" | ")[0].split()
        verdict = b[1] if len(b) > 1 else ""
        if w[0] in ("wfc", "rfc"):
            verdict = "refused" if verdict == "null" else "ok"      # b[1] is an offset
        elif verdict not in ("0", "1", "skip"):
            verdict = "ok"
        key = "%s:%s" % (w[0], {"0": "refused", "1": "ok"}.get(verdict, verdict))
        dist[key] = dist.get(key, 0) + 1
    dist["distinct_impl_states(c,w,r,t)"] = len(_STATES)


MANIFEST = {
    "level_text": ("Unbounded Coq theorems over an executable model of bytes_buffer.c (fields c,w,r,t and the byte array, all "
                   "thirteen public operations): representation invariant preserved from init under every operation history, "
                   "trace-level refinement of a byte FIFO (every byte delivered by read/fetch/reader_fc is the next accepted "
                   "byte, exactly once, readable() = accepted - consumed after every step, zero-copy fc/move pairs with partial "
                   "advances included), failure iff the kind of space/data needed is lacking and then the state is unchanged, "
                   "every touched index < capacity.  Model tied to the C code by a differential run of the extracted model "
                   "against bytes_buffer.c compiled from the working tree with ASan/UBSan on exact-size heap blocks (explicit "
                   "enumeration of all reachable cursor states for small capacities, random long histories, stale-mark "
                   "sequences), plus an independent bytearray-FIFO monitor."),
    "design_ref": "DESIGN.md section 6 / C07, Appendix A.4, Appendix B",
    "level_note": ("Theorems are for the code with fixes/C07-*.patch applied (two genuine defects found first on the unchanged "
                   "tree).  Trusted: Coq kernel, extraction (ExtrOcamlBasic), the differential harness, ASan; C int overflow "
                   "not modelled; API contract of Appendix B assumed for writer_move_n."),
    "technique": "Coq invariant + trace refinement to a list FIFO (induction over op lists) + extracted-model differential run + ASan",
}
