"""C07 — bytes buffer is a lossless byte FIFO: plugin for bin/check."""
import vcommon as V

ID = "C07"
COQ_DIRS = ["C07"]
MODEL_BASE = "c07_model"
OCAML_DRIVER = "ocaml/c07_driver.ml"
C_DRIVER = "harness/drivers/c07_driver.c"
REPO_SOURCES = ["muggle/c/memory/bytes_buffer.c"]
HEADER_LINES = 1
CASE_TIMEOUT = 5.0
LINK_FLAGS = ["-Wl,--wrap=malloc"]      # "init <c> fail": the malloc inside muggle_bytes_buffer_init returns NULL
SHRINK_BUDGET = 200

RULE = ("(1) explicit-state enumeration: every (w,r,t) state reachable from init for capacities 2..6 (quick) / 2..12 "
        "(thorough), each reached by replaying a shortest BFS-generated operation sequence and then probed with (a) every "
        "operation at every size 0..c (wfc n x wmn k<=n, rfc n x rmove k<=n+1 included), (b) every int-taking operation at "
        "sizes c+2, c+7, 2c+1, 129, 1000, INT_MAX and writer_fc / reader_fc at -1, -2, -c-1, INT_MIN, (c) the zero-copy pairs "
        "with the OTHER side working in between (capacities <= 6 quick / <= 8 thorough): writer_fc n, then every read j / "
        "reader_move j / fetch / rfc+rmove (complete drains and drain-then-more included), then writer_move_n k; and "
        "reader_fc n, then every write j / writer_move / writer_fc+writer_move_n, a re-read of the exposed region, "
        "reader_move k; each followed by a full drain and a capacity re-use round; (2) the enumeration (a) for capacities "
        "2..5 (2..7) again with zero-heavy and with filler/0xFF/high-byte payloads (the (a) probes themselves always carry the "
        "neighbour-distinct counter payload); (3) seeded random long histories for "
        "capacities 2..64 and 129..320 with sizes drawn at the case-split boundaries of the current state (cw, jw, cr, rd, wr "
        "and their +-1), beyond the capacity, and with reader operations between writer_fc and writer_move_n (writer "
        "operations between reader_fc and reader_move); (4) sequences aimed at: truncating jump, reader wrap (by read or "
        "reader_move), writer arriving at t-1 / exactly t / t+1 of the stale mark; a region handed out at w in shape A / B "
        "or by a jump, the reader draining the buffer in 1..3 steps, the commit of 0 / 1 / n-1 / n bytes afterwards; every copy "
        "path with both pieces > 128 bytes; (5) capacity 0, 1, negative capacities, failing malloc.  Payload bytes cover the "
        "whole alphabet (running counter mod 256 from a per-case start: 0x00, the filler 0xEE, 0xFF, high bytes; chunks "
        "that begin and end with 0x00 and contain runs of zeros).  A case is non-trivial when at least one write was accepted "
        "and at least one byte was delivered; distinct = distinct script text")
TRUSTED_BASE = [
    "modelled, not verified: C int overflow (every comparison of the code precedes the addition it guards, so sizes up to INT_MAX do not overflow; capacities are far below 2^31); malloc'ed contents (the driver fills the fresh buffer with 0xEE and the model starts from the same filler); LP64: malloc((size_t)capacity) of a negative int cannot succeed",
    "memory safety on the implementation side is ASan on exact-size heap blocks (buffer, every source and destination; a request beyond the capacity gets a block of capacity bytes, so a wrong success is an ASan report); on the model side the theorem bb_indices_in_range",
]
ASSUMPTIONS = [
    "the byte count given to read / fetch / reader_move is not negative (hypothesis wf_op of the theorems; write / writer_move / writer_move_n get their counts from payload lengths in the operation language).  OBSERVATION OUTSIDE THE PROPERTY (coordinator's decision: a negative count is not an applicable size), unchanged code, capacity 8 after write \"abc\", ints are compared signed so `cr >= num_bytes` / `cw >= num_bytes` holds for every negative count: fetch(-1), read(-1), write(-1): memcpy(.., (size_t)-1) (ASan negative-size-param); writer_move(-5), writer_move_n(p,-5): return true, w = -2, the next write stores at buffer-2; reader_move(-2): returns true, r = -2, readable() 3 -> 5, the next read loads buffer[-2]; writer_fc(-1) / reader_fc(-1): harmless (buffer+w / buffer+r, nothing touched, nothing changed) - these two ARE driven with negative counts and compared with the model.  The drivers do not perform a read / fetch / rmove line with a negative count (\"skip\"), the generator never emits one",
    "capacity >= 0 for the theorems; capacity 0 (successful malloc(0)) is covered (every write refused, nothing ever changes), a negative capacity is a failing allocation (init returns false)",
    "writer_move_n(ptr,k): ptr is the pointer of the last successful writer_fc(n), k <= n, and no writer-side operation (write, writer_move, clear) was called in between (DESIGN.md Appendix B); READER-side operations and fetch in between are allowed and covered (until the buffer is empty and beyond).  Outside that contract the script line is not performed (\"skip\")",
    "deprecated writer_move(n) is exercised in its documented pairing: writer_fc(n), store n bytes, writer_move(n)",
    "write(n, src) with n >= capacity and writer_fc(n) + writer_move(n) with n >= capacity are driven without payload (explicit-count lines writen / wmoven): they can never be accepted; at capacity 0 the 0-byte advance of wmoven 0 succeeds as a no-op",
]
EVIDENCE_NOTES = [
    "model and theorems are for the REPAIRED code (fixes/C07-stale-truncation-mark.patch, fixes/C07-reader-move-wrap.patch, fixes/C07-writer-move-n-after-drain.patch); on the unpatched tree the monitor reports the defects",
    "third defect (found by an independent review, reproduced here): writer_fc(n) hands out buffer+w with w > 0, reader-side operations then consume every unread byte (refresh() resets w = r = 0), writer_move_n(ptr, k >= 1) only added k to w: the k bytes at the origin are delivered a second time and the k bytes stored in the region are lost.  Determined exactly: of 50228 quick cases on the unrepaired tree the monitor failed on 4437, all of them inside the class 'region at offset > 0, buffer emptied by the reader, commit of k >= 1 bytes' (5466 cases; the 1029 silent ones have the same wrong cursors but the stale bytes happen to equal the committed ones); no case outside the class failed; a region handed out by a jump to the origin, a region at offset 0 and a commit of 0 bytes were always handled correctly (theorem bb_orig_commit_wrong_only_after_drain + Example orig_commit_after_drain_loses_bytes).  Repair: writer_move_n puts w and r at the pointer when bytes are committed through a pointer that is neither the origin nor buffer+w.  'never reset to the origin in reader operations' was rejected: the repository's unit test fc_and_move_n_case1 asserts w = r = 0, t = c after a draining reader_move.  The 8 unit tests of test/bytes_buffer pass unchanged with the patch",
    "proved (unbounded, every capacity >= 0, every history of the widened operation language; nothing is left _partial): bb_inv_reachable, bb_refines_fifo (trace-level FIFO refinement incl. readable = accepted - consumed after every operation, zero-copy pairs with partial advances AND with the other side working in between, deprecated writer_move pairing, sizes beyond the capacity, negative counts for writer_fc / reader_fc, capacity 0), bb_step_refines (same from any state satisfying the invariant), bb_readable_exact, bb_readable_exact_every_capacity, bb_fail_iff_lack (every operation kind) and bb_refused_changes_nothing, bb_reader_never_stuck, bb_space_accounting, bb_empty_all_writable, bb_indices_in_range, bb_regions_stay_valid, bb_commit_through_region, bb_reader_keeps_writer_region, bb_writer_keeps_reader_region, bb_orig_commit_wrong_only_after_drain, bb_init_fails_iff_alloc_fails; Examples orig_stale_mark_resurrects / orig_reader_move_stuck / orig_commit_after_drain_loses_bytes show by computation what the three original code paths did",
    "second tie: contiguous_writable / jump_writable / jump_readable / contiguous_readable are translated from the C text on every run by the shared AST translator lib/leaftrans.py (coq/gen/Params_C07.v) and bb_helpers_match_source proves them equal to the model's helpers by a decision tactic that does not depend on the shape of the C text; an edit of a helper that changes its value anywhere, or makes it untranslatable or absent, breaks that obligation; only these four functions are required to exist by name",
    "only covered by the differential run, not by a theorem: agreement of the hand-written model of the operations themselves (write/read/fetch/fc/move bodies, init) with the C text; behaviour of writer_move_n used outside its contract",
    "'st' lines (private fields c w r t) are informational: used for the distinct-state tally, never compared between model and implementation",
    "input distribution keys: big:<path> = operations longer than 128 bytes per copy / advance path as predicted by the generator; neg-fc = writer_fc / reader_fc lines with a negative count; region-survives-reader-op = reader-side operations executed while a writer region was outstanding; commit-after-drain = commits through a region after the reader emptied the buffer",
]

FILL = 0xEE


# --------------------------------------------------------------------------
# second tie (DESIGN.md 4.4): the four space helpers of bytes_buffer.c are re-translated from the
# C text (clang JSON AST, shared translator lib/leaftrans.py) into Gallina on every run, and
# Properties_C07.v / C07/ProofsGen.v prove them equal to the model's helpers.
#
# REQUIRED of the source: functions with a body named muggle_bytes_buffer_<leaf> for the four leaves
# below, taking the buffer pointer only, inside the translator's leaf subset (integer locals, if/else,
# guard clauses, ?:, && || !, + - * ...; no loops, no calls).  Nothing else is required: refresh /
# clear / any new private helper may be inlined, renamed, added or removed freely.  A leaf that is
# missing or untranslatable yields "Definition gen_<leaf> ... := -1" with the reason in a comment, so
# the obligation FAILS (translator error = broken obligation), it never silently passes.
#
# The translated definition takes the fields in order of first use (which a rewrite may change); the
# wrapper gen_<leaf> (c w r t) emitted here has a fixed signature, so the lemma statements do not
# depend on the shape of the C text.

import os

LEAVES = ["contiguous_writable", "jump_writable", "jump_readable", "contiguous_readable"]
_FIELD_ARG = {"f_c": "c", "f_w": "w", "f_r": "r", "f_t": "t"}


def gen_params(ctx):
    import leaftrans as L
    V.gen_config_header()
    flags = ["-std=gnu11", "-I" + V.REPO, "-I" + V.GEN_INC, "-DNDEBUG"]
    src = os.path.join(V.REPO, REPO_SOURCES[0])
    out = ["(* generated by lib/props/c07.py + lib/leaftrans.py from the C text of %s on this run; do not edit *)" % REPO_SOURCES[0],
           "From MV Require Import Lib.Leaf.", "Local Open Scope Z_scope.", ""]
    for name in LEAVES:
        try:
            text, fields, params, written, ret = L.translate(src, "muggle_bytes_buffer_" + name, flags, "raw_" + name)
            if params or written or ret != "Z":
                raise L.LeafError("not a pure int function of the buffer fields (params %s, writes %s, returns %s)" % (
                    params, written, ret))
            bad = [k for k, arr in fields if arr or k not in _FIELD_ARG]
            if bad:
                raise L.LeafError("reads fields other than c, w, r, t: %s" % bad)
            out.append(text)
            out.append("Definition gen_%s (c w r t : Z) : Z := raw_%s%s.\n" % (
                name, name, "".join(" " + _FIELD_ARG[k] for k, _ in fields)))
        except Exception as ex:      # LeafError, clang missing, malformed AST: all are a broken obligation
            msg = ("%s: %s" % (type(ex).__name__, ex)).replace("*)", "* )").replace("(*", "( *")
            out.append("(* translator error for %s: %s *)" % (name, msg[:400]))
            out.append("Definition gen_%s (c w r t : Z) : Z := -1.\n" % name)
    return "\n".join(out)


# --------------------------------------------------------------------------
# abstract cursor machine used ONLY to steer the generator (which sizes are
# interesting in the current state, BFS over cursor states).  It never judges.

def a_cw(c, s):
    w, r, t = s
    return (c - w if r != 0 else c - w - 1) if w >= r else r - w - 1


def a_jw(c, s):
    w, r, t = s
    return (r - 1 if r != 0 else 0) if w >= r else 0


def a_cr(c, s):
    w, r, t = s
    return w - r if w >= r else t - r


def a_jr(c, s):
    w, r, t = s
    return 0 if w >= r else w


def a_rd(c, s):
    return a_cr(c, s) + a_jr(c, s)


def a_wr(c, s):
    return a_cw(c, s) + a_jw(c, s)


def _adv(c, s, n):
    w, r, t = s
    w1 = w + n
    t1 = c if t <= w1 else t
    return (0 if w1 == c else w1, r, t1)


def _refresh(c, s):
    return (0, 0, c) if s[0] == s[1] else s


def a_write(c, s, n):
    w, r, t = s
    if n < 0:
        return s, False
    cw, jw = a_cw(c, s), a_jw(c, s)
    if cw >= n:
        return _adv(c, s, n), True
    if cw + jw < n:
        return s, False
    if jw >= n:
        return (n, r, w), True
    return (n - cw, r, c), True


def a_read(c, s, n):
    w, r, t = s
    if n < 0:
        return s, False
    cr, jr = a_cr(c, s), a_jr(c, s)
    if cr >= n:
        r1 = r + n
        return _refresh(c, (w, 0 if r1 == t else r1, t)), True
    if cr + jr < n:
        return s, False
    return _refresh(c, (w, n - cr, t)), True


def a_wfc(c, s, n):
    if a_cw(c, s) >= n:          # also every negative n (ints are compared signed): the code returns buffer + w
        return s[0]
    if a_jw(c, s) >= n:
        return 0
    return None


def a_wmn(c, s, off, k):
    """writer_move_n as REPAIRED (fixes/C07-writer-move-n-after-drain.patch): a region that no longer starts at w
    because the buffer was emptied and went back to the origin is committed where it is"""
    w, r, t = s
    if k < 0:
        return s
    if off == 0:
        return (k, r, w if w > 0 else t)
    if k > 0 and off != w:
        s = (off, off, t)
    return _adv(c, s, k)


def a_wmove(c, s, n):
    w, r, t = s
    if n < 0:
        return s, False
    if a_cw(c, s) >= n:
        return _adv(c, s, n), True
    if a_jw(c, s) >= n:
        return (n, r, w), True
    return s, False


def a_rmove(c, s, k):
    w, r, t = s
    if k < 0:
        return s, False
    if a_cr(c, s) >= k:
        r1 = r + k
        return _refresh(c, (w, 0 if r1 == t else r1, t)), True
    return s, False


def a_apply(c, s, pend, aop):
    """abstract effect of one script op; returns (state, outstanding writer region).  The region survives
    reader-side operations, fetch and a refused writer_fc; writer-side operations and clear drop it."""
    k = aop[0]
    if k == "write":
        return a_write(c, s, aop[1])[0], None
    if k == "read":
        return a_read(c, s, aop[1])[0], pend
    if k == "wfc":
        off = a_wfc(c, s, aop[1])
        return s, ((off, aop[1]) if off is not None else pend)
    if k == "wmn":
        if pend is not None and aop[1] <= pend[1]:
            return a_wmn(c, s, pend[0], aop[1]), None
        return s, None
    if k == "wmove":
        return a_wmove(c, s, aop[1])[0], None
    if k == "rmove":
        return a_rmove(c, s, aop[1])[0], pend
    if k == "clear":
        return (0, 0, c), None
    if k in ("st", "fetch", "rfc", "rpk"):
        return s, pend
    return s, None          # writen, wmoven: refused or not performed; they drop the region


def bfs_states(c):
    """reachable cursor states with one shortest op path each"""
    start = (0, 0, c)
    paths = {start: []}
    order = [start]
    i = 0
    while i < len(order):
        s = order[i]
        i += 1
        succ = []
        for n in range(0, c + 1):
            s2, ok = a_write(c, s, n)
            if ok:
                succ.append((s2, [("write", n)]))
            s2, ok = a_read(c, s, n)
            if ok:
                succ.append((s2, [("read", n)]))
            s2, ok = a_rmove(c, s, n)
            if ok:
                succ.append((s2, [("rmove", n)]))
            s2, ok = a_wmove(c, s, n)
            if ok:
                succ.append((s2, [("wmove", n)]))
            off = a_wfc(c, s, n)
            if off is not None:
                for k in range(0, n + 1):
                    succ.append((a_wmn(c, s, off, k), [("wfc", n), ("wmn", k)]))
        for s2, ops in succ:
            if s2 not in paths:
                paths[s2] = paths[s] + ops
                order.append(s2)
    return order, paths


INT_MAX = 2147483647
INT_MIN = -2147483648


def odd_sizes(c):
    """sizes beyond 0..c+1: beyond the capacity, beyond 128, INT_MAX"""
    return [c + 2, c + 7, 2 * c + 1, 129, 1000, INT_MAX]


def neg_sizes(c):
    """negative counts: driven only through writer_fc / reader_fc, which are well-behaved for them (a negative count
    is outside the documented usage of the other operations: see ASSUMPTIONS)"""
    return [-1, -2, -c - 1, INT_MIN]


def probes(c, s):
    """every operation at every size applicable (or just refused) in state s"""
    out = []
    for n in range(0, c + 1):
        out.append([("write", n)])
        out.append([("read", n)])
        out.append([("fetch", n)])
        out.append([("wmove", n)])
        out.append([("rmove", n)])
        off = a_wfc(c, s, n)
        if off is None:
            out.append([("wfc", n), ("wmn", 0)])
        else:
            for k in range(0, n + 1):
                out.append([("wfc", n), ("wmn", k)])
        if a_cr(c, s) >= n:
            for k in range(0, n + 2):
                out.append([("rfc", n), ("rmove", k)])
        else:
            out.append([("rfc", n)])
    out.append([("clear",)])
    return out


def odd_probes(c, s):
    """every int-taking operation with sizes beyond the capacity up to INT_MAX; writer_fc / reader_fc with negative counts"""
    out = []
    for n in odd_sizes(c):
        for k in ("read", "fetch", "rfc", "rmove", "writen", "wmoven"):
            out.append([(k, n)])
        out.append([("wfc", n), ("wmn", 0)])
    for n in neg_sizes(c):
        out.append([("wfc", n), ("wmn", 0)])
        out.append([("wfc", 1), ("wfc", n), ("wmn", 1)])
        out.append([("rfc", n), ("rpk",), ("rmove", 0)])
        out.append([("rfc", n), ("write", 1), ("rpk",)])
    out.append([("write", c + 1)])
    out.append([("write", c + 3)])
    out.append([("wmove", c + 2)])
    return out


def region_probes(c, s):
    """the zero-copy pairs with the OTHER side working in between:
    writer_fc n -> reader-side operations (drains included) -> writer_move_n k, and
    reader_fc n -> writer-side operations -> re-read of the exposed region -> reader_move k"""
    out = []
    rd, cr = a_rd(c, s), a_cr(c, s)
    rseqs = [[("read", j)] for j in range(0, rd + 2)] + [[("rmove", j)] for j in range(0, cr + 2)]
    rseqs += [[("fetch", rd)], [("rfc", cr), ("rmove", cr)], [("read", rd), ("read", 0)], [("read", rd), ("rfc", 0), ("rmove", 0)]]
    if rd >= 2:
        rseqs += [[("read", 1), ("read", rd - 1)], [("rmove", 1), ("fetch", 1), ("read", rd - 1)]]
    for n in range(0, c + 1):
        if a_wfc(c, s, n) is None:
            continue
        for R in rseqs:
            for k in sorted(set([0, 1, n - 1, n]) & set(range(0, n + 1))):
                out.append([("wfc", n)] + R + [("wmn", k)])
    wr, cw, jw = a_wr(c, s), a_cw(c, s), a_jw(c, s)
    wseqs = [[("write", j)] for j in range(0, wr + 2)]
    wseqs += [[("wmove", j)] for j in sorted(set([0, 1, cw, jw, cw + 1])) if 0 <= j <= c]
    for j in sorted(set([1, cw, jw])):
        if 0 <= j <= c and a_wfc(c, s, j) is not None:
            wseqs += [[("wfc", j), ("wmn", i)] for i in sorted(set([0, j]))]
    for n in range(0, cr + 1):
        for W in wseqs:
            for k in sorted(set([0, n, n + 1])):
                out.append([("rfc", n)] + W + [("rpk",), ("rmove", k)])
    return out


def with_drain(c, aops):
    """append: st, read everything that should be left, st, refill c-1, read it back"""
    s, pend = (0, 0, c), None
    for a in aops:
        s, pend = a_apply(c, s, pend, a)
    rest = a_rd(c, s)
    tail = [("st",), ("read", rest), ("st",)]
    if c >= 2:
        tail += [("write", c - 1), ("fetch", c - 1), ("read", c - 1)]
    return list(aops) + tail


# ---- payload bytes: the whole alphabet -------------------------------------------------------
# palette 0: a running counter modulo 256 from a per-case start (every value incl. 0x00, the filler
#            0xEE and 0xFF; neighbours always differ, so a copy that is one byte off is visible);
#            the start is chosen so that 0x00 resp. 0xEE fall into the first few bytes in 3 of 5 cases
# palette 1: every chunk begins and ends with 0x00 and has runs of zeros inside
# palette 2: filler / 0xFF / high bytes only
def _palette(name, strong=False):
    """strong: only the neighbour-distinct counter palette (classic enumeration probes: a copy that is one byte off
    must always be visible, exactly as with the former 1..199 counter)"""
    import zlib
    h = zlib.crc32(name.encode())
    sel, x = h % (5 if strong else 8), (h >> 8) & 0xFF
    if sel in (0, 1):
        return 0, (0x100 - x % 8) & 0xFF
    if sel == 2:
        return 0, (0xEE - x % 8) & 0xFF
    if sel in (3, 4):
        return 0, x
    if sel in (5, 6):
        return 1, x
    return 2, x


def _chunk(pal, ctr, n):
    bs = []
    for i in range(n):
        x = ctr + i
        if pal == 0:
            b = x & 0xFF
        elif pal == 1:
            b = 0 if ((n >= 2 and (i == 0 or i == n - 1)) or x % 3 == 0) else (x % 255) + 1
        else:
            b = (0xEE, 0xFF, 0x80 + x % 0x48, 0xC8 + x % 0x37)[x % 4]
        bs.append(b)
    return bs


def mk_case(name, c, aops, pal=None, init_fail=False):
    """abstract ops -> script lines"""
    lines = ["init %d%s" % (c, " fail" if init_fail else "")]
    palette, start = _palette(name) if pal is None else pal
    ctr = [start]

    def data(n):
        if n <= 0:
            return "-"
        bs = _chunk(palette, ctr[0], n)
        ctr[0] += n
        return "".join("%02x" % b for b in bs)
    s, pend, pred = (0, 0, c), None, []
    big = set()
    for a in aops:
        k = a[0]
        if len(a) > 1:
            a = (k, max(INT_MIN, min(INT_MAX, a[1])))          # every size is a C int
        if len(a) > 1 and a[1] > 128:
            big.add(_site(c, s, pend, a))
        s, pend = a_apply(c, s, pend, a)
        if k in ("write", "wmn", "wmove"):
            lines.append("%s %s" % (k, data(a[1])))
        elif k in ("clear", "st", "rpk"):
            lines.append(k)
            if k == "st":
                pred.append("st %d %d %d %d" % (c, s[0], s[1], s[2]))
        else:
            lines.append("%s %d" % (k, a[1]))
    # pred: the cursor state the generator expects at each 'st' line (tallied, never judged)
    if c < 0 or init_fail:
        pred = []               # no buffer: every line answers "nobuf"
    return V.Case(name, lines, {"c": c, "pred": pred, "big": sorted(x for x in big if x)})


def _site(c, s, pend, a):
    """which copy / advance path an operation with a size > 128 takes (generator-side tally only)"""
    k, n = a[0], a[1]
    if k in ("read", "fetch"):
        if n <= a_cr(c, s):
            return k + ":contiguous>128"
        if n <= a_rd(c, s):
            return k + (":split-both>128" if a_cr(c, s) > 128 and n - a_cr(c, s) > 128 else ":split>128")
        return None
    if k == "write":
        cw, jw = a_cw(c, s), a_jw(c, s)
        if n <= cw:
            return "write:contiguous>128"
        if n > cw + jw:
            return None
        if n <= jw:
            return "write:jump>128"
        return "write:split-both>128" if cw > 128 and n - cw > 128 else "write:split>128"
    if k == "wmn":
        return "wmn>128" if pend is not None and n <= pend[1] else None
    if k == "wmove":
        return "wmove>128" if a_wfc(c, s, n) is not None else None
    if k == "rfc":
        return "rfc>128" if n <= a_cr(c, s) else None
    if k == "rmove":
        return "rmove>128" if n <= a_cr(c, s) else None
    return None


# --------------------------------------------------------------------------

def corpus_cases(ctx):
    import os
    if os.environ.get("VERIF_C07_NOCORPUS"):      # bring-up aid: show that the generator finds the defects unaided
        return []
    P0 = (0, 1)
    cs = [
        # the two defects of the unrepaired code (DESIGN.md section 5), shortest forms
        mk_case("corpus-rmove-reaches-mark", 5, [("write", 4), ("read", 3), ("write", 2), ("st",), ("rmove", 1), ("st",),
                                                 ("rfc", 1), ("read", 2)], P0),
        mk_case("corpus-stale-mark-resurrects", 5, [("write", 4), ("read", 3), ("write", 2), ("read", 1), ("st",),
                                                    ("write", 2), ("st",), ("read", 4), ("st",), ("read", 1)], P0),
        mk_case("corpus-split-write", 8, [("write", 6), ("read", 4), ("write", 4), ("st",), ("fetch", 6), ("read", 6)], P0),
        mk_case("corpus-wmn-partial-jump", 8, [("write", 6), ("read", 4), ("wfc", 3), ("wmn", 1), ("st",), ("rfc", 2),
                                               ("rmove", 2), ("st",), ("read", 1)], P0),
        mk_case("corpus-wmn-zero-jump", 8, [("write", 6), ("read", 4), ("wfc", 3), ("wmn", 0), ("st",), ("read", 2), ("st",)], P0),
        mk_case("corpus-contract-skip", 8, [("wmn", 1), ("wfc", 2), ("read", 0), ("wmn", 1), ("wfc", 2), ("wmn", 3), ("read", 1)], P0),
        mk_case("corpus-cap1", 1, [("write", 0), ("write", 1), ("read", 0), ("read", 1), ("wfc", 0), ("wmn", 0), ("rfc", 0)], P0),
        # the third defect: a region granted at w > 0, the reader drains the buffer (refresh() goes back to the origin),
        # the commit then exposed [0,k) instead of the region (the reviewer's history, capacity 8)
        mk_case("corpus-wfc-drain-wmn", 8, [("write", 3), ("wfc", 2), ("st",), ("read", 3), ("st",), ("wmn", 2), ("st",),
                                            ("fetch", 2), ("read", 2)], P0),
        mk_case("corpus-wfc-rmove-drain-wmn-wrap", 8, [("write", 5), ("read", 1), ("wfc", 3), ("rfc", 4), ("rmove", 4), ("st",),
                                                       ("wmn", 3), ("st",), ("rfc", 3), ("read", 3)], P0),
        mk_case("corpus-wfc-drain-wmn0", 8, [("write", 3), ("wfc", 2), ("read", 3), ("wmn", 0), ("st",), ("wfc", 7), ("wmn", 7), ("read", 7)], P0),
        mk_case("corpus-rfc-writes-rpk", 8, [("write", 6), ("read", 4), ("rfc", 2), ("write", 3), ("rpk",), ("wfc", 1), ("wmn", 1),
                                             ("rpk",), ("rmove", 2), ("rpk",), ("read", 4)], P0),
        mk_case("corpus-negative-fc", 8, [("write", 3), ("rfc", -1), ("rpk",), ("wfc", -1), ("wmn", 0), ("wfc", 2), ("wfc", INT_MIN),
                                          ("wmn", 1), ("rfc", INT_MIN), ("st",), ("read", 4)], P0),
        mk_case("corpus-cap0", 0, [("write", 0), ("write", 1), ("read", 0), ("read", 1), ("fetch", 0), ("wfc", 0), ("wmn", 0),
                                   ("wmove", 0), ("rfc", 0), ("rpk",), ("rmove", 0), ("rmove", 1), ("clear",), ("writen", 0)], P0),
    ]
    # recorded replays (minimised failing inputs of the unrepaired code and of mutation runs)
    d = os.path.join(V.VERIF, "corpus", "C07")
    if os.path.isdir(d):
        for f in sorted(os.listdir(d)):
            if f.endswith(".case"):
                c = V.Case.load(os.path.join(d, f))
                c.name = "corpusfile-" + f[:-5]
                cs.append(c)
    return cs


def gen_bfs(tier):
    cases = []
    cmax = 6 if tier == "quick" else 12
    rmax = 6 if tier == "quick" else 8          # the interleaved-pair probes grow with c^3
    for c in range(2, cmax + 1):
        order, paths = bfs_states(c)
        for si, s in enumerate(order):
            fams = [("bfs", probes(c, s)), ("odd", odd_probes(c, s))]
            if c <= rmax:
                fams.append(("reg", region_probes(c, s)))
            for fam, prs in fams:
                for pi, pr in enumerate(prs):
                    aops = paths[s] + [("st",)] + pr
                    nm = "%s-c%d-s%d_%d_%d-p%d" % (fam, c, s[0], s[1], s[2], pi)
                    cases.append(mk_case(nm, c, with_drain(c, aops), pal=_palette(nm, strong=True) if fam == "bfs" else None))
    return cases


def gen_alpha(tier):
    """the enumeration for the smallest capacities once more with the zero-heavy and the filler/high palettes"""
    cases = []
    cmax = 5 if tier == "quick" else 7
    for c in range(2, cmax + 1):
        order, paths = bfs_states(c)
        for s in order:
            for pi, pr in enumerate(probes(c, s)):
                aops = paths[s] + [("st",)] + pr
                for pal in (1, 2):
                    cases.append(mk_case("alpha%d-c%d-s%d_%d_%d-p%d" % (pal, c, s[0], s[1], s[2], pi), c,
                                         with_drain(c, aops), pal=(pal, pi)))
    return cases


def gen_caps(tier):
    """capacity 0, negative capacities (malloc of a size_t beyond 2^63 fails), init failure, capacity 1"""
    cases = []
    ops = [("write", 0), ("write", 1), ("read", 0), ("read", 1), ("fetch", 0), ("fetch", 1), ("wfc", 0), ("wmn", 0), ("wfc", 1),
           ("wmn", 0), ("wmove", 0), ("wmove", 1), ("rfc", 0), ("rpk",), ("rmove", 0), ("rfc", 1), ("rmove", 1), ("clear",),
           ("st",), ("writen", 0), ("writen", 1), ("wmoven", 1), ("rfc", -1), ("rpk",),
           ("wfc", -1), ("wmn", 0), ("wfc", 0), ("read", INT_MAX), ("writen", INT_MAX), ("st",)]
    for c in (0, 1, -1, -7, INT_MIN):
        cases.append(mk_case("caps-c%d" % c, c, ops))
        for i in range(len(ops)):
            cases.append(mk_case("caps-c%d-rot%d" % (c, i), c, ops[i:] + ops[:i]))
    for c in (1, 2, 8, 64, 300):
        cases.append(mk_case("caps-initfail-c%d" % c, c, ops, init_fail=True))
    return cases


def gen_stale(tier):
    """jump, reader wrap, writer arriving around the stale mark, reads"""
    cases = []
    cmax = 9 if tier == "quick" else 14
    idx = 0
    for c in range(5, cmax + 1):
        for a in range(3, c):                  # w before the jump = the future mark
            for b in range(2, a):              # r before the jump
                for n in range(c - a + 1, b):  # cw < n <= jw : a pure jump
                    for wrap in ("read", "rmove", "rfc-rmove", "read-over"):
                        pre = [("write", a), ("read", b), ("write", n), ("st",)]
                        if wrap == "read":
                            pre += [("read", a - b)]
                        elif wrap == "rmove":
                            pre += [("rmove", a - b)]
                        elif wrap == "rfc-rmove":
                            pre += [("rfc", a - b), ("rmove", a - b)]
                        else:
                            if n < 2:
                                continue
                            pre += [("read", a - b + 1)]      # wraps over the mark, r = 1
                        pre += [("st",)]
                        for delta in (-1, 0, 1):
                            tgt = a + delta
                            need = tgt - n
                            if need < 0 or tgt >= c:
                                continue
                            for how in ("write", "wmn", "wmove"):
                                if how == "write":
                                    land = [("write", need)]
                                elif how == "wmn":
                                    land = [("wfc", min(need + 1, c)), ("wmn", need)]
                                else:
                                    land = [("wmove", need)]
                                land += [("st",)]
                                r0 = 1 if wrap == "read-over" else 0
                                left = tgt - r0
                                for rd in ("read-all", "read-to-mark", "rmove-to-mark", "chunks"):
                                    if rd == "read-all":
                                        post = [("read", left)]
                                    elif rd == "read-to-mark":
                                        post = [("read", max(0, a - r0)), ("st",), ("read", left)]
                                    elif rd == "rmove-to-mark":
                                        post = [("rfc", max(0, a - r0)), ("rmove", max(0, a - r0)), ("st",), ("rfc", 1)]
                                    else:
                                        post = [("read", 1), ("rmove", 1), ("fetch", 2)]
                                    cases.append(mk_case("stale-%d-c%d-a%d-b%d-n%d-%s-%+d-%s-%s" % (
                                        idx, c, a, b, n, wrap, delta, how, rd), c, with_drain(c, pre + land + post)))
                                    idx += 1
    return cases


def gen_zero_commit(tier):
    """a granted jump committed with 0 (or 1) bytes, reader drained exactly to the mark (the buffer is empty at
    the origin: any mark left behind is stale), a commit from the origin that reaches or passes the old mark,
    reader advances that end on it"""
    cases = []
    cmax = 9 if tier == "quick" else 14
    idx = 0
    for c in range(5, cmax + 1):
        for a in range(3, c):
            for b in range(2, a):
                for n in sorted(set([c - a + 1, b - 1])):
                    if not (c - a < n < b):
                        continue
                    for k in (0, 1):
                        if k > n:
                            continue
                        for drain in ("read", "rmove", "rfc-rmove"):
                            pre = [("write", a), ("read", b), ("wfc", n), ("wmn", k), ("st",)]
                            d = a - b + k
                            if drain == "read":
                                pre += [("read", d)]
                            elif drain == "rmove":
                                pre += [("rmove", d)]
                            else:
                                pre += [("rfc", a - b), ("rmove", a - b)] + ([("read", k)] if k else [])
                            pre += [("st",)]
                            for m in sorted(set([a - 1, a, a + 1, c - 1])):
                                if m < 1 or m > c - 1:
                                    continue
                                for how in ("wmn", "write", "wmove"):
                                    if how == "wmn":
                                        land = [("wfc", m), ("wmn", m)]
                                    elif how == "write":
                                        land = [("write", m)]
                                    else:
                                        land = [("wmove", m)]
                                    land += [("st",)]
                                    for rd in ("to-mark-move", "to-mark-read", "all", "chunks"):
                                        if rd == "to-mark-move":
                                            post = [("rfc", min(a, m)), ("rmove", min(a, m)), ("st",), ("rfc", 1), ("read", 1)]
                                        elif rd == "to-mark-read":
                                            post = [("read", min(a, m)), ("st",), ("read", 1)]
                                        elif rd == "all":
                                            post = [("read", m)]
                                        else:
                                            post = [("read", 1), ("rmove", 1), ("fetch", 2)]
                                        cases.append(mk_case("zc-%d-c%d-a%d-b%d-n%d-k%d-%s-m%d-%s-%s" % (
                                            idx, c, a, b, n, k, drain, m, how, rd), c, with_drain(c, pre + land + post)))
                                        idx += 1
    return cases


def gen_region(tier):
    """directed histories for the outstanding writer region: a region granted (a) at w > 0 in shape A with r = 0 or
    r > 0, (b) at w in shape B, (c) by a jump to the origin; then the reader drains the buffer completely (or stops
    one byte short) by read / rmove / rfc+rmove / two steps, optionally does something more on the empty buffer, and
    only then the region is committed with 0, 1, n-1 or n bytes; everything is read back afterwards"""
    cases = []
    cmax = 10 if tier == "quick" else 16
    idx = 0
    for c in range(3, cmax + 1):
        setups = []
        for a in range(1, c):
            setups.append(("A0", [("write", a)]))
            for b in range(1, a):
                setups.append(("A", [("write", a), ("read", b)]))
        for a in range(3, c):
            for b in range(2, a):
                for n0 in sorted(set([c - a + 1, b - 1])):
                    if c - a < n0 < b:
                        setups.append(("B", [("write", a), ("read", b), ("write", n0)]))
        for kind, pre in setups:
            s, pend = (0, 0, c), None
            for a_ in pre:
                s, pend = a_apply(c, s, pend, a_)
            cw, jw, rd, cr = a_cw(c, s), a_jw(c, s), a_rd(c, s), a_cr(c, s)
            grants = sorted(set([1, cw, cw + 1, jw]))
            for n in grants:
                if n < 1 or a_wfc(c, s, n) is None:
                    continue
                drains = [[("read", rd)], [("rmove", cr)] + ([("read", rd - cr)] if rd > cr else []),
                          [("rfc", cr), ("rmove", cr)] + ([("rfc", rd - cr), ("rmove", rd - cr)] if rd > cr else []),
                          [("read", rd - 1)]]
                if rd >= 2:
                    drains.append([("read", 1), ("rmove", min(cr, rd) - 1 if cr > 1 else 0), ("read", rd - 1 - (min(cr, rd) - 1 if cr > 1 else 0))])
                for di, dr in enumerate(drains):
                    for extra in ([], [("fetch", 1), ("read", 0), ("rmove", 0), ("rfc", 0)], [("wfc", c)]):
                        if extra and di not in (0, 1):
                            continue
                        for k in sorted(set([0, 1, n - 1, n]) & set(range(0, n + 1))):
                            aops = pre + [("st",), ("wfc", n)] + dr + [("st",)] + extra + [("wmn", k), ("st",), ("fetch", k), ("rfc", 1)]
                            cases.append(mk_case("region-%d-c%d-%s-n%d-d%d-k%d" % (idx, c, kind, n, di, k), c, with_drain(c, aops)))
                            idx += 1
    return cases


def gen_bigpaths(tier):
    """every copy path with BOTH of its pieces longer than 128 bytes (a size-dependent fast path must be entered)"""
    cases = []
    for c in (300, 317):
        for d in (0, 1, 5):
            w0, r0 = 140 + d, 135 + d                    # cw = c - w0 > 128, jw = r0 - 1 > 128
            cw = c - w0
            rem = 130 + d % 2
            split = [("write", w0), ("read", r0), ("st",), ("write", cw + rem), ("st",)]      # split write, both pieces > 128
            rd = (w0 - r0) + cw + rem
            for how in ("fetch-read", "rfc-read", "read-parts"):
                if how == "fetch-read":
                    post = [("fetch", rd), ("read", rd)]                                   # split fetch / read, both pieces > 128
                elif how == "rfc-read":
                    post = [("rfc", c - r0), ("rmove", c - r0), ("st",), ("rfc", rem), ("rpk",), ("rmove", rem)]
                else:
                    post = [("read", 129), ("fetch", rd - 129), ("read", rd - 129)]
                cases.append(mk_case("bigpaths-c%d-d%d-split-%s" % (c, d, how), c, with_drain(c, split + post)))
            w1, r1 = 160 + d, 150 + d                    # cw = c - w1 in 129..140, jw = 149 + d
            jump = [("write", w1), ("read", r1), ("st",)]
            for how in ("write", "wmn", "wmove"):
                n = c - w1 + 1 + d
                if how == "write":
                    mid = [("write", n)]
                elif how == "wmn":
                    mid = [("wfc", n), ("read", w1 - r1 - 1), ("wmn", n - 1)]
                else:
                    mid = [("wmove", n)]
                cases.append(mk_case("bigpaths-c%d-d%d-jump-%s" % (c, d, how), c,
                                     with_drain(c, jump + mid + [("st",), ("fetch", 140), ("read", 131)])))
            # a region of > 128 bytes granted at w, the reader drains, the commit comes afterwards
            cases.append(mk_case("bigpaths-c%d-d%d-region" % (c, d), c,
                                 with_drain(c, [("write", 131 + d), ("wfc", 150), ("read", 131 + d), ("st",), ("wmn", 149), ("st",),
                                                ("rfc", 149), ("read", 149)])))
    return cases


def _rand_size(rng, c, s, odd=True):
    cands = [0, 1, a_cw(c, s), a_cw(c, s) + 1, a_jw(c, s), a_jw(c, s) + 1, a_wr(c, s), a_wr(c, s) + 1,
             a_cr(c, s), a_cr(c, s) + 1, a_cr(c, s) - 1, a_rd(c, s), a_rd(c, s) + 1, a_rd(c, s) - 1,
             a_cw(c, s) - 1, a_jw(c, s) - 1, s[2] - s[0], s[2] - s[0] - 1, s[2] - s[1]]
    if odd and rng.chance(1, 14):
        return rng.choice(odd_sizes(c) + [c + 2 + rng.below(c + 2)])
    if rng.chance(1, 3):
        return rng.below(c + 2)
    return max(0, rng.choice(cands))


def _sized(kind, n, c):
    """a size the script cannot carry as payload bytes goes through the explicit-count calls"""
    if kind == "write" and n > 2 * c + 8:
        return ("writen", n)
    if kind == "wmove" and n > 2 * c + 8:
        return ("wmoven", n)
    return (kind, n)


def gen_random(rng, count, cmin, cmax, maxlen, tag):
    cases = []
    for i in range(count):
        c = rng.range(cmin, cmax)
        st = {"s": (0, 0, c), "pend": None}
        aops = []

        def push(a):
            st["s"], st["pend"] = a_apply(c, st["s"], st["pend"], a)
            aops.append(a)
        nops = rng.range(4, maxlen)
        bias = rng.choice([0, 1, 2])          # 0 balanced, 1 writer-heavy, 2 reader-heavy
        while len(aops) < nops:
            kinds = ["write", "write", "read", "read", "fetch", "wfc", "rfc", "wmove", "rmove"]
            if bias == 1:
                kinds += ["write", "wfc", "wmove"]
            elif bias == 2:
                kinds += ["read", "rfc", "rmove"]
            if rng.chance(1, 60):
                kinds = ["clear"]
            if rng.chance(1, 25):
                kinds = ["st"]
            k = rng.choice(kinds)
            if k == "wfc":
                n = _rand_size(rng, c, st["s"])
                if rng.chance(1, 40):
                    n = rng.choice(neg_sizes(c))
                push(("wfc", n))
                # the other side may work before the region is committed (often until the buffer is empty)
                for _ in range(rng.choice([0, 0, 0, 1, 1, 2, 3])):
                    rk = rng.choice(["read", "read", "rmove", "fetch", "rfc", "drain", "drain"])
                    if rk == "drain":
                        push(("read", a_rd(c, st["s"])))
                    else:
                        push((rk, _rand_size(rng, c, st["s"])))
                if rng.chance(9, 10):
                    push(("wmn", rng.choice([0, n, n, max(0, n - 1), rng.below(n + 1)]) if 0 <= n <= 2 * c + 8 else 0))
            elif k == "rfc":
                n = _rand_size(rng, c, st["s"])
                if rng.chance(1, 40):
                    n = rng.choice(neg_sizes(c))
                push(("rfc", n))
                for _ in range(rng.choice([0, 0, 0, 1, 1, 2, 3])):
                    wk = rng.choice(["write", "write", "wmove", "wfc-wmn", "fill"])
                    if wk == "fill":
                        push(("write", max(0, a_wr(c, st["s"]))))
                    elif wk == "wfc-wmn":
                        m = _rand_size(rng, c, st["s"], odd=False)
                        push(("wfc", m))
                        push(("wmn", rng.choice([0, max(0, m)])))
                    else:
                        push(_sized(wk, _rand_size(rng, c, st["s"]), c))
                    if rng.chance(1, 2):
                        push(("rpk",))
                if rng.chance(9, 10):
                    push(("rmove", max(0, rng.choice([0, n, n, max(0, n - 1), rng.below(max(1, n + 1)), n + 1]))))
            elif k in ("clear", "st"):
                push((k,))
            else:
                push(_sized(k, _rand_size(rng, c, st["s"]), c))
        cases.append(mk_case("%s-%d-c%d" % (tag, i, c), c, with_drain(c, aops)))
    return cases


def generate(rng, tier):
    cases = []
    cases += gen_caps(tier)
    cases += gen_bfs(tier)
    cases += gen_alpha(tier)
    cases += gen_stale(tier)
    cases += gen_zero_commit(tier)
    cases += gen_region(tier)
    cases += gen_bigpaths(tier)
    if tier == "quick":
        cases += gen_random(rng.fork("small"), 2500, 2, 9, 40, "rnds")
        cases += gen_random(rng.fork("long"), 400, 2, 64, 300, "rndl")
        cases += gen_random(rng.fork("big"), 300, 129, 320, 120, "rndb")     # sizes beyond 128 on every copy path
    else:
        cases += gen_random(rng.fork("small"), 30000, 2, 12, 60, "rnds")
        cases += gen_random(rng.fork("long"), 4000, 2, 64, 1200, "rndl")
        cases += gen_random(rng.fork("big"), 3000, 129, 320, 400, "rndb")
    return cases


def search(rng, diverging, tier):
    """extra cases when a proof or the correspondence broke: many short histories on small capacities"""
    return (gen_random(rng.fork("s1"), 6000, 2, 9, 30, "search") + gen_random(rng.fork("s2"), 600, 2, 40, 200, "searchl") +
            gen_random(rng.fork("s3"), 200, 129, 300, 80, "searchb"))


# --------------------------------------------------------------------------
# independent monitor: a plain bytearray FIFO.  Knows nothing about w, r, t.

def _unhex(h):
    return bytearray() if h == "-" else bytearray.fromhex(h)


def monitor(case, lines):
    """A byte FIFO that knows nothing about cursors.  Sizes may be any int >= 0 (a negative count is outside the
    documented usage of read / fetch / reader_move: such a line is not performed by the drivers); writer_fc /
    reader_fc asked for a negative number of bytes may refuse or hand out an empty region, nothing may change."""
    if len(lines) != len(case.lines):
        return "implementation printed %d result lines for %d script lines" % (len(lines), len(case.lines))
    c = None
    fifo = bytearray()
    accepted = consumed = 0
    prev = None
    pend = None          # outstanding writer region (offset, n)
    rpend = None         # outstanding reader region (offset, n)
    for i, (inp, out) in enumerate(zip(case.lines, lines)):
        w = inp.split()
        if not w:
            continue
        where = "line %d (%s)" % (i, inp if len(inp) < 60 else inp[:57] + "...")
        if w[0] == "init":
            cc = int(w[1])
            must_fail = cc < 0 or "fail" in w[2:]
            if must_fail:
                if out != "init 0":
                    return "%s: got %r, but the allocation cannot have succeeded" % (where, out)
                c = None
                continue
            c = cc
            exp = "init 1 | rd=0 wr=%d cr=0" % (c - 1)
            if out != exp:
                return "%s: got %r, a fresh buffer must report %r" % (where, out, exp)
            fifo, accepted, consumed, prev, pend, rpend = bytearray(), 0, 0, (0, c - 1, 0), None, None
            continue
        if c is None:
            if out == "nobuf":
                continue
            return "%s: no buffer but got %r" % (where, out)
        if w[0] == "st":
            if not out.startswith("st "):
                return "%s: got %r" % (where, out)
            continue
        body, sep, tl = out.partition(" | ")
        try:
            kv = dict(x.split("=") for x in tl.split())
            rd, wr, cr = int(kv["rd"]), int(kv["wr"]), int(kv["cr"])
        except Exception:
            return "%s: unparsable result %r" % (where, out)
        b = body.split()
        if not b or b[0] != w[0]:
            return "%s: result %r does not answer the operation" % (where, out)
        failed = False
        noop = False         # a call with a negative size that reported success: nothing may have changed
        op = w[0]
        if op == "write":
            data = _unhex(w[1])
            pend = None
            if b[1] == "1":
                fifo += data
                accepted += len(data)
            else:
                failed = True
                if len(data) <= prev[1]:
                    return "%s: write of %d bytes refused although writable() was %d" % (where, len(data), prev[1])
        elif op == "writen":
            n = int(w[1])
            pend = None
            if n < c:
                if b[1] != "skip":
                    return "%s: driver protocol: expected skip" % where
                failed = True
            elif b[1] == "1":
                return "%s: write of %d bytes accepted by a buffer of capacity %d" % (where, n, c)
            else:
                failed = True
        elif op in ("read", "fetch"):
            n = int(w[1])
            if op == "read":
                rpend = None
            if n < 0:
                if b[1] != "skip":
                    return "%s: driver protocol: expected skip" % where
                failed = True
            elif b[1] == "1":
                got = _unhex(b[2]) if len(b) > 2 else bytearray()
                if n > len(fifo):
                    return "%s: %s of %d bytes succeeded but only %d accepted bytes are unread (got %s)" % (
                        where, op, n, len(fifo), got.hex()[:64])
                if got != fifo[:n]:
                    return "%s: %s delivered %s but the accepted stream continues with %s" % (
                        where, op, got.hex() or "-", bytes(fifo[:n]).hex() or "-")
                if op == "read":
                    del fifo[:n]
                    consumed += n
            else:
                failed = True
                if n <= len(fifo):
                    return "%s: %s of %d bytes refused although %d accepted bytes are unread" % (where, op, n, len(fifo))
        elif op == "wfc":
            n = int(w[1])
            if b[1] == "null":
                failed = True            # the outstanding region, if any, stays outstanding
                if 0 <= 2 * n <= prev[1]:
                    return "%s: writer_fc(%d) found nothing although writable() was %d (one of the two free stretches has >= half)" % (
                        where, n, prev[1])
                if not fifo and 0 <= n <= c - 1:
                    return "%s: writer_fc(%d) found nothing in an empty buffer of capacity %d" % (where, n, c)
            else:
                off = int(b[1])
                if off < 0 or off + max(n, 0) > c:
                    return "%s: writer_fc(%d) returned offset %d: region leaves the buffer of %d bytes" % (where, n, off, c)
                if n > max(0, c - 1 - len(fifo)):
                    return "%s: writer_fc(%d) granted a region although only %d bytes are free" % (where, n, c - 1 - len(fifo))
                pend = (off, n)
        elif op == "wmn":
            data = _unhex(w[1])
            p, pend = pend, None
            if p is None or len(data) > p[1]:
                if b[1] != "skip":
                    return "%s: driver protocol: expected skip" % where
                failed = True
            else:
                if b[1] != "1":
                    return "%s: writer_move_n refused %d bytes inside the region of %d bytes it was given" % (where, len(data), p[1])
                fifo += data
                accepted += len(data)
        elif op == "wmove":
            data = _unhex(w[1])
            pend = None
            if b[1] == "1":
                if b[2] == "null":
                    return "%s: writer_move(%d) succeeded although writer_fc(%d) returned NULL" % (where, len(data), len(data))
                off = int(b[2])
                if off < 0 or off + len(data) > c:
                    return "%s: writer_fc(%d) returned offset %d: region leaves the buffer" % (where, len(data), off)
                fifo += data
                accepted += len(data)
            else:
                failed = True
                if b[2] != "null":
                    return "%s: writer_move(%d) refused although writer_fc(%d) found room" % (where, len(data), len(data))
                if 2 * len(data) <= prev[1]:
                    return "%s: writer_move(%d) refused although writable() was %d" % (where, len(data), prev[1])
        elif op == "wmoven":
            n = int(w[1])
            pend = None
            if n < c:
                if b[1] != "skip":
                    return "%s: driver protocol: expected skip" % where
                failed = True
            elif b[1] == "1":
                if n != 0:
                    return "%s: writer_move(%d) succeeded in a buffer of capacity %d" % (where, n, c)
                noop = True              # capacity 0: a 0-byte advance
            else:
                failed = True
                if b[2] != "null":
                    return "%s: writer_fc(%d) found room in a buffer of capacity %d" % (where, n, c)
        elif op == "rfc":
            n = int(w[1])
            if b[1] == "null":
                failed = True
                if 0 <= n <= prev[2]:
                    return "%s: reader_fc(%d) found nothing although contiguous_readable() was %d" % (where, n, prev[2])
            else:
                off = int(b[1])
                got = _unhex(b[2]) if len(b) > 2 else bytearray()
                if n < 0:
                    noop = True
                else:
                    if off < 0 or off + n > c:
                        return "%s: reader_fc(%d) returned offset %d: region leaves the buffer" % (where, n, off)
                    if n > len(fifo) or got != fifo[:n]:
                        return "%s: reader_fc(%d) exposes %s but the unread accepted bytes are %s" % (
                            where, n, got.hex() or "-", bytes(fifo[:n]).hex() or "-")
                rpend = (off, n)
        elif op == "rpk":
            if rpend is None:
                if b[1] != "skip":
                    return "%s: driver protocol: expected skip" % where
                failed = True
            else:
                n = max(0, rpend[1])
                got = _unhex(b[2]) if len(b) > 2 else bytearray()
                if n > len(fifo) or got != fifo[:n]:
                    return "%s: the region reader_fc(%d) exposed now holds %s but the unread accepted bytes are %s" % (
                        where, rpend[1], got.hex() or "-", bytes(fifo[:n]).hex() or "-")
                noop = True
        elif op == "rmove":
            k = int(w[1])
            rpend = None
            if k < 0:
                if b[1] != "skip":
                    return "%s: driver protocol: expected skip" % where
                failed = True
            elif b[1] == "1":
                if k > len(fifo):
                    return "%s: reader_move(%d) succeeded but only %d accepted bytes are unread" % (where, k, len(fifo))
                del fifo[:k]
                consumed += k
            else:
                failed = True
                if k <= prev[2]:
                    return "%s: reader_move(%d) refused although contiguous_readable() was %d" % (where, k, prev[2])
        elif op == "clear":
            consumed += len(fifo)
            fifo = bytearray()
            pend = rpend = None
        else:
            return "%s: unknown operation" % where
        # observable state after the operation
        if rd != accepted - consumed:
            return "%s: readable() = %d but %d bytes were accepted and %d consumed (unread: %s)" % (
                where, rd, accepted, consumed, bytes(fifo[:16]).hex() or "-")
        if wr < min(0, c - 1) or wr > c - 1 - len(fifo):
            return "%s: writable() = %d with capacity %d and %d unread bytes" % (where, wr, c, len(fifo))
        if cr < 0 or cr > rd:
            return "%s: contiguous_readable() = %d with readable() = %d" % (where, cr, rd)
        if rd > 0 and cr < 1:
            return "%s: %d bytes unread but contiguous_readable() = %d: reader_fc can never make progress" % (where, rd, cr)
        if not fifo and wr != c - 1:
            return "%s: buffer is empty but writable() = %d, capacity %d" % (where, wr, c)
        if failed and (rd, wr, cr) != prev:
            return "%s: the operation failed but rd/wr/cr changed from %s to %s" % (where, prev, (rd, wr, cr))
        if noop and (rd, wr, cr) != prev:
            return "%s: an empty-region grant / a re-read changed rd/wr/cr from %s to %s" % (where, prev, (rd, wr, cr))
        prev = (rd, wr, cr)
    return None


def canon(lines):
    return [ln for ln in lines if not ln.startswith("st ")]


def nontrivial_key(case, lines):
    acc = any(ln.startswith("write 1") or ln.startswith("wmn 1") or ln.startswith("wmove 1") for ln in lines)
    dlv = any((ln.startswith("read 1 ") and not ln.startswith("read 1 - ")) for ln in lines)
    if acc and dlv:
        return "\n".join(case.lines)
    return None


_STATES = set()


def tally(dist, case, lines):
    c = None
    pred = list((case.meta or {}).get("pred", []))
    dist.setdefault("st_lines_differing_from_generator_prediction", 0)
    for site in (case.meta or {}).get("big", []):
        dist["big:" + site] = dist.get("big:" + site, 0) + 1
    pend = False
    drained = False
    for inp, out in zip(case.lines, lines):
        w = inp.split()
        if not w:
            continue
        if w[0] == "init":
            c = w[1]
            ci = int(c)
            key = "init-fails" if out == "init 0" else "cap=0" if ci == 0 else "cap<=12" if ci <= 12 else "cap<=64" if ci <= 64 else "cap>128"
            dist[key] = dist.get(key, 0) + 1
            pend = drained = False
            continue
        if w[0] == "st":
            _STATES.add(out)
            if pred:
                if pred.pop(0) != out:
                    dist["st_lines_differing_from_generator_prediction"] += 1
            continue
        if out == "nobuf":
            dist["nobuf"] = dist.get("nobuf", 0) + 1
            continue
        b = out.split(" | ")[0].split()
        verdict = b[1] if len(b) > 1 else ""
        if w[0] in ("wfc", "rfc", "rpk") and verdict != "skip":
            verdict = "refused" if verdict == "null" else "ok"      # b[1] is an offset
        elif verdict not in ("0", "1", "skip"):
            verdict = "ok"
        key = "%s:%s" % (w[0], {"0": "refused", "1": "ok"}.get(verdict, verdict))
        dist[key] = dist.get(key, 0) + 1
        if w[0] in ("wfc", "rfc") and len(w) > 1 and w[1].startswith("-"):
            dist["neg-fc"] = dist.get("neg-fc", 0) + 1
        if len(w) > 1 and w[0] in ("read", "fetch", "rfc", "rmove", "wfc", "writen", "wmoven") and not w[1].startswith("-") \
                and c is not None and int(w[1]) > int(c) + 1:
            dist["size>c+1"] = dist.get("size>c+1", 0) + 1
        # outstanding writer region bookkeeping (tally only)
        if w[0] == "wfc":
            if verdict == "ok":
                pend, drained = True, False
        elif w[0] in ("read", "rmove", "fetch", "rfc", "rpk"):
            if pend:
                dist["region-survives-reader-op"] = dist.get("region-survives-reader-op", 0) + 1
                if w[0] in ("read", "rmove") and verdict == "1" and " rd=0 " in out + " " and not w[1].startswith("0"):
                    drained = True
        else:
            if w[0] == "wmn" and pend and drained and verdict == "1":
                dist["commit-after-drain"] = dist.get("commit-after-drain", 0) + 1
            pend = drained = False
    dist["distinct_impl_states(c,w,r,t)"] = len(_STATES)


MANIFEST = {
    "level_text": ("Unbounded Coq theorems over an executable model of bytes_buffer.c (fields c,w,r,t and the byte array, all "
                   "thirteen public operations, any int size, zero-copy regions outstanding while the other side works, "
                   "capacity 0 and failing init): representation invariant preserved from init under every operation history, "
                   "trace-level refinement of a byte FIFO (every byte delivered by read/fetch/reader_fc is the next accepted "
                   "byte, exactly once, readable() = accepted - consumed after every step, zero-copy fc/move pairs with partial "
                   "advances included), failure iff the kind of space/data needed is lacking and then the state is unchanged, "
                   "every touched index < capacity.  Model tied to the C code by a differential run of the extracted model "
                   "against bytes_buffer.c compiled from the working tree with ASan/UBSan on exact-size heap blocks (explicit "
                   "enumeration of all reachable cursor states for small capacities, random long histories, stale-mark "
                   "sequences), plus an independent bytearray-FIFO monitor."),
    "design_ref": "DESIGN.md section 6 / C07, Appendix A.4, Appendix B",
    "level_note": ("Theorems are for the code with fixes/C07-*.patch applied (three genuine defects found first on the unchanged "
                   "tree).  Trusted: Coq kernel, extraction (ExtrOcamlBasic), the differential harness, ASan; C int overflow "
                   "not modelled; API contract of Appendix B assumed for writer_move_n (pointer of the last successful "
                   "writer_fc, k <= n, no writer-side operation in between); byte counts of read / fetch / reader_move "
                   "non-negative."),
    "technique": "Coq invariant + trace refinement to a list FIFO (induction over op lists) + extracted-model differential run + ASan",
}
