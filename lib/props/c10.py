"""C10 — heap and the five sorts: plugin for bin/check."""
import hashlib
import itertools
import os
import re
import vcommon as V

ID = "C10"
COQ_DIRS = ["C10"]
MODEL_BASE = "c10_model"
OCAML_DRIVER = "ocaml/c10_driver.ml"
C_DRIVER = "harness/drivers/c10_driver.c"
REPO_SOURCES = ["muggle/c/dsaa/heap.c", "muggle/c/dsaa/sort.c"]
LINK_FLAGS = ["-Wl,--wrap=malloc", "-Wl,--wrap=realloc", "-Wl,--wrap=calloc"]
HEADER_LINES = 1
CASE_TIMEOUT = 2.0
MODEL_CASE_TIMEOUT = 20.0
PROOF_TIMEOUT = 2400
SHRINK_BUDGET = 150

ALGOS = ["insertion", "shell", "heap", "merge", "quick"]
MODEL_MAX = 400          # longest array also run through the extracted model (list-based, O(n) access)

RULE = ("sorts: every array of length 0..7 over 3 key symbols (quick) / 0..9 over 4 symbols (thorough) through each of the "
        "five routines, structured arrays (sorted, reversed, sawtooth, all-equal, organ-pipe, two-valued) at every length "
        "0..2*cutoff+3 and at 50/100/257/400, seeded random arrays up to 10^4 elements (arrays longer than %d are judged by "
        "the monitor only, marked nodiff); heap: for every size 1..10 and several key patterns remove every index "
        "0..size+1 (last slot and invalid ones included) then drain, find-then-remove of every key, seeded random "
        "histories of insert/extract/root/find/remove/ensure_capacity/drain from initial capacities 1..3 (growth by "
        "doubling); ALLOCATION FAILURE injected (-Wl,--wrap=malloc,realloc,calloc; token F): the 1st/2nd/3rd growth of a "
        "full heap fails and the heap is used afterwards (a refused insert / ensure_capacity must change nothing), random "
        "histories with failing growths, sorts with failing allocations (refusal must leave the array untouched). "
        "CLEAR / DESTROY AND REUSE: heaps of size 0..6 (full, partly consumed) are cleared with all-NULL free functions "
        "(clr N), with counting free callbacks (clr C: every key and every non-NULL value must be handed to its callback "
        "exactly once, with the right pool) or destroyed and re-initialised (reinit), and the SAME heap object is used "
        "afterwards (root/extract/find/remove on the emptied heap, new inserts, drain, a second clear); also inside the "
        "random histories. "
        "FREE CALLBACKS as a per-call choice: rem / remf / clr with both callbacks, all NULL (N), key only (K), value only (V) "
        "(a callback that is passed must be handed the key / value of each released entry exactly once, one that is not "
        "passed nothing; the heap must change in the same way whatever the choice).  COMPARATOR MAGNITUDES: besides "
        "-1/0/1 the driver's comparator returns the key difference (cmp diff) or twice it (cmp big, never +-1) in a third of "
        "the heap histories, in copies of the structured / exhaustive-small sort cases and in random sort cases.  SCALE: one "
        "family of heap histories growing by doubling from capacity 1 to 8192 (4200 inserts in a row; thorough also 2000 / 9000), "
        "then extracts / inserts mixed, a clear and reuse, many equal keys (no dump per op, dumps on demand); arrays with MANY EQUAL keys of "
        "20000 (quick) / 16384, 16385, 20000, 32768, 40000 (thorough) elements through shell / heap / merge / quick sort "
        "(monitor only). "
        "ADVERSARIAL quick-sort inputs: Musser median-of-3 killer permutations (lengths 100..4000) with their mirror / "
        "reversal, and McIlroy's antiquicksort run against the implementation under test in both orientations (pivot "
        "smallest / pivot largest), the resulting concrete arrays (n = 64..4000) fed to all five sorts and the model. "
        "A case is non-trivial when some input array is not already in order or a heap history removes/extracts from a "
        "heap of >= 2 entries; distinct = distinct case text") % MODEL_MAX
TRUSTED_BASE = [
    "modelled, not verified: comparator is a total preorder (key function into Z); malloc is an oracle that succeeds in the "
    "differential run; machine-integer wrap-around of size_t/uint64_t indices is not modelled (sizes < 2^31; "
    "MUGGLE_DS_CAP_IS_VALID is modelled)",
    "quick-sort cutoff re-extracted on every run by compiling a program that #includes muggle/c/dsaa/sort.c and prints "
    "QUICK_SORT_CUTOFF (coq/gen/Params_C10.v); side condition 3 <= cutoff re-checked by the kernel",
    "second tie (translator kind): lib/props/c10_slice.py reads the clang 14 JSON AST of heap.c and sort.c on every run, cuts "
    "every loop of insert / extract / remove / find / clear, insertion / shell / heap / merge / quick sort at its head and its "
    "exit into loop-free segments (entry -> first head, ONE ITERATION, exit -> next cut / return), executes each symbolically "
    "(for/while/do, break/continue, ++ in subscripts, helper calls inlined with pointer parameters into the arrays, library calls "
    "as events with their footprint havocked, comparator callback = abstract cmp, pointer locals = array index, loop-head-derived "
    "locals substituted) and emits it as a Gallina function over two arrays Z -> Z and the integer state (coq/gen/Params_C10.v "
    "gen_*); 43 obligations gen_*_matches_model prove each equal to the hand-written segment of coq/C10/Steps.v (tag of the cut "
    "reached, arrays pointwise, state vector, calls with arguments, arrays handed to the calls) by one shape-independent decision "
    "tactic, for every comparator whose sign follows the keys and indices < 2^62; 6 theorems model_*_is_*_step prove that the "
    "fuelled loops sift_up / sift_down / remove_loop / ins_inner / scan_up / scan_down of the model are the iterations of those "
    "segments; trusted: clang's AST, the slicer (symbolic execution, canonical ordering of the inputs by first occurrence)",
]
ASSUMPTIONS = [
    "comparators are total preorders (DESIGN.md Appendix B), i.e. induced by an integer-valued key function",
    "array lengths / heap capacities below 2^31 - 1 (heap_sort refuses larger arrays with an error return; no index wraps)",
    "muggle_heap_remove is given a node pointer inside the heap's node array (as returned by find/root)",
    "allocation may fail (oracle): a refusal changes nothing; success statements are for allocations that succeed",
]
EVIDENCE_NOTES = []   # filled at the bottom of the file

_cutoff = [10]
_ctx = [None]            # the running check (gives the adversary pre-pass access to the implementation driver)


# --------------------------------------------------------------------------
# parameters: QUICK_SORT_CUTOFF re-extracted from the working tree

def gen_params(ctx):
    _ctx[0] = ctx
    V.gen_config_header()
    d = os.path.join(V.BUILD, "C10")
    os.makedirs(d, exist_ok=True)
    src = os.path.join(d, "c10_params.c")
    with open(src, "w") as f:
        f.write('#include <stdio.h>\n#include "%s"\n' % os.path.join(V.REPO, "muggle/c/dsaa/sort.c"))
        f.write('int main(void) { printf("%lld\\n", (long long)(QUICK_SORT_CUTOFF)); return 0; }\n')
    exe = os.path.join(d, "c10_params")
    rc, out, err = V.sh([V.CC, "-std=gnu11", "-w", "-DNDEBUG", "-DMUGGLE_C_EXPORTS", "-I" + V.REPO, "-I" + V.GEN_INC,
                         src, os.path.join(V.REPO, "muggle/c/dsaa/heap.c"), "-o", exe], timeout=120)
    if rc != 0:
        raise RuntimeError("cannot extract QUICK_SORT_CUTOFF from sort.c:\n" + err[-2000:])
    rc, out, err = V.sh([exe], timeout=20)
    m = re.match(r"\s*(\d+)\s*$", out)
    if rc != 0 or not m:
        raise RuntimeError("QUICK_SORT_CUTOFF is not a non-negative integer constant: %r" % out[:200])
    c = int(m.group(1))
    if c > 100000:
        raise RuntimeError("QUICK_SORT_CUTOFF unreasonably large: %d" % c)
    _cutoff[0] = c
    txt = ("(* GENERATED by lib/props/c10.py gen_params from muggle/c/dsaa/sort.c and heap.c on every run; do not edit. *)\n"
           "From MV Require Import C10.GenLib.\nLocal Open Scope Z_scope.\n"
           "Definition quick_sort_cutoff : nat := %d%%nat.\n\n" % c)
    txt += slice_sources(d)
    # The extracted model embeds the constant: write the parameter file now and bring C10/Extract.vo (hence
    # coq/c10_model.ml) up to date, so that the model driver is never built from a stale extraction.
    pf = os.path.join(V.COQ, "gen", "Params_C10.v")
    os.makedirs(os.path.dirname(pf), exist_ok=True)
    if not os.path.exists(pf) or open(pf).read() != txt:
        with open(pf, "w") as f:
            f.write(txt)
    ml = os.path.join(V.COQ, MODEL_BASE + ".ml")
    deps = [pf, os.path.join(V.COQ, "C10", "Model.v"), os.path.join(V.COQ, "C10", "Extract.v"),
            os.path.join(V.COQ, "C10", "GenLib.v")]
    if os.path.exists(ml) and any(os.path.getmtime(d) > os.path.getmtime(ml) for d in deps):
        os.remove(ml)
    rc, log = V.coq_make(["C10/Extract.vo"], timeout=900)
    if rc != 0:
        raise RuntimeError("extraction of the C10 model failed:\n" + log[-3000:])
    if not os.path.exists(ml):     # .vo was up to date but the .ml had been removed: force re-extraction
        try:
            os.remove(os.path.join(V.COQ, "C10", "Extract.vo"))
        except OSError:
            pass
        rc, log = V.coq_make(["C10/Extract.vo"], timeout=900)
        if rc != 0 or not os.path.exists(ml):
            raise RuntimeError("extraction of the C10 model failed:\n" + log[-3000:])
    return txt


# --------------------------------------------------------------------------
# second tie (DESIGN.md 4.4): every loop of heap.c / sort.c cut into loop-free segments and re-translated from the
# clang JSON AST of this run into Gallina (lib/props/c10_slice.py); C10/ProofsGen*.v prove each equal to the
# hand-written segment of C10/Steps.v.  A segment that cannot be translated, or whose translation does not type-check,
# is emitted as a comment: the definition is then missing and the obligation gen_..._matches_model breaks.

def slice_sources(builddir):
    from props import c10_slice as S
    flags = ["-std=gnu11", "-DNDEBUG", "-DMUGGLE_C_EXPORTS", "-I" + V.REPO, "-I" + V.GEN_INC]
    try:
        gtxt, sigs, errs = S.generate(V.REPO, flags)
    except Exception as e:          # a broken slicer must break the obligations, not the machinery
        return "(* slicer failure: %s *)\n" % repr(e)[:400].replace("*)", "* )")
    # the generated definitions must type-check on their own (the model imports this file)
    rc, log = V.coq_make(["C10/GenLib.vo"], timeout=600)
    if rc != 0:
        return "(* C10/GenLib.v does not compile: generated segments left out *)\n"
    tdir = os.path.join(builddir, "slicetest")
    os.makedirs(tdir, exist_ok=True)
    head = "From MV Require Import C10.GenLib.\nLocal Open Scope Z_scope.\n"

    def compiles(body):
        with open(os.path.join(tdir, "T.v"), "w") as f:
            f.write(head + body)
        rc2, out, err = V.sh(["coqc", "-Q", V.COQ, "MV", "T.v"], timeout=300, cwd=tdir)
        return rc2 == 0, (err or out)
    ok, msg = compiles(gtxt)
    if ok:
        return gtxt
    parts = re.split(r"(?m)^(?=\(\* )", gtxt)
    kept = []
    for part in parts:
        if "Definition " not in part:
            kept.append(part)
            continue
        ok1, msg1 = compiles(part)
        if ok1:
            kept.append(part)
        else:
            m = re.search(r"Definition (\w+)", part)
            kept.append("(* generated definition %s does not type-check: %s *)\n" % (
                m.group(1) if m else "?", msg1[-300:].replace("*)", "* )").replace("(*", "( *")))
    return "".join(kept)


# --------------------------------------------------------------------------
# case construction

def sort_line(algo, keys, diff=True, fail=False):
    mode = "fail" if fail else ("diff" if diff and len(keys) <= MODEL_MAX else "nodiff")
    return "sort %s %s %d%s" % (algo, mode, len(keys), "".join(" %d" % k for k in keys))


def sort_case(name, lines, cmpmode=None):
    """cmpmode: None / "diff" / "big" - the magnitudes the driver's comparator returns (only the sign may matter)"""
    return V.Case(name, ["sorts"] + (["cmp " + cmpmode] if cmpmode else []) + lines, {"kind": "sort"})


def heap_case(name, cap, keyvals, ops):
    return V.Case(name, ["heap %d %d%s" % (cap, len(keyvals), "".join(" %d" % k for k in keyvals))] + ops,
                  {"kind": "heap"})


def structured(n):
    """named key patterns of length n"""
    pats = {
        "sorted": list(range(n)),
        "reversed": list(range(n, 0, -1)),
        "equal": [5] * n,
        "saw3": [i % 3 for i in range(n)],
        "saw7": [i % 7 for i in range(n)],
        "sawdown": [(n - i) % 4 for i in range(n)],
        "pipe": [min(i, n - 1 - i) for i in range(n)],
        "valley": [max(i, n - 1 - i) for i in range(n)],
        "two": [(i * 7919) % 2 for i in range(n)],
        "lastsmall": list(range(1, n)) + [0] if n else [],
        "firstbig": ([n] + list(range(n - 1))) if n else [],
    }
    return pats


def corpus_cases(ctx):
    cs = []
    if os.environ.get("C10_NO_CORPUS"):     # used once to show the generator finds the defects by itself
        return cs
    # the three repaired defects (DESIGN.md section 5): these are the minimal replays
    cs.append(sort_case("corpus-merge-empty", [sort_line("merge", [])]))
    cs.append(sort_case("corpus-quick-empty", [sort_line("quick", [])]))
    cs.append(heap_case("corpus-heap-remove-last-slot", 4, [1, 2, 3], ["ins 1 1", "ins 2 2", "ins 3 3", "rem 3", "drain"]))
    cs.append(heap_case("corpus-heap-remove-only", 1, [4], ["ins 1 7", "rem 1", "ext", "root"]))
    cs.append(sort_case("corpus-len01", [sort_line(a, k) for a in ALGOS for k in ([], [3])]))
    cs.append(heap_case("corpus-heap-grow", 1, [5, 4, 3, 2, 1], ["ins 1 1", "ins 2 2", "ins 3 3", "ins 4 4", "ins 5 5",
                                                                 "find 3", "remf 3", "root", "drain", "ext", "rem 0", "rem 1"]))
    cs.append(heap_case("corpus-heap-init-zero", 0, [1], ["ins 1 0", "ext"]))
    # seeded change C10-10: clear with all-NULL free functions must still empty the heap
    cs.append(heap_case("corpus-heap-clear-null-reuse", 2, [5, 1, 3, 4],
                        ["ins 1 11", "ins 2 0", "ins 3 13", "ext", "clr N", "root", "ext", "find 1", "ins 4 14", "root",
                         "ins 1 15", "drain", "clr N", "ins 3 0", "clr C", "reinit 1", "ins 2 12", "ins 1 0", "drain"]))
    d = os.path.join(V.VERIF, "corpus", "C10")
    if os.path.isdir(d):
        for f in sorted(os.listdir(d)):
            if f.endswith(".case"):
                c = V.Case.load(os.path.join(d, f))
                c.name = "file-" + c.name
                cs.append(c)
    return cs


def exhaustive_sort_cases(maxlen, nsym, per_case=1500):
    cases = []
    for algo in ALGOS:
        for n in range(0, maxlen + 1):
            lines, part = [], 0
            for keys in itertools.product(range(nsym), repeat=n):
                lines.append(sort_line(algo, keys))
                if len(lines) >= per_case:
                    cases.append(sort_case("ex-%s-n%d-s%d-p%d" % (algo, n, nsym, part), lines))
                    lines, part = [], part + 1
            if lines:
                cases.append(sort_case("ex-%s-n%d-s%d-p%d" % (algo, n, nsym, part), lines))
    return cases


def structured_sort_cases(cutoff, extra_lengths, cmpmode=None):
    cases = []
    lens = list(range(0, 2 * cutoff + 4)) + list(extra_lengths)
    for algo in ALGOS:
        for n in lens:
            lines = [sort_line(algo, k) for _, k in sorted(structured(n).items())]
            cases.append(sort_case("st%s-%s-n%d" % (cmpmode or "", algo, n), lines, cmpmode))
    return cases


def equal_key_big_cases(lengths, algos=("shell", "heap", "merge", "quick")):
    """long arrays with MANY EQUAL keys (the unit tests only sort distinct keys at this size); judged by the monitor"""
    cases = []
    for n in lengths:
        pats = [
            ("fewdesc", [(n - i) // (n // 7 + 1) for i in range(n)]),        # 8 values, descending, smallest last
            ("three", [(i * 7919 + 1) % 3 for i in range(n)]),
            ("runs", [(i // 97) % 5 for i in range(n)]),
            ("alleq1", [4] * (n - 1) + [0]),                                 # all equal but the last
            ("alleq", [4] * n),
        ]
        for pname, ks in pats:
            cases.append(sort_case("eqbig-n%d-%s" % (n, pname), [sort_line(a, ks, diff=False) for a in algos]))
    return cases


def random_keys(rng, n):
    kind = rng.below(6)
    if kind == 0:
        return [rng.below(4) for _ in range(n)]
    if kind == 1:
        return [rng.below(max(1, n)) for _ in range(n)]
    if kind == 2:
        return [rng.range(-1000000, 1000000) for _ in range(n)]
    if kind == 3:                      # nearly sorted
        ks = list(range(n))
        for _ in range(max(1, n // 20)):
            i, j = rng.below(max(1, n)), rng.below(max(1, n))
            if n:
                ks[i], ks[j] = ks[j], ks[i]
        return ks
    if kind == 4:                      # runs of equal keys
        ks, v = [], 0
        while len(ks) < n:
            v += rng.range(-2, 2)
            ks += [v] * rng.range(1, 12)
        return ks[:n]
    return [rng.below(2) for _ in range(n)]


def random_sort_cases(rng, n_small, n_mid, n_big):
    cases = []
    for i in range(n_small):
        n = rng.range(0, 64)
        ks = random_keys(rng, n)
        cases.append(sort_case("rnd-small-%d" % i, [sort_line(a, ks) for a in ALGOS], rng.choice([None, None, "diff", "big"])))
    for i in range(n_mid):
        n = rng.range(65, MODEL_MAX)
        ks = random_keys(rng, n)
        cases.append(sort_case("rnd-mid-%d" % i, [sort_line(a, ks) for a in ALGOS], rng.choice([None, "diff", "big"])))
    for i in range(n_big):
        n = rng.choice([1000, 4096, 9999, 10000, rng.range(MODEL_MAX + 1, 10000)])
        ks = random_keys(rng, n)
        cases.append(sort_case("rnd-big-%d" % i, [sort_line(a, ks, diff=False) for a in ALGOS]))
    return cases


HEAP_PATTERNS = {
    "inc": lambda s: list(range(1, s + 1)),
    "dec": lambda s: list(range(s, 0, -1)),
    "eq": lambda s: [3] * s,
    "two": lambda s: [(i * 5) % 2 for i in range(s)],
    "zig": lambda s: [(i * 7) % 5 for i in range(s)],
    "bigtail": lambda s: [1] * (s - 1) + [9] if s else [],
    "smalltail": lambda s: [5] * (s - 1) + [0] if s else [],
}


def heap_position_cases(maxsize):
    cases = []
    for s in range(1, maxsize + 1):
        for pname, pf in sorted(HEAP_PATTERNS.items()):
            kv = pf(s)
            build = ["ins %d %d" % (i + 1, (i % 3 == 0) and 0 or (i + 10)) for i in range(s)]
            for cap in (1, s, s + 1):
                if cap != 1 and pname not in ("inc", "zig"):
                    continue
                for idx in range(0, s + 2):
                    cases.append(heap_case("hp-s%d-%s-c%d-rem%d" % (s, pname, cap, idx), cap, kv,
                                           build + ["rem %d" % idx, "root", "drain"]))
                    if cap == 1 and pname in ("zig", "eq", "smalltail"):
                        # the free callbacks are a per-call choice: all NULL / key only / value only; and the
                        # comparator may return any magnitude
                        flag = ("N", "K", "V")[(s + idx) % 3]
                        cases.append(heap_case("hp-s%d-%s-c%d-rem%d%s" % (s, pname, cap, idx, flag), cap, kv,
                                               ["cmp " + ("diff", "big")[idx % 2]] + build +
                                               ["rem %d %s" % (idx, flag), "root", "ext", "ins 1 9", "rem 1 N", "drain"]))
                for k in range(1, s + 1):
                    cases.append(heap_case("hp-s%d-%s-c%d-remf%d" % (s, pname, cap, k), cap, kv,
                                           build + ["find %d" % k, "remf %d" % k, "root", "drain"]))
    return cases



# --------------------------------------------------------------------------
# adversarial inputs for the median-of-3 quick sort

def musser_killer(n):
    """D. Musser's median-of-3 killer permutation of 1..n (n = 2k, k even): 1, k+1, 3, k+3, ... ; 2, 4, ..., 2k."""
    n -= n % 4
    k = n // 2
    a = [0] * (2 * k)
    for i in range(1, k + 1):
        a[i - 1] = i if i % 2 == 1 else k + i - 1
        a[k + i - 1] = 2 * i
    return a


def orientations(ks):
    """the array, its value mirror, its reversal and both"""
    m = max(ks) if ks else 0
    mir = [m - k for k in ks]
    return [("id", list(ks)), ("mir", mir), ("rev", list(reversed(ks))), ("revmir", list(reversed(mir)))]


def killer_cases(lengths):
    cases = []
    for n in lengths:
        for oname, ks in orientations(musser_killer(n)):
            cases.append(sort_case("killer-n%d-%s" % (n, oname), [sort_line(a, ks) for a in ALGOS]))
    return cases


def adversary_arrays(lengths, algos=("quick",)):
    """McIlroy's antiquicksort run against the implementation under test (driver op `adv`): the comparator fixes
    the keys lazily so that the code is driven to its worst case, in both orientations (lo: undetermined keys are
    +infinity, pivots end up smallest; hi: the mirror adversary, pivots end up largest); returns
    [(algo, n, dir, keys)].  Deterministic for a given implementation; the concrete arrays then become ordinary
    cases (so replays are self-contained)."""
    ctx = _ctx[0]
    if ctx is None or not getattr(ctx, "impl", None):
        return []
    pre = [V.Case("adv-%s-%d-%s" % (a, n, d), ["sorts", "adv %s %d %s" % (a, n, d)])
           for a in algos for n in lengths for d in ("lo", "hi")]
    try:
        res = V.run_batch(ctx.impl, pre, per_case_timeout=20.0)
    except Exception:
        return []
    out = []
    for c in pre:
        r = res.get(c.name)
        if not r or r["status"] != "ok" or not r["lines"] or not r["lines"][0].startswith("adv"):
            continue          # the adversary run itself failed (crash/timeout): other cases will report it
        ks = [int(x) for x in r["lines"][0].split()[1:]]
        w = c.lines[1].split()
        if len(ks) == int(w[2]):
            out.append((w[1], int(w[2]), w[3], ks))
    return out


def adversary_cases(lengths, algos=("quick",)):
    cases = []
    for algo, n, d, ks in adversary_arrays(lengths, algos):
        for oname, arr in orientations(ks):
            cases.append(sort_case("adv-%s-n%d-%s-%s" % (algo, n, d, oname), [sort_line(a, arr) for a in ALGOS]))
    return cases


def alloc_fail_sort_cases(rng, count):
    """sorts whose allocations all fail: merge / heap sort must return false and leave the array as it was,
    the in-place sorts are unaffected"""
    cases = []
    fixed = [[], [1], [2, 1], [3, 1, 2, 1, 0, 5, 4, 4, 2, 9, 8, 7, 3]]
    for i in range(count):
        ks = fixed[i] if i < len(fixed) else random_keys(rng, rng.range(0, 40))
        cases.append(sort_case("allocfail-sort-%d" % i, [sort_line(a, ks, fail=True) for a in ALGOS]))
    return cases


# --------------------------------------------------------------------------
# heap histories in which a growth allocation fails and the heap is used afterwards

def heap_growth_failure_cases():
    cases = []
    for cap in (1, 2, 3, 4):
        for pname in ("inc", "dec", "zig", "eq"):
            # grow successfully g times, then the next growth fails
            for g in (0, 1, 2):
                full = cap * (2 ** g)
                kv = HEAP_PATTERNS[pname](full + 3)
                fill = ["ins %d %d" % (i + 1, i + 10) for i in range(full)]
                after = ["root", "find 1", "find %d" % full, "ext", "rem %d" % full, "rem 1",
                         "ins %d 77" % (full + 2), "ins %d 78" % (full + 3), "ins %d 79 F" % (full + 1), "drain", "root", "ext"]
                for k, use in enumerate((["drain"], ["root", "drain"], ["ext", "drain"], ["find 1", "rem 1", "drain"],
                                         ["rem %d" % full, "drain"], ["ins %d 55" % (full + 1), "drain"], after)):
                    cases.append(heap_case("hgf-c%d-%s-g%d-u%d" % (cap, pname, g, k), cap, kv,
                                           fill + ["ins %d 66 F" % (full + 1)] + use))
                # explicit ensure_capacity: refused, then granted, then a no-op request
                cases.append(heap_case("hens-c%d-%s-g%d" % (cap, pname, g), cap, kv,
                                       fill + ["ens %d F" % (full + 5), "root", "ens %d" % (full + 5), "ens 1 F", "ens 0",
                                               "ins %d 5" % (full + 1), "ens %d F" % (4 * full + 40), "drain"]))
    return cases

def heap_clear_cases(maxsize):
    """a heap (empty, full, partly consumed) is cleared - free functions all NULL, or counting callbacks - or
    destroyed and re-initialised, and then the same heap object keeps being used"""
    cases = []
    for s in range(0, maxsize + 1):
        for pname in ("inc", "zig"):
            kv = HEAP_PATTERNS[pname](s + 3)
            ka, kb, kc = s + 1, s + 2, s + 3
            build = ["ins %d %d" % (i + 1, (i % 3 == 0) and 0 or (i + 10)) for i in range(s)]
            pres = [[], ["ext"], ["rem 1", "ins %d 0" % kc, "ext"]]
            reuses = [
                ["root", "ext", "find 1", "rem 1", "rem %d" % max(1, s), "drain"],
                ["ins %d 7" % ka, "root", "find %d" % ka, "ext", "ext", "drain"],
                ["ins %d 0" % kc, "ins %d 9" % kb, "ins %d 8" % ka, "find 1", "remf %d" % kb, "root", "rem 2", "clr C",
                 "ins %d 1" % kb, "clr N", "root", "ins %d 2" % ka, "drain"],
            ]
            for cap in sorted(set((1, s + 1))):
                for pi, pre in enumerate(pres):
                    for mode in ("clr N", "clr C", "reinit %d" % (s % 4)):
                        for ri, reuse in enumerate(reuses):
                            cases.append(heap_case("hclr-s%d-%s-c%d-p%d-%s-u%d" % (s, pname, cap, pi, mode.replace(" ", ""), ri),
                                                   cap, kv, build + pre + [mode] + reuse))
    return cases


def heap_big_cases(sizes):
    """one family of LONG histories: n inserts in a row grow the heap by doubling from capacity 1 far past 64
    (n = 4200: capacity 8192), then extracts / inserts / roots mixed, explicit dumps now and then (`dumps off`: no
    dump line per op), a clear, reuse and a final drain; many equal keys"""
    cases = []
    for n in sizes:
        for pname, kf in (("desc", lambda i: 63 - i), ("mix", lambda i: (i * 7919) % 37), ("eq3", lambda i: i % 3)):
            nk = 64
            kv = [kf(k) for k in range(nk)]
            ops = ["dumps off"] + (["cmp big"] if pname == "mix" else [])
            for i in range(n):
                ops.append("ins %d %d" % ((i * 31) % nk + 1, (i % 4000) + 1 if i % 5 else 0))
                if i in (70, 300, 1100, 2100) or i == n - 1:
                    ops.append("dump")
            for i in range(n // 2):
                ops.append("ext")
                if i % 4 == 3:
                    ops.append("ins %d %d" % ((i * 17) % nk + 1, i % 4000 + 1))
                if i % 257 == 256:
                    ops.append("root")
            ops += ["dump", "clr K", "ins 1 1", "ins 2 2", "dump", "dumps on", "ext", "drain"]
            cases.append(heap_case("hbig-n%d-%s" % (n, pname), 1, kv, ops))
    return cases


def random_heap_case(rng, name, nops):
    nkeys = rng.range(1, 10)
    alpha = rng.choice([1, 2, 3, 5, 50])
    kv = [rng.below(alpha) for _ in range(nkeys)]
    cap = rng.choice([0, 1, 1, 2, 3, 4])
    ops, size = [], 0
    capnow = 8 if cap == 0 else cap
    if rng.chance(1, 3):
        ops.append("cmp " + rng.choice(["diff", "big"]))
    cbflag = lambda: rng.choice(["", "", " N", " K", " V"])
    for _ in range(nops):
        r = rng.below(100)
        if r < 45 or size == 0 and r < 80:
            # a failing allocation: mostly exactly when the insert has to grow the heap
            fail = rng.chance(1, 3) if size == capnow else rng.chance(1, 12)
            ops.append("ins %d %d%s" % (rng.range(1, nkeys), rng.choice([0, rng.range(1, 4000)]), " F" if fail else ""))
            if fail and size == capnow:
                continue          # refused: nothing changes
            size += 1
            while capnow < size:
                capnow *= 2
        elif r >= 98:
            want = rng.choice([0, 1, capnow, capnow + 1, 2 * capnow + 3, size + 1])
            fail = rng.chance(1, 2)
            ops.append("ens %d%s" % (want, " F" if fail else ""))
            if want > capnow and not fail:
                capnow = want
        elif r < 60:
            ops.append("ext")
            size = max(0, size - 1)
        elif r < 65:
            ops.append("root")
        elif r < 72:
            ops.append("find %d" % rng.range(1, nkeys))
        elif r < 90:
            # every position incl. the last slot; sometimes 0 / size+1 / capacity
            idx = rng.choice([rng.range(1, max(1, size)), size, size, 1, 0, size + 1, capnow])
            idx = min(idx, capnow)
            ops.append("rem %d%s" % (idx, cbflag()))
            if 1 <= idx <= size:
                size -= 1
        elif r < 95:
            ops.append("remf %d%s" % (rng.range(1, nkeys), cbflag()))
            size = max(0, size - 1)   # upper bound only; the monitor tracks the real size
        elif r < 97:
            if rng.chance(1, 4):
                c2 = rng.choice([0, 1, 2, 3, 4])
                ops.append("reinit %d" % c2)
                capnow = 8 if c2 == 0 else c2
            else:
                ops.append(rng.choice(["clr N", "clr N", "clr C", "clr K", "clr V"]))
            size = 0
        else:
            ops.append("drain")
            size = 0
    ops.append("drain")
    return heap_case(name, cap, kv, ops)


def generate(rng, tier):
    cutoff = _cutoff[0]
    cases = []
    if tier == "quick":
        cases += exhaustive_sort_cases(7, 3)
        cases += structured_sort_cases(cutoff, [50, 100, 257, MODEL_MAX])
        cases += structured_sort_cases(cutoff, [50], "diff")
        cases += structured_sort_cases(cutoff, [257], "big")
        cases += [sort_case("exbig-" + c.name, c.lines[1:], "big") for c in exhaustive_sort_cases(5, 3)]
        cases += equal_key_big_cases([20000])[:2]
        cases += heap_big_cases([4200])[:2]
        cases += random_sort_cases(rng.fork("sorts"), 60, 6, 3)
        cases += heap_position_cases(8)
        cases += heap_growth_failure_cases()
        cases += heap_clear_cases(6)
        hr = rng.fork("heap")
        cases += [random_heap_case(hr, "hr-%d" % i, hr.range(5, 60)) for i in range(400)]
        cases += alloc_fail_sort_cases(rng.fork("allocfail"), 12)
        cases += killer_cases([100, 200, 300, MODEL_MAX, 1000, 2000, 4000])
        cases += adversary_cases([64, 150, 300, MODEL_MAX, 1000, 3000])
    else:
        cases += exhaustive_sort_cases(9, 4)
        cases += structured_sort_cases(cutoff, [50, 64, 100, 127, 128, 129, 257, MODEL_MAX])
        cases += structured_sort_cases(cutoff, [50, 64, 100, 257, MODEL_MAX], "diff")
        cases += structured_sort_cases(cutoff, [50, 64, 100, 257, MODEL_MAX], "big")
        cases += [sort_case("exbig-" + c.name, c.lines[1:], "big") for c in exhaustive_sort_cases(7, 3)]
        cases += equal_key_big_cases([16384, 16385, 20000, 32768, 40000])
        cases += heap_big_cases([2000, 4200, 9000])
        cases += random_sort_cases(rng.fork("sorts"), 600, 40, 30)
        cases += heap_position_cases(12)
        cases += heap_growth_failure_cases()
        cases += heap_clear_cases(10)
        hr = rng.fork("heap")
        cases += [random_heap_case(hr, "hr-%d" % i, hr.range(5, 200)) for i in range(6000)]
        cases += alloc_fail_sort_cases(rng.fork("allocfail"), 200)
        cases += killer_cases(list(range(100, MODEL_MAX + 1, 20)) + [1000, 1500, 2000, 3000, 4000])
        cases += adversary_cases([40, 64, 100, 150, 200, 250, 300, 350, MODEL_MAX, 700, 1000, 2000, 3000, 4000])
        cases += adversary_cases([100, MODEL_MAX, 2000], algos=("insertion", "shell", "heap", "merge"))
    return cases


def search(rng, diverging, tier):
    """Extra cases used when a proof obligation (e.g. the cutoff side condition) or the correspondence broke:
    every short array around the current cutoff, and heap removals at every position."""
    cutoff = _cutoff[0]
    cases = []
    for algo in ("quick", "merge"):
        for n in range(0, min(cutoff, 6) + 7):
            lines = [sort_line(algo, k) for _, k in sorted(structured(n).items())]
            if n <= 6:
                lines += [sort_line(algo, k) for k in itertools.product(range(3), repeat=n)]
            cases.append(sort_case("search-%s-n%d" % (algo, n), lines))
    for i in range(300):
        n = rng.range(0, 3 * cutoff + 8)
        ks = random_keys(rng, n)
        cases.append(sort_case("search-rnd-%d" % i, [sort_line(a, ks) for a in ALGOS]))
    cases += heap_position_cases(6)
    cases += heap_growth_failure_cases()
    cases += heap_clear_cases(4)
    cases += structured_sort_cases(cutoff, [50], "big")
    cases += [random_heap_case(rng, "search-hr-%d" % i, rng.range(5, 40)) for i in range(300)]
    cases += killer_cases([100, 200, MODEL_MAX, 1000])
    cases += adversary_cases([100, 200, MODEL_MAX, 1500])
    return cases


# --------------------------------------------------------------------------
# canonicalisation: a "nodiff" marker means the model is not run on that array

def canon(lines):
    out, after = [], False
    for ln in lines:
        if after and (ln.startswith("ret ") or ln.startswith("out")):
            if ln.startswith("out"):
                after = False
            continue
        after = False
        out.append(ln)
        if ln == "nodiff":
            after = True      # ret / out of the implementation follow; the model prints nothing
    return out


# --------------------------------------------------------------------------
# independent monitor (oracle of the property itself)

def _parse_nodes(ws):
    res = []
    for w in ws:
        k, v = w.split(":")
        res.append((int(k), int(v)))
    return res


def _check_sort(line, outs, pos):
    """returns (error or None, new pos)"""
    w = line.split()
    algo, mode, n = w[1], w[2], int(w[3])
    keys = [int(x) for x in w[4:4 + n]]
    if mode == "nodiff":
        if pos >= len(outs) or outs[pos] != "nodiff":
            return "missing nodiff marker", pos
        pos += 1
    if pos + 1 >= len(outs):
        return "%s sort of %d elements: no result (output ends)" % (algo, n), pos
    refused = False
    if outs[pos] == "ret 0" and mode == "fail":
        refused = True        # allocation failed: the routine may refuse, but then the array must be untouched
    elif outs[pos] != "ret 1":
        return "%s sort of %d elements returned %r" % (algo, n, outs[pos]), pos
    o = outs[pos + 1].split()
    if not o or o[0] != "out":
        return "%s sort: malformed output %r" % (algo, outs[pos + 1][:80]), pos
    if "?" in o[1:]:
        return "%s sort of %s: output holds a pointer that is not an input element" % (algo, keys[:20]), pos
    ids = [int(x) for x in o[1:]]
    if len(ids) != n or sorted(ids) != list(range(n)):
        return "%s sort of %s: output ids %s are not a permutation of the input (lost/duplicated element)" % (
            algo, keys[:20], ids[:20]), pos
    if refused:
        if ids != list(range(n)):
            return "%s sort of %s refused (allocation failure) but rearranged the array: %s" % (algo, keys[:20], ids[:20]), pos
        return None, pos + 2
    ks = [keys[i] for i in ids]
    for i in range(1, n):
        if ks[i - 1] > ks[i]:
            return "%s sort of %s: output keys %s not in non-decreasing order at position %d" % (
                algo, keys[:20], ks[:20], i), pos
    return None, pos + 2


def _multiset(xs):
    d = {}
    for x in xs:
        d[x] = d.get(x, 0) + 1
    return d


def monitor(case, outs):
    ls = case.lines
    if not ls:
        return None
    if ls[0] == "sorts" or ls[0].startswith("sort "):
        pos = 0
        for ln in ls:
            if not ln.startswith("sort "):
                continue
            err, pos = _check_sort(ln, outs, pos)
            if err:
                return err
        return None
    if not ls[0].startswith("heap "):
        return None
    # ---- heap history
    w = ls[0].split()
    cap0, nk = int(w[1]), int(w[2])
    kv = [None] + [int(x) for x in w[3:3 + nk]]
    valid = (8 if cap0 == 0 else cap0) < (1 << 31)
    if len(outs) < 2:
        return "no output for heap init"
    if outs[0] != ("init 1" if valid else "init 0"):
        return "heap init with capacity %d answered %r" % (cap0, outs[0])
    if not valid:
        return None
    ref = []          # reference multiset of (kid, vid)
    cur = []          # nodes[1..size] of the last dump
    curcap = [0]      # capacity of the last dump
    dumps_on = [True] # `dumps off`: no dump line after each op (big histories); `dump` prints one on demand
    pos = 1

    def key(nd):
        return kv[nd[0]]

    def check_dump(p, what):
        nonlocal cur
        if p >= len(outs):
            return "%s: heap dump missing" % what
        d = outs[p].split()
        if len(d) < 4 or d[0] != "heap" or d[3] != ":":
            return "%s: malformed dump %r" % (what, outs[p][:80])
        size, capn = int(d[1]), int(d[2])
        if "nodes=NULL" in d:
            return "%s: the node array is NULL while size = %d: every entry of the heap is lost (expected %s)" % (
                what, size, sorted(ref))
        try:
            nds = _parse_nodes(d[4:])
        except ValueError:
            return "%s: malformed node in dump %r" % (what, outs[p][:80])
        if size != len(nds):
            return "%s: dump size field %d but %d nodes" % (what, size, len(nds))
        if any(k < 1 or k > nk or v < 0 for k, v in nds):
            return "%s: heap holds a NULL/foreign key or value: %s" % (what, nds)
        if size != len(ref) or _multiset(nds) != _multiset(ref):
            return "%s: heap contents %s differ from the expected multiset %s" % (what, sorted(nds), sorted(ref))
        if capn < size:
            return "%s: size %d exceeds capacity %d" % (what, size, capn)
        for i in range(2, size + 1):
            if key(nds[i // 2 - 1]) > key(nds[i - 1]):
                return "%s: heap order broken: nodes[%d] key %d > nodes[%d] key %d (%s)" % (
                    what, i // 2, key(nds[i // 2 - 1]), i, key(nds[i - 1]), [key(x) for x in nds])
        cur = nds
        curcap[0] = capn
        return None

    def unchanged(p, what, before, capbefore):
        """a refused operation changes nothing: same nodes in the same slots, same capacity"""
        if not dumps_on[0]:
            return None
        e = check_dump(p, what)
        if e:
            return e
        if cur != before or curcap[0] != capbefore:
            return "%s: refused, yet the heap changed: before %s cap %d, after %s cap %d" % (
                what, before, capbefore, cur, curcap[0])
        return None

    e = check_dump(pos, "init")
    if e:
        return e
    pos += 1
    full_check = check_dump

    def check_dump(p, what):          # the dump that follows an op (absent when dumps are off)
        return full_check(p, what) if dumps_on[0] else None
    for n, ln in enumerate(ls[1:], 1):
        w = ln.split()
        if not w:
            continue
        op = w[0]
        what = "op %d (%s)" % (n, ln)
        dn = 1 if dumps_on[0] else 0
        if op == "cmp":               # comparator magnitudes: no output
            continue
        if op == "dumps":
            dumps_on[0] = not (len(w) > 1 and w[1] == "off")
            continue
        if not dumps_on[0] and op in ("rem", "remf", "find"):
            return None               # these are judged against the last dump: not generated with dumps off
        if pos >= len(outs):
            return "%s: no result" % what
        o = outs[pos].split()
        if not o:
            return "%s: empty result" % what
        if o[0] == "?":           # argument outside the driver's domain: the op was not performed
            pos += 1
            continue
        if op == "ins":
            injected = w[-1] == "F"
            if outs[pos] == "ins 0" and injected:
                # allocation failure injected: the insert may be refused, and then nothing may change
                e = unchanged(pos + 1, what, list(cur), curcap[0])
            elif outs[pos] != "ins 1":
                return "%s: answered %r" % (what, outs[pos])
            else:
                ref.append((int(w[1]), int(w[2])))
                e = check_dump(pos + 1, what)
            pos += 1 + dn
        elif op == "ens":
            want, injected = int(w[1]), w[-1] == "F"
            before, capbefore = list(cur), curcap[0]
            if outs[pos] == "ens 0":
                if not injected and want < (1 << 31):
                    return "%s: refused without an allocation failure" % what
                e = unchanged(pos + 1, what, before, capbefore)
            elif outs[pos] == "ens 1":
                e = check_dump(pos + 1, what)
                if not e and cur != before:
                    e = "%s: the entries moved/changed: before %s, after %s" % (what, before, cur)
                if not e and curcap[0] < want:
                    e = "%s: granted but capacity is %d" % (what, curcap[0])
            else:
                return "%s: answered %r" % (what, outs[pos])
            pos += 1 + dn
        elif op in ("ext", "root"):
            if not ref:
                exp = "ext 0" if op == "ext" else "root -"
                if outs[pos] != exp:
                    return "%s on an empty heap answered %r" % (what, outs[pos])
            else:
                try:
                    nd = _parse_nodes([o[-1]])[0]
                except (ValueError, IndexError):
                    return "%s on a non-empty heap answered %r" % (what, outs[pos])
                if (op == "ext" and o[:2] != ["ext", "1"]) or nd not in ref:
                    return "%s: returned %r which is not an entry of the heap %s" % (what, outs[pos], sorted(ref))
                mn = min(key(x) for x in ref)
                if key(nd) != mn:
                    return "%s: returned key %d but the minimum of the contents is %d" % (what, key(nd), mn)
                if op == "ext":
                    ref.remove(nd)
            if op == "ext":
                e = check_dump(pos + 1, what)
                pos += 1 + dn
            else:
                e = None
                pos += 1
        elif op == "find":
            idx = int(o[1])
            want = kv[int(w[1])]
            if idx == 0:
                if any(key(x) == want for x in cur):
                    return "%s: NULL although an entry with key %d is present" % (what, want)
            elif not (1 <= idx <= len(cur)) or key(cur[idx - 1]) != want:
                return "%s: returned node index %d which does not hold key %d" % (what, idx, want)
            e = None
            pos += 1
        elif op == "rem":
            idx = int(w[1])
            flag = w[-1] if w[-1] in ("N", "K", "V") else ""
            if "CALLS" in o:
                return "%s: a free callback was called more than once: %r" % (what, outs[pos])
            if 1 <= idx <= len(cur):
                nd = cur[idx - 1]
                # a callback that is passed is handed the key / value of the removed entry exactly once, one that
                # is not passed (NULL) sees nothing
                seen = (nd[0] if flag in ("", "K") else 0, nd[1] if flag in ("", "V") else 0)
                if outs[pos] != "rem 1 %d:%d" % seen:
                    return "%s: answered %r, expected removal of %d:%d with the callbacks seeing %d:%d" % (
                        what, outs[pos], nd[0], nd[1], seen[0], seen[1])
                ref.remove(nd)
            elif outs[pos] != "rem 0":
                return "%s: index outside 1..size answered %r" % (what, outs[pos])
            e = check_dump(pos + 1, what)
            pos += 1 + dn
        elif op == "remf":
            want = kv[int(w[1])]
            idx = int(o[1])
            if idx == 0:
                if any(key(x) == want for x in cur):
                    return "%s: find returned NULL although key %d is present" % (what, want)
            else:
                if not (1 <= idx <= len(cur)) or key(cur[idx - 1]) != want:
                    return "%s: find returned index %d which does not hold key %d" % (what, idx, want)
                nd = cur[idx - 1]
                flag = w[-1] if w[-1] in ("N", "K", "V") else ""
                if "CALLS" in o:
                    return "%s: a free callback was called more than once: %r" % (what, outs[pos])
                seen = (nd[0] if flag in ("", "K") else 0, nd[1] if flag in ("", "V") else 0)
                if outs[pos] != "remf %d 1 %d:%d" % (idx, seen[0], seen[1]):
                    return "%s: answered %r, expected removal of %d:%d with the callbacks seeing %d:%d" % (
                        what, outs[pos], nd[0], nd[1], seen[0], seen[1])
                ref.remove(nd)
            e = check_dump(pos + 1, what)
            pos += 1 + dn
        elif op in ("clr", "reinit"):
            # clear / destroy: with callbacks, every key and every non-NULL value of the heap is handed to its free
            # callback exactly once (right pool); without, nothing is; afterwards the heap is EMPTY whatever the
            # callbacks were, keeps its capacity (clear) / is a fresh heap (destroy + init)
            mode = "C" if op == "reinit" else (w[1] if len(w) > 1 else "")
            counting = mode == "C"
            if o[0] != op or "K" not in o or "V" not in o:
                return "%s: answered %r" % (what, outs[pos][:120])
            if "BADPOOL" in o:
                return "%s: a free callback was called with a pool other than the one passed in" % what
            ki, vi = o.index("K"), o.index("V")
            try:
                fk = [int(x) for x in o[ki + 1:vi]]
                fv = [int(x) for x in o[vi + 1:]]
            except ValueError:
                return "%s: answered %r" % (what, outs[pos][:120])
            expk = sorted(k for k, _ in ref) if mode in ("C", "K") else []
            expv = sorted(v for _, v in ref if v != 0) if mode in ("C", "V") else []
            if sorted(fk) != expk:
                return "%s: keys handed to the free callback %s, expected each key of the heap exactly once: %s" % (
                    what, fk, expk)
            if sorted(fv) != expv:
                return "%s: values handed to the free callback %s, expected each non-NULL value of the heap exactly once: %s" % (
                    what, fv, expv)
            capbefore = curcap[0]
            ref = []
            if op == "clr":
                e = check_dump(pos + 1, what)
                if not e and curcap[0] != capbefore:
                    e = "%s: capacity changed from %d to %d" % (what, capbefore, curcap[0])
                pos += 1 + dn
            else:
                cap2 = int(w[1])
                valid2 = (8 if cap2 == 0 else cap2) < (1 << 31)
                if pos + 1 >= len(outs) or outs[pos + 1] != ("init 1" if valid2 else "init 0"):
                    return "%s: re-init with capacity %d answered %r" % (what, cap2, outs[pos + 1] if pos + 1 < len(outs) else None)
                if not valid2:
                    return None
                e = full_check(pos + 2, what)
                if not e and curcap[0] != (8 if cap2 == 0 else cap2):
                    e = "%s: capacity after re-init is %d" % (what, curcap[0])
                pos += 3
        elif op == "dump":
            e = full_check(pos, what)
            pos += 1
        elif op == "drain":
            try:
                nds = _parse_nodes(o[1:])
            except ValueError:
                return "%s: answered %r" % (what, outs[pos][:120])
            if _multiset(nds) != _multiset(ref):
                return "%s: yielded %s, expected the multiset %s" % (what, nds, sorted(ref))
            ks = [key(x) for x in nds]
            if any(ks[i - 1] > ks[i] for i in range(1, len(ks))):
                return "%s: keys not yielded in non-decreasing order: %s" % (what, ks)
            ref = []
            e = check_dump(pos + 1, what)
            pos += 1 + dn
        else:
            e = None
            pos += 1
        if e:
            return e
    return None


# --------------------------------------------------------------------------
# statistics

def nontrivial_key(case, lines):
    ls = case.lines
    nt = False
    if ls and ls[0].startswith("heap "):
        nt = any(l.startswith(("rem", "ext", "drain")) for l in ls[1:]) and sum(1 for l in ls if l.startswith("ins")) >= 2
    else:
        for l in ls:
            if l.startswith("sort "):
                w = l.split()
                ks = [int(x) for x in w[4:]]
                if any(ks[i - 1] > ks[i] for i in range(1, len(ks))):
                    nt = True
                    break
    if not nt:
        return None
    return hashlib.sha1("\n".join(ls).encode()).hexdigest()


def tally(dist, case, lines):
    ls = case.lines

    def inc(k, n=1):
        dist[k] = dist.get(k, 0) + n
    if ls and ls[0].startswith("heap "):
        inc("heap_cases")
        for l in ls[1:]:
            inc("heap_op_" + l.split()[0])
            if l.endswith(" F"):
                inc("heap_alloc_failure_injected")
        inc("heap_refused_inserts", sum(1 for l in lines if l == "ins 0"))
        for l in lines:
            if l.startswith("rem 1") or (l.startswith("remf ") and l != "remf 0"):
                inc("heap_removed")
        # removal of the last slot
        size = 0
        for l, nxt in zip(lines, lines[1:] + [""]):
            if l.startswith("heap ") and len(l.split()) > 2 and l.split()[1].isdigit():
                size = int(l.split()[1])
        grown = [int(l.split()[2]) for l in lines if l.startswith("heap ") and len(l.split()) > 2 and l.split()[2].isdigit()]
        if grown and max(grown) > min(grown):
            inc("heap_cases_with_growth")
    else:
        for l in ls:
            if l.startswith("sort "):
                w = l.split()
                n = int(w[3])
                inc("sort_" + w[1])
                inc("sort_len_%s" % ("0" if n == 0 else "1" if n == 1 else "2-9" if n < 10 else "10-12" if n <= 12 else
                                     "13-99" if n < 100 else "100-%d" % MODEL_MAX if n <= MODEL_MAX else ">%d" % MODEL_MAX))
                if w[2] == "nodiff":
                    inc("sort_monitor_only")
                if w[2] == "fail":
                    inc("sort_alloc_failure_injected")
        if case.name.startswith(("adv-", "killer-")):
            inc("sort_cases_adversarial")


MANIFEST = {
    "level_text": ("Unbounded Coq theorems over an executable, index-faithful model of heap.c and sort.c (1-based node "
                   "array with sift-up / sift-down / combined remove loop; insertion, shell, heap, top-down merge with "
                   "scratch array, median-of-3 quick sort with sentinel partition and insertion tail): heap invariant "
                   "(order + multiset) preserved by insert/extract/remove at any position, extract returns a minimum, "
                   "draining yields sorted order; each sort returns a sorted permutation for every length and key pattern. "
                   "Model tied to the code by an element-for-element differential run of the extracted model against "
                   "heap.c/sort.c compiled from the working tree under ASan/UBSan, plus an independent monitor."),
    "design_ref": "DESIGN.md section 6 / C10, section 5 row C10",
    "level_note": ("Trusted: Coq kernel, extraction, the differential harness; comparator = total preorder; sizes < 2^31; "
                   "malloc oracle.  Quick-sort cutoff re-extracted each run and its side condition re-checked; every loop iteration "
                   "of heap.c / sort.c re-translated each run and proved equal to the model's segment (trusted: clang AST, slicer)."),
    "technique": ("Coq proofs by loop invariants over index-faithful array models + extracted-model differential run + monitor + "
                  "per-run re-translation of every loop iteration from the clang AST with kernel-checked equality to the model's segments"),
}

EVIDENCE_NOTES += [
    "PROVED (unbounded, Closed under the global context): heap_init_valid; heap_inv_insert (sift-up terminates, order + multiset, "
    "growth by doubling keeps the entries, refusal changes nothing); heap_inv_extract_min (sift-down with the code's child selection "
    "and >= tie-break terminates, returns the root = a minimum, order + multiset); heap_inv_remove_any_position (combined up/down "
    "loop terminates within the fuel 2*size+2, order + multiset for EVERY index 1..size, last slot included - repaired code); "
    "heap_growth_refusal_changes_nothing (ensure_capacity refused = identical heap, granted = same entries in the same slots); "
    "heap_remove_outside_refused; heap_root_is_min; heap_empty_yields_nothing; heap_find_locates; "
    "heap_clear_gives_valid_empty_heap (clear, whatever the free callbacks are - both NULL included - yields the valid empty heap "
    "of the same capacity, every old slot NULL, contents = [], root/extract yield nothing, and the nodes handed to the callbacks are "
    "exactly the old entries, each once: so all heap theorems apply to any later use and no old entry can come back); "
    "heap_destroy_releases_contents; heap_yields_sorted (repeated "
    "extract = sorted permutation of the contents); for each of insertion / shell / heap / merge / quick sort: termination of the "
    "fuelled model (result is not None; for quick sort this includes that no partition scan leaves the array), X_sorted and "
    "X_permutation for every list length incl. 0 and 1 and every key function; quick_cutoff_ok (3 <= cutoff) against the constant "
    "re-extracted from sort.c.",
    "TRANSLATOR TIE (43 obligations gen_<fn>_<segment>_matches_model + 6 model_<loop>_is_<segment>): an edit of heap.c / sort.c that "
    "changes, for ANY state, which cut a segment reaches, an array element, a loop variable, a return value, a library call or its "
    "arguments (growth formula capacity*2, bounds tests of remove / extract, comparison direction and tie-break of sift-up / sift-down "
    "/ remove, insertion / shell inner loops and gap sequence, the comparing merge loop, median-of-3, partition scans and swap, "
    "cutoff, the recursive calls and the insertion-sort tail, heap sort's insert / extract loops) breaks a proof obligation even when "
    "no generated input reaches the difference (checked: seeded C10-4 now breaks gen_qrec_pre_matches_model; 51 hand-made semantic "
    "edits, one or more per segment); loop rotation, for <-> while <-> do, guard clauses, helper extraction (swap through pointers, "
    "release helpers), hoisted / renamed locals, >> 1 for / 2, swapped comparator arguments, memcpy for the copy-back keep them "
    "(refactored/C10-A..F and 10 more rewrites stay quiet; E / F needed: helpers that contain a loop spliced into the caller "
    "before the cuts are made, helpers writing a caller's local through a pointer, loops driven by a helper that returns a "
    "continue flag, pointer-walk loop variables as indices, state vectors ordered by DECLARATION not by first use, parameter copies "
    "as aliases).  The merge iteration is tied ONLY while both runs have elements (l <= center, r <= right, idx <= right): that is "
    "what the three-loop and the fused one-loop form share; the exit condition of the merge loop is no longer tied.  NOT in the "
    "translator tie: the tail loops / block copies of the merge "
    "(after the comparing loop), muggle_heap_ensure_capacity's body and muggle_heap_init (allocation + copy; the call and its "
    "argument are tied), the free-callback invocations themselves (ignored by the slicer; differential run + monitor), loops moved "
    "into a helper function (reported as a broken obligation: no-failing-input-found).  The model-side link (model_*_is_*_step) is "
    "proved for the three heap loops, the insertion inner loop and the two partition scans; shell_inner and merge_loop are linked to "
    "their segments by the differential run only.",
    "Nothing is left _partial.  Statements are about the REPAIRED code (fixes/C10-merge-sort-empty-array.patch, "
    "fixes/C10-quick-sort-empty-array.patch, fixes/C10-heap-remove-last-slot.patch); on the unrepaired tree the check reports "
    "VIOLATION with replays (count == 0 for merge/quick sort: heap-buffer-overflow; remove of the last slot: comparator called "
    "with NULL).",
    "Covered ONLY by the differential run + monitor (not by theorems): that the Gallina model equals the C code (element-for-"
    "element outputs incl. instability, heap array, size, capacity, ids seen by the free callbacks); that the comparator is never "
    "handed NULL (driver comparator aborts); memory safety outside what the model represents (ASan/UBSan on exact-size arrays); "
    "arrays longer than %d elements (monitor only: sorted + permutation of ids; this includes the adversarial arrays of "
    "1000..4000 elements); size_t/uint32 "
    "wrap-around for arrays of 2^31 elements or more (heap sort refuses them with `false`; theorem hypothesis cap_is_valid)." % MODEL_MAX,
]
